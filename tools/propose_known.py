#!/venv/bin/python
"""propose_known.py Cxx [Cyy ...] : replay every stored replay file of the checks against the current /repo and print
`known:` line proposals for those that still reproduce (reviewed by hand before they go into known_findings.txt)."""
import glob, json, os, subprocess, sys
for prop in sys.argv[1:]:
    for f in sorted(glob.glob("/verif/replays/%s/*.json" % prop)):
        d = json.load(open(f))
        p = subprocess.run(["./check", prop, "--replay", f], cwd="/verif", capture_output=True, text=True, timeout=1800)
        still = "VIOLATION" in p.stdout
        what = " ".join(str(d["what"]).split())[:330]
        print("%s\t%s\t%s :: %s" % ("STILL" if still else "GONE ", prop, d["key"], what), flush=True)

#!/bin/bash
# seedrun.sh <worktree> <check> [tier] : run a check against a worktree that carries a seeded change (does not touch /repo)
wt=$1; chk=$2; tier=${3:-quick}
cd /verif && VERIF_REPO=$wt VTLMC_WORKERS=${VTLMC_WORKERS:-6} ./check $chk --tier $tier 2>&1 | grep -v conda | grep -E "VIOLATION|key=|tier=|TOOL" | cut -c1-330 | head -14

#!/venv/bin/python
"""known_from_log.py <log> : turn the 'key=... :: what' lines of a check log into known: lines (for review)"""
import re, sys
for log in sys.argv[1:]:
    prop = None
    for line in open(log, encoding="utf-8", errors="replace"):
        m = re.match(r"VIOLATION property=(\S+)", line)
        if m:
            prop = m.group(1)
        m = re.match(r"\s+key=(\S+) :: (.*)$", line)
        if m and prop:
            key = m.group(1).replace("[", "?").replace("]", "?")
            what = " ".join(m.group(2).split())[:420]
            print("known: property=%s key=%s :: %s" % (prop, key, what))

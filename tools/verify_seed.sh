#!/bin/bash
# verify_seed.sh <name> <worktree> <outdir> : confirm a seeded change (demo fails with it, passes without; pinned tests unchanged)
name=$1; wt=$2; out=$3
cd $wt || exit 2
git diff > /tmp/seed_$name.diff
[ -s /tmp/seed_$name.diff ] || { echo "EMPTY DIFF"; exit 2; }
echo "--- files changed:"; git diff --stat | tail -3
timeout 900 /venv/bin/python $out/demo.py $wt > /tmp/seed_$name.with.log 2>&1; with=$?
git apply -R /tmp/seed_$name.diff || { echo "cannot revert"; exit 2; }
timeout 900 /venv/bin/python $out/demo.py $wt > /tmp/seed_$name.without.log 2>&1; without=$?
git apply /tmp/seed_$name.diff
echo "demo exit with change: $with ; without change: $without"
/venv/bin/python -m pytest -q -p no:cacheprovider --timeout=900 --continue-on-collection-errors 2>&1 | tail -1

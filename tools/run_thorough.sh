#!/bin/bash
# run_thorough.sh <per-check timeout s> ids... : thorough tiers sequentially against /repo, logs under /tmp/runall/
to=$1; shift
mkdir -p /tmp/runall
cd /verif
for id in "$@"; do
  s=$(date +%s)
  timeout $to ./check $id --tier thorough > /tmp/runall/$id.thorough.log 2>&1
  rc=$?
  echo "$id rc=$rc wall=$(( $(date +%s) - s ))s $(grep -E "^$id tier" /tmp/runall/$id.thorough.log | cut -c1-160)" >> /tmp/runall/summary.thorough.txt
done

#!/venv/bin/python
"""keep_seed.py <id> <property> "<what I ran and saw>" : store a confirmed seeded change under /verif/seeded/<id>/"""
import json, os, shutil, sys
sid, prop, ran = sys.argv[1], sys.argv[2], sys.argv[3]
src = os.environ.get("SEED_SRC", "/tmp/mut/out") + "/%s" % sid.split("_")[0]
dst = "/verif/seeded/%s" % sid
os.makedirs(dst, exist_ok=True)
shutil.copy(os.path.join(src, "patch.diff"), dst)
shutil.copy(os.path.join(src, "demo.py"), dst)
meta = json.load(open(os.path.join(src, "meta.json")))
out = {"property": prop, "summary": meta.get("summary"), "needs": meta.get("needs"), "files": meta.get("files"),
       "pinned_tests_with_change": meta.get("pinned_tests_after"), "confirmed_by_me": ran,
       "demo": "python demo.py <checkout> exits 0 without the change and non-zero with it (needs the parser stand-in: sys.path /verif, VERIF_REPO=<checkout>)",
       "base_commit": os.popen("git -C %s/%s rev-parse --short HEAD" % (os.path.dirname(os.environ.get("SEED_SRC", "/tmp/mut/out")), sid.split("_")[0])).read().strip()}
json.dump(out, open(os.path.join(dst, "meta.json"), "w"), indent=1)
# demos were written against a copy of the stand-in under /tmp/vtlfe: point them at /verif
p = os.path.join(dst, "demo.py")
s = open(p).read().replace("/tmp/vtlfe", "/verif")
open(p, "w").write(s)
print("kept", dst)

#!/bin/bash
# run_all.sh [tier] [ids...] : run checks sequentially against /repo, logs under /tmp/runall/
tier=${1:-quick}; shift
ids=${@:-C01 C02 C03 C04 C05 C06 C07 C08 C09 C10 C11 C12 C13 C14 C15 C16 C17 C18 C19 C20 C21 C22 C23 C24 C25 C26 C27 C28 C29 C30 C31 C32 C33}
mkdir -p /tmp/runall
cd /verif
for id in $ids; do
  s=$(date +%s)
  ./check $id --tier $tier > /tmp/runall/$id.$tier.log 2>&1
  rc=$?
  echo "$id rc=$rc wall=$(( $(date +%s) - s ))s $(grep -E "^$id tier" /tmp/runall/$id.$tier.log | cut -c1-160)" >> /tmp/runall/summary.$tier.txt
done

#!/bin/sh
# MANIFEST.setup_cmd: build the framework from files on disk only (offline).
set -e
cd "$(dirname "$0")"
mkdir -p build evidence
javac -nowarn -cp third_party/antlr4-runtime-4.11.1.jar -d build frontend/VtlParseServer.java
export PYTHONHASHSEED=0
/venv/bin/python -m vtlmc.selftest

"""Shared harness: boots the real engine behind the front-end stand-in, canonicalises results,
collects cases / coverage / violations, matches known findings, writes evidence.

Everything here is bookkeeping; verdicts come from the per-check oracles.
"""
import fnmatch
import hashlib
import json
import math
import multiprocessing as mp
import os
import re
import shutil
import sys
import tempfile
import time
import traceback

VERIF = os.path.dirname(os.path.dirname(os.path.abspath(__file__)))
REPO = os.environ.get("VERIF_REPO", "/repo")
if VERIF not in sys.path:
    sys.path.insert(0, VERIF)

GUARD = "MEANINGFUL_DATA_VTLENGINE_VERIF"
_SCRATCH = None
_BOOTED = False


def scratch():
    """per-process scratch directory (removed at exit by the runner)"""
    global _SCRATCH
    if _SCRATCH is None or not os.path.isdir(_SCRATCH):
        base = os.environ.get("VTLMC_SCRATCH")
        if base is None:
            base = tempfile.mkdtemp(prefix="vtlmc-")
            os.environ["VTLMC_SCRATCH"] = base
        _SCRATCH = base
    return _SCRATCH


def boot():
    """install the stand-in and import the engine from the *current* /repo working tree"""
    global _BOOTED
    from frontend import fe
    fe.install()
    if not _BOOTED:
        os.environ.setdefault(GUARD, "1")
        os.environ.setdefault("PYTHONHASHSEED", "0")
        tdir = os.path.join(scratch(), "vtltmp")
        os.makedirs(tdir, exist_ok=True)
        os.environ.setdefault("VTL_TEMP_DIRECTORY", tdir)
        _BOOTED = True
    import vtlengine  # noqa: F401
    import warnings
    warnings.filterwarnings("ignore")
    return vtlengine


# ------------------------------------------------------------------------------------------------
# canonical forms of results (O1 comparisons): name -> (components, set of datapoints)
# ------------------------------------------------------------------------------------------------

def canon_value(v, ndigits=9):
    """NA/None/NaN -> None; numerics to a tolerant but deterministic form; everything else as is"""
    if v is None:
        return None
    try:
        import pandas as pd
        if v is pd.NA or v is pd.NaT:
            return None
    except Exception:
        pass
    if isinstance(v, bool):
        return bool(v)
    try:
        import numpy as np
        if isinstance(v, np.bool_):
            return bool(v)
        if isinstance(v, np.integer):
            return int(v)
        if isinstance(v, np.floating):
            v = float(v)
    except Exception:
        pass
    if isinstance(v, float):
        if math.isnan(v):
            return None
        if math.isinf(v):
            return "inf" if v > 0 else "-inf"
        if v == int(v) and abs(v) < 1e15:
            return int(v)
        return float("%.*g" % (ndigits + 3, v))
    if isinstance(v, int):
        return v
    if hasattr(v, "isoformat"):
        return v.isoformat()
    return v if isinstance(v, str) else str(v)


def num_eq(a, b, rel=1e-9):
    if a is None or b is None:
        return a is None and b is None
    if isinstance(a, bool) or isinstance(b, bool):
        return a == b
    if isinstance(a, (int, float)) and isinstance(b, (int, float)):
        if a == b:
            return True
        return abs(a - b) <= rel * max(abs(a), abs(b), 1e-300) or abs(a - b) < 1e-12
    return a == b


def canon_components(ds):
    return tuple((c.name, c.role.value if hasattr(c.role, "value") else str(c.role),
                  getattr(c.data_type, "__name__", str(c.data_type)), bool(c.nullable))
                 for c in ds.components.values())


def dataset_rows(ds, columns=None):
    """list of dict rows with canonical values; None if the dataset carries no data"""
    df = ds.data
    if df is None:
        return None
    cols = list(df.columns) if columns is None else columns
    out = []
    recs = df.to_dict("records") if len(df) else []
    for r in recs:
        out.append({c: canon_value(r.get(c)) for c in cols})
    return out


def canon_dataset(ds):
    rows = dataset_rows(ds)
    ids = [c.name for c in ds.components.values() if (c.role.value if hasattr(c.role, "value") else str(c.role)) == "Identifier"]
    if rows is None:
        body = None
    else:
        body = sorted((tuple(sorted(r.items(), key=lambda kv: kv[0])) for r in rows), key=repr)
    return {"components": canon_components(ds), "ids": ids, "rows": body}


def canon_results(res):
    from vtlengine.Model import Dataset, Scalar
    out = {}
    for k, v in res.items():
        if isinstance(v, Dataset):
            out[k] = ("dataset", canon_dataset(v))
        elif isinstance(v, Scalar):
            out[k] = ("scalar", getattr(v.data_type, "__name__", str(v.data_type)), canon_value(v.value))
        else:
            out[k] = ("other", repr(v))
    return out


def rows_equal(a, b, rel=1e-9):
    """compare two canonical row lists (sorted tuples of (col, value)) with numeric tolerance"""
    if a is None or b is None:
        return a is None and b is None
    if len(a) != len(b):
        return False
    if a == b:
        return True

    def key(r):
        return tuple((k, ("n", round(v, 6)) if isinstance(v, float) else ("v", repr(v))) for k, v in r)
    sa, sb = sorted(a, key=key), sorted(b, key=key)
    for ra, rb in zip(sa, sb):
        if len(ra) != len(rb):
            return False
        for (ka, va), (kb, vb) in zip(ra, rb):
            if ka != kb or not num_eq(va, vb, rel):
                return False
    return True


def results_equal(a, b, compare_components=True, rel=1e-9):
    if set(a) != set(b):
        return False
    for k in a:
        x, y = a[k], b[k]
        if x[0] != y[0]:
            return False
        if x[0] == "dataset":
            if compare_components and x[1]["components"] != y[1]["components"]:
                return False
            if not rows_equal(x[1]["rows"], y[1]["rows"], rel):
                return False
        elif x[0] == "scalar":
            if x[1] != y[1] or not num_eq(x[2], y[2], rel):
                return False
        elif x != y:
            return False
    return True


def classify_exception(e):
    """('vtl', class, code) for engine errors, ('raw', class, None) otherwise"""
    try:
        from vtlengine.Exceptions import VTLEngineException
    except Exception:
        VTLEngineException = ()
    cls = type(e).__name__
    if isinstance(e, VTLEngineException):
        args = getattr(e, "args", ())
        return ("vtl", cls, args[1] if len(args) > 1 else getattr(e, "code", None))
    return ("raw", cls, None)


def call(fn, *a, **k):
    """execute an API call -> ('ok', result) | ('err', kind, class, code, message)"""
    try:
        return ("ok", fn(*a, **k))
    except Exception as e:  # noqa: BLE001  (the whole point is to see what escapes)
        kind, cls, code = classify_exception(e)
        return ("err", kind, cls, code, str(e)[:500])


# ------------------------------------------------------------------------------------------------
# structures / frames helpers
# ------------------------------------------------------------------------------------------------

def comp(name, type_, role, nullable=None):
    if nullable is None:
        nullable = role != "Identifier"
    return {"name": name, "type": type_, "role": role, "nullable": nullable}


def structure(name, comps):
    return {"name": name, "DataStructure": comps}


def structures(*dss, scalars=None):
    d = {"datasets": list(dss)}
    if scalars:
        d["scalars"] = scalars
    return d


def frame(cols, rows):
    import pandas as pd
    return pd.DataFrame([dict(zip(cols, r)) for r in rows], columns=cols)


# ------------------------------------------------------------------------------------------------
# recorder: cases, coverage keys, outcomes, violations
# ------------------------------------------------------------------------------------------------

class Recorder:
    def __init__(self):
        self.evaluations = 0
        self.keys = {}          # coverage key -> count (non-trivial cases only)
        self.trivial = 0
        self.outcomes = {}      # outcome class -> count
        self.samples = []
        self.violations = []    # dict(key, what, replay)
        self.counters = {}
        self.sets = {}          # name -> set (merged by union; sizes are reported)
        self.notes = []
        self.tool_errors = []

    def case(self, key, outcome="ok", nontrivial=True, sample=None, n=1):
        self.evaluations += n
        if nontrivial:
            self.keys[key] = self.keys.get(key, 0) + n
        else:
            self.trivial += n
        self.outcomes[outcome] = self.outcomes.get(outcome, 0) + n
        if sample is not None and len(self.samples) < 6:
            self.samples.append(sample)

    def violation(self, key, what, replay=None):
        if len(self.violations) < 2000:
            self.violations.append({"key": key, "what": what, "replay": replay})
        self.count("violations_raw")

    def count(self, name, n=1):
        self.counters[name] = self.counters.get(name, 0) + n

    def add(self, name, items):
        self.sets.setdefault(name, set()).update(items)

    def note(self, s):
        if len(self.notes) < 50:
            self.notes.append(s)

    def tool_error(self, s):
        if len(self.tool_errors) < 20:
            self.tool_errors.append(s)

    def merge(self, o):
        self.evaluations += o.evaluations
        self.trivial += o.trivial
        for k, v in o.keys.items():
            self.keys[k] = self.keys.get(k, 0) + v
        for k, v in o.outcomes.items():
            self.outcomes[k] = self.outcomes.get(k, 0) + v
        for k, v in o.counters.items():
            self.counters[k] = self.counters.get(k, 0) + v
        for k, v in o.sets.items():
            self.sets.setdefault(k, set()).update(v)
        for s in o.samples:
            if len(self.samples) < 6:
                self.samples.append(s)
        self.violations.extend(o.violations[: max(0, 2000 - len(self.violations))])
        self.notes.extend(o.notes[: max(0, 50 - len(self.notes))])
        self.tool_errors.extend(o.tool_errors[: max(0, 20 - len(self.tool_errors))])


# ------------------------------------------------------------------------------------------------
# parallel map over worker processes (fork; each worker boots the engine and owns one JVM host)
# ------------------------------------------------------------------------------------------------

def _worker_init():
    try:
        from frontend import fe
        fe._State.proc = None
    except Exception:
        pass
    # every worker owns its engine temp directory (residue oracles look at it)
    tdir = os.path.join(scratch(), "vtltmp-%d" % os.getpid())
    os.makedirs(tdir, exist_ok=True)
    os.environ["VTL_TEMP_DIRECTORY"] = tdir


def _worker_call(args):
    fn, item = args
    rec = Recorder()
    try:
        fn(item, rec)
    except Exception:  # tooling failure inside a worker: loud, never a pass
        rec.tool_error("worker crashed on %r: %s" % (str(item)[:200], traceback.format_exc()[-1500:]))
    return rec


def pmap(fn, items, rec, workers=None, chunksize=1):
    """run fn(item, Recorder) for every item in worker processes and merge the recorders"""
    items = list(items)
    workers = workers or int(os.environ.get("VTLMC_WORKERS", "16"))
    workers = max(1, min(workers, len(items)))
    if workers == 1 or os.environ.get("VTLMC_SERIAL"):
        for it in items:
            rec.merge(_worker_call((fn, it)))
        return
    ctx = mp.get_context("fork")
    with ctx.Pool(workers, initializer=_worker_init) as pool:
        for r in pool.imap_unordered(_worker_call, [(fn, it) for it in items], chunksize=chunksize):
            rec.merge(r)


def chunks(seq, n):
    seq = list(seq)
    for i in range(0, len(seq), n):
        yield seq[i:i + n]


def seeded_order(items, seed):
    """VERIF_SEED only permutes the order in which a space is walked (never the space itself)"""
    items = list(items)
    if not seed:
        return items
    import random
    random.Random(seed).shuffle(items)
    return items


# ------------------------------------------------------------------------------------------------
# known findings
# ------------------------------------------------------------------------------------------------

KNOWN_FILE = os.path.join(VERIF, "known_findings.txt")


def load_known(prop):
    """-> list of (key pattern, description) for 'known:' lines of this property"""
    out = []
    if not os.path.exists(KNOWN_FILE):
        return out
    for line in open(KNOWN_FILE, encoding="utf-8"):
        line = line.strip()
        m = re.match(r"known:\s+property=(\S+)\s+key=(\S+)\s+::\s*(.*)$", line)
        if m and m.group(1) == prop:
            out.append((m.group(2), m.group(3)))
    return out


def safe_name(key):
    s = re.sub(r"[^A-Za-z0-9_.=+-]+", "_", key)[:120]
    return s + "-" + hashlib.sha1(key.encode("utf-8")).hexdigest()[:8]


# ------------------------------------------------------------------------------------------------
# finishing a check: evidence + verdict lines + exit code
# ------------------------------------------------------------------------------------------------

def finish(check, rec, tier, seed, t0, coverage_extra=None, assumptions=None):
    prop = check.ID
    known = load_known(prop)
    by_key = {}
    for v in rec.violations:
        by_key.setdefault(v["key"], v)
    new, seen_known = [], {}
    for key, v in sorted(by_key.items()):
        hit = None
        for pat, what in known:
            if fnmatch.fnmatchcase(key, pat):
                hit = (pat, what)
                break
        if hit:
            seen_known.setdefault(hit[0], (hit[1], key))
        else:
            new.append(v)
    for pat, (what, key) in sorted(seen_known.items()):
        print("KNOWN-FINDING: property=%s %s [key %s]" % (prop, what, key))
    rdir = os.path.join(VERIF, "replays", prop)
    for v in new:
        os.makedirs(rdir, exist_ok=True)
        path = os.path.join(rdir, safe_name(v["key"]) + ".json")
        with open(path, "w", encoding="utf-8") as f:
            json.dump({"property": prop, "key": v["key"], "what": v["what"], "replay": v["replay"]}, f,
                      indent=1, default=str, sort_keys=True)
        print("VIOLATION property=%s replay=%s" % (prop, path))
        print("   key=%s :: %s" % (v["key"], str(v["what"])[:600]))
    distinct = len(rec.keys)
    cov = {
        "evaluations": int(rec.evaluations),
        "distinct_nontrivial": int(distinct),
        "rule": check.RULE,
        "samples": rec.samples[:6] if rec.samples else [],
        "distinct_outcomes": len(rec.outcomes),
        "outcomes": dict(sorted(rec.outcomes.items(), key=lambda kv: -kv[1])[:40]),
        "trivial_cases": int(rec.trivial),
        "counters": rec.counters,
        "set_sizes": {k: len(v) for k, v in rec.sets.items()},
        "known_findings_reobserved": sorted(k for k in seen_known),
        "notes": rec.notes,
    }
    if coverage_extra:
        cov.update(coverage_extra)
    try:
        import subprocess
        head = subprocess.run(["git", "-C", REPO, "rev-parse", "--short", "HEAD"], capture_output=True, text=True, timeout=20).stdout.strip()
        dirty = bool(subprocess.run(["git", "-C", REPO, "status", "--porcelain", "--untracked-files=no"], capture_output=True, text=True,
                                    timeout=20).stdout.strip())
    except Exception:  # noqa: BLE001
        head, dirty = "", False
    cov["subject"] = {"checkout": REPO, "head": head, "working_tree_modified": dirty}
    ev = {
        "property_id": prop, "tier": tier, "seed": int(seed), "level": check.LEVEL,
        "coverage": cov, "assumptions": list(assumptions or getattr(check, "ASSUMPTIONS", [])),
        "wall_s": round(time.time() - t0, 2), "violations": len(new),
    }
    # the registered evidence file describes runs against /repo only; a run against another checkout (VERIF_REPO: a
    # worktree carrying a seeded change) writes next to it, in a directory that is not committed
    edir = "evidence" if os.path.realpath(REPO) == "/repo" else "evidence_other_checkout"
    os.makedirs(os.path.join(VERIF, edir), exist_ok=True)
    epath = os.path.join(VERIF, edir, prop + ".json")
    tool_fail = list(rec.tool_errors)
    try:
        import jsonschema
        schema = json.load(open("/root/.vp/EVIDENCE.schema.json")) if os.path.exists("/root/.vp/EVIDENCE.schema.json") \
            else json.load(open(os.path.join(VERIF, "vtlmc", "EVIDENCE.schema.json")))
        jsonschema.validate(json.loads(json.dumps(ev, default=str)), schema)
    except Exception as e:  # noqa: BLE001
        tool_fail.append("evidence does not validate: %s" % str(e)[:300])
    with open(epath, "w", encoding="utf-8") as f:
        json.dump(ev, f, indent=1, default=str, sort_keys=True)
    print("%s tier=%s seed=%s evaluations=%d distinct_nontrivial=%d outcomes=%d known=%d new_violations=%d wall=%.1fs" % (
        prop, tier, seed, rec.evaluations, distinct, len(rec.outcomes), len(seen_known), len(new), time.time() - t0))
    for k, v in sorted(rec.counters.items()):
        print("   %s=%s" % (k, v))
    if tool_fail:
        for t in tool_fail:
            print("TOOL-ERROR %s: %s" % (prop, t))
        return 2
    return 1 if new else 0


def cleanup():
    global _SCRATCH
    try:
        from frontend import fe
        fe.shutdown()
    except Exception:
        pass
    base = os.environ.get("VTLMC_SCRATCH")
    if base and os.path.isdir(base) and os.path.basename(base).startswith("vtlmc-"):
        shutil.rmtree(base, ignore_errors=True)

"""Reference evaluator for C07: check, check_datapoint, check_hierarchy, hierarchy (VTL 2.1 reference manual).

Plain Python over lists of dicts, three-valued logic with None; shares no code with the engine.  The evaluator
reads the *script text* (a small tokenizer + recursive-descent parser for the subset below) and evaluates it on
in-memory datasets, so the calibration corpus and the generated scripts of the check go through the same code.

Subset
  define datapoint ruleset N (variable|valuedomain a [as x], ...) is [name :] [when e then] e [errorcode c] [errorlevel c]; ... end datapoint ruleset;
  define hierarchical ruleset N (variable|valuedomain [condition a [as x], ...] rule r) is
        [name :] [when e then] item (=|<>|<|<=|>|>=) [+|-] item {(+|-) item} [errorcode c] [errorlevel c]; ... end hierarchical ruleset;
  R (:=|<-) check_datapoint(DS, N [components c, ...] [invalid|all|all_measures]);
  R (:=|<-) check_hierarchy(DS, N [condition c, ...] [rule c] [mode] [dataset] [invalid|all|all_measures]);
  R (:=|<-) hierarchy(DS, N [condition c, ...] [rule c] [mode] [dataset|rule|rule_priority] [computed|all]);
  R (:=|<-) check(A cmp B [errorcode c] [errorlevel c] [imbalance X] [invalid|all]);     A, B, X: dataset, DS#comp, constant, A - B, -A
Row-level expressions e: constants, component names, = <> < <= > >=, and or xor not, + - * /, ||, nvl, isnull, between,
length, abs, if-then-else, cast(<constant>, <type>) (the constant is kept as written), parentheses.
Anything else raises Outside (the case is not in the subset; never a verdict).

Points on which the manual is not crisp are *policies*: the evaluator asks ``pol.ask(name)`` and the caller enumerates
every answer that was actually consulted (``alternatives``); a slice of the engine's result is accepted when it equals
the result under one combination of answers.  Answer 0 is always the reading the stored expectations of the repository
exhibit where they exhibit one.
"""
import re


class Outside(Exception):
    """the script / data is outside the modelled subset"""


# ---------------------------------------------------------------------------------------------------------
# policies (unclear points of the manual)
# ---------------------------------------------------------------------------------------------------------

POLICIES = {
    "dp-when-null": "datapoint rule whose antecedent (when) evaluates to null: bool_var null | the rule counts as not applicable (true)",
    "nz-cancel": "check_hierarchy non_zero, some involved item is non-zero but both sides evaluate to 0: produced | not produced",
    "hr-when-false": "hierarchical rule whose when-condition is false for the group. check_hierarchy: the rule cannot fail (bool_var "
                     "true, nothing in invalid output) | no datapoint at all.  hierarchy: nothing is computed | the item is computed as null",
    "hr-when-false-imbalance": "check_hierarchy, when-condition false and the datapoint is returned: imbalance null | left - right",
    "nz-zero-chained": "hierarchy, non_zero, rule_priority: a computed item that is 0 is not returned; for a dependent rule it is absent from the "
                       "computed output (the operand's datapoint is taken) | it is available as 0",
    "rule-fallback": "hierarchy, input mode rule, the rule that defines a right-side item produced no datapoint for the group: the item "
                     "is missing | the operand's datapoint is used",
}
# unclear in the manual but exhibited by the stored expectations of the repository (the other answer does not reproduce them):
# fixed to the exhibited answer, not an alternative
PINNED = {
    "nz-null": "non_zero, no involved item is known to be non-zero but one is null: the datapoint is produced "
               "(tests/Hierarchical 1-1-1-20, 1-1-1-26, 2-1-1-2, 2-1-1-14 ...)",
    "pz-missing": "partial_zero, no involved item exists with a non-null value (missing ones count as 0): not produced "
                  "(tests/Hierarchical 1-1-1-22, 1-1-1-31, 2-1-1-4)",
    "always-none": "always_null / always_zero, none of the involved items exists in the group of identifiers: not produced "
                   "(tests/Hierarchical 1-1-1-24, GL_265_4, 2-1-1-5, 2-1-1-6, GL_494_5)",
}


class Policy:
    def __init__(self, choices=None):
        self.choices = dict(choices or {})
        self.asked = set()
        self.pinned_hits = set()

    def ask(self, name):
        if name in PINNED:
            self.pinned_hits.add(name)
            return 0
        self.asked.add(name)
        return self.choices.get(name, 0)


def alternatives(fn, limit=64):
    """fn(Policy) -> hashable result; -> list of distinct results over every combination of answers that was consulted
    (the first one is the result under the default answers)"""
    out, seen_res, done = [], set(), set()
    stack = [{}]
    while stack:
        ch = stack.pop(0)
        key = frozenset(ch.items())
        if key in done:
            continue
        done.add(key)
        pol = Policy(ch)
        res = fn(pol)
        if res not in seen_res:
            seen_res.add(res)
            out.append(res)
        for name in sorted(pol.asked):
            if name not in ch and len(done) + len(stack) < limit:
                new = dict(ch)
                new[name] = 1
                stack.append(new)
    return out


# ---------------------------------------------------------------------------------------------------------
# tokens
# ---------------------------------------------------------------------------------------------------------

_TOKEN = re.compile(r"""
    (?P<ws>\s+|/\*.*?\*/|//[^\n]*)
  | (?P<num>\d+\.\d+(?![A-Za-z_])|\d+(?![A-Za-z_0-9.]))
  | (?P<str>"[^"]*")
  | (?P<qid>'[^']*')
  | (?P<op>:=|<-|<>|<=|>=|\|\||[-+*/=<>()\[\]{},;:\#])
  | (?P<id>[A-Za-z_][A-Za-z_0-9]*|\d+[A-Za-z_][A-Za-z_0-9]*)
""", re.X | re.S)

CMP = ("=", "<>", "<", "<=", ">", ">=")
MODES = ("non_null", "non_zero", "partial_null", "partial_zero", "always_null", "always_zero")
ZERO_MODES = ("non_zero", "partial_zero", "always_zero")


def tokenize(text):
    toks, pos = [], 0
    while pos < len(text):
        m = _TOKEN.match(text, pos)
        if not m:
            raise Outside("unexpected character %r" % text[pos:pos + 10])
        pos = m.end()
        kind = m.lastgroup
        if kind == "ws":
            continue
        toks.append((kind, m.group(kind)))
    return toks


class P:
    def __init__(self, toks):
        self.t, self.i = toks, 0

    def peek(self, k=0):
        return self.t[self.i + k] if self.i + k < len(self.t) else ("eof", "")

    def next(self):
        tok = self.peek()
        self.i += 1
        return tok

    def at(self, *vals):
        tok = self.peek()
        return tok[0] in ("op", "id") and tok[1] in vals

    def accept(self, *vals):
        if self.at(*vals):
            return self.next()[1]
        return None

    def expect(self, *vals):
        if not self.at(*vals):
            raise Outside("expected %s, found %r" % ("/".join(vals), self.peek()[1]))
        return self.next()[1]

    def ident(self):
        tok = self.next()
        if tok[0] == "id":
            return tok[1]
        if tok[0] == "qid":
            return tok[1][1:-1]
        raise Outside("identifier expected, found %r" % (tok[1],))


# ---------------------------------------------------------------------------------------------------------
# row-level expressions
# ---------------------------------------------------------------------------------------------------------

KEYWORDS = {"and", "or", "xor", "not", "when", "then", "else", "if", "errorcode", "errorlevel", "end", "in", "not_in",
            "true", "false", "null", "imbalance", "invalid", "all", "all_measures", "components", "condition", "rule"}
FUNCS = {"nvl": 2, "isnull": 1, "between": 3, "length": 1, "abs": 1}


def constant(p):
    kind, val = p.peek()
    if kind == "num":
        p.next()
        return float(val) if "." in val else int(val)
    if kind == "str":
        p.next()
        return val[1:-1]
    if kind == "id" and val in ("true", "false"):
        p.next()
        return val == "true"
    if kind == "id" and val == "null":
        p.next()
        return None
    if kind == "op" and val in "+-" and p.peek(1)[0] == "num":
        p.next()
        v = constant(p)
        return -v if val == "-" else v
    raise Outside("constant expected, found %r" % (val,))


def parse_expr(p):
    return _or(p)


def _or(p):
    left = _and(p)
    while p.at("or", "xor"):
        op = p.next()[1]
        left = ("bin", op, left, _and(p))
    return left


def _and(p):
    left = _not(p)
    while p.at("and"):
        p.next()
        left = ("bin", "and", left, _not(p))
    return left


def _not(p):
    if p.at("not"):
        p.next()
        return ("un", "not", _not(p))
    return _cmp(p)


def _cmp(p):
    left = _add(p)
    while p.peek()[0] == "op" and p.peek()[1] in CMP:
        op = p.next()[1]
        left = ("bin", op, left, _add(p))
    return left


def _add(p):
    left = _mul(p)
    while p.peek()[0] == "op" and p.peek()[1] in ("+", "-", "||"):
        op = p.next()[1]
        left = ("bin", op, left, _mul(p))
    return left


def _mul(p):
    left = _unary(p)
    while p.peek()[0] == "op" and p.peek()[1] in ("*", "/"):
        op = p.next()[1]
        left = ("bin", op, left, _unary(p))
    return left


def _unary(p):
    if p.peek()[0] == "op" and p.peek()[1] in ("+", "-"):
        op = p.next()[1]
        return ("un", op, _unary(p))
    return _primary(p)


def _primary(p):
    kind, val = p.peek()
    if kind in ("num", "str") or (kind == "id" and val in ("true", "false", "null")):
        return ("const", constant(p))
    if kind == "op" and val == "(":
        p.next()
        e = parse_expr(p)
        p.expect(")")
        return e
    if kind == "id" and val == "if":
        p.next()
        c = parse_expr(p)
        p.expect("then")
        a = parse_expr(p)
        p.expect("else")
        b = parse_expr(p)
        return ("if", c, a, b)
    if kind == "id" and val == "cast":
        p.next()
        p.expect("(")
        e = parse_expr(p)
        p.expect(",")
        p.ident()
        p.expect(")")
        if e[0] != "const":
            raise Outside("cast of a non-constant")
        return e
    if kind == "id" and val in FUNCS and p.peek(1) == ("op", "("):
        p.next()
        p.next()
        args = [parse_expr(p)]
        while p.accept(","):
            args.append(parse_expr(p))
        p.expect(")")
        if len(args) != FUNCS[val]:
            raise Outside("arity of %s" % val)
        return ("call", val, args)
    if kind == "id" and val not in KEYWORDS:
        if p.peek(1) == ("op", "("):
            raise Outside("function %s" % val)
        p.next()
        return ("var", val)
    if kind == "qid":
        p.next()
        return ("var", val[1:-1])
    raise Outside("expression expected, found %r" % (val,))


def _num(v):
    return isinstance(v, (int, float)) and not isinstance(v, bool)


def _comparable(a, b):
    if _num(a) and _num(b):
        return True
    if isinstance(a, bool) and isinstance(b, bool):
        return True
    return isinstance(a, str) and isinstance(b, str)


def compare_values(op, a, b):
    """three-valued comparison"""
    if a is None or b is None:
        return None
    if not _comparable(a, b):
        raise Outside("comparison of %s with %s" % (type(a).__name__, type(b).__name__))
    if op == "=":
        return a == b
    if op == "<>":
        return a != b
    if op == "<":
        return a < b
    if op == "<=":
        return a <= b
    if op == ">":
        return a > b
    if op == ">=":
        return a >= b
    raise Outside("operator %s" % op)


def and3(a, b):
    if a is False or b is False:
        return False
    if a is None or b is None:
        return None
    return True


def or3(a, b):
    if a is True or b is True:
        return True
    if a is None or b is None:
        return None
    return False


def _bool(v):
    if v is not None and not isinstance(v, bool):
        raise Outside("boolean expected, found %r" % (v,))
    return v


def ev(node, env):
    kind = node[0]
    if kind == "const":
        return node[1]
    if kind == "var":
        if node[1] not in env:
            raise Outside("unknown component %s" % node[1])
        return env[node[1]]
    if kind == "un":
        v = ev(node[2], env)
        if node[1] == "not":
            v = _bool(v)
            return None if v is None else not v
        if v is None:
            return None
        if not _num(v):
            raise Outside("sign of a non-number")
        return -v if node[1] == "-" else v
    if kind == "if":
        c = _bool(ev(node[1], env))
        return ev(node[2], env) if c is True else ev(node[3], env)
    if kind == "call":
        fn, args = node[1], [ev(a, env) for a in node[2]]
        if fn == "nvl":
            return args[1] if args[0] is None else args[0]
        if fn == "isnull":
            return args[0] is None
        if fn == "between":
            return and3(compare_values(">=", args[0], args[1]), compare_values("<=", args[0], args[2]))
        if fn == "length":
            if args[0] is None:
                return None
            if not isinstance(args[0], str):
                raise Outside("length of a non-string")
            return len(args[0])
        if fn == "abs":
            if args[0] is None:
                return None
            if not _num(args[0]):
                raise Outside("abs of a non-number")
            return abs(args[0])
    if kind == "bin":
        op = node[1]
        a, b = ev(node[2], env), ev(node[3], env)
        if op == "and":
            return and3(_bool(a), _bool(b))
        if op == "or":
            return or3(_bool(a), _bool(b))
        if op == "xor":
            a, b = _bool(a), _bool(b)
            return None if a is None or b is None else a != b
        if op in CMP:
            return compare_values(op, a, b)
        if a is None or b is None:
            return None
        if op == "||":
            if not (isinstance(a, str) and isinstance(b, str)):
                raise Outside("|| of non-strings")
            return a + b
        if not (_num(a) and _num(b)):
            raise Outside("arithmetic on non-numbers")
        if op == "+":
            return a + b
        if op == "-":
            return a - b
        if op == "*":
            return a * b
        if op == "/":
            if b == 0:
                raise Outside("division by zero")
            return a / b
    raise Outside("expression node %r" % (node[:2],))


# ---------------------------------------------------------------------------------------------------------
# script parser
# ---------------------------------------------------------------------------------------------------------

def _rule_tail(p):
    code = level = None
    has_code = has_level = False
    if p.accept("errorcode"):
        code, has_code = constant(p), True
    if p.accept("errorlevel"):
        level, has_level = constant(p), True
    return code, level, has_code, has_level


def _rule_name(p):
    if p.peek()[0] in ("id", "num") and p.peek(1) == ("op", ":"):
        name = p.next()[1]
        p.next()
        return name
    return None


def _sig_items(p, stop):
    items = []
    while not p.at(*stop):
        name = p.ident()
        alias = p.ident() if p.accept("as") else None
        items.append((name, alias))
        if not p.accept(","):
            break
    return items


def _define_dpr(p):
    name = p.ident()
    p.expect("(")
    sig_type = p.expect("variable", "valuedomain")
    sig = _sig_items(p, (")",))
    p.expect(")")
    p.expect("is")
    rules = []
    while True:
        rname = _rule_name(p)
        when = None
        if p.accept("when"):
            when = parse_expr(p)
            p.expect("then")
        then = parse_expr(p)
        code, level, _, _ = _rule_tail(p)
        rules.append({"name": rname, "when": when, "then": then, "errorcode": code, "errorlevel": level})
        if not p.accept(";"):
            break
        if p.at("end"):
            break
    p.expect("end")
    p.expect("datapoint")
    p.expect("ruleset")
    if not sig:
        raise Outside("empty signature")
    return {"kind": "dpr", "name": name, "sig_type": sig_type, "sig": sig, "rules": rules}


def _code_item(p):
    kind, val = p.next()
    if kind in ("id", "num"):
        item = val
    elif kind == "qid":
        item = val[1:-1]
    else:
        raise Outside("code item expected, found %r" % (val,))
    if p.at("["):
        raise Outside("code item with a condition")
    return item


def _define_hr(p):
    name = p.ident()
    p.expect("(")
    sig_type = p.expect("variable", "valuedomain")
    conds = []
    if p.accept("condition"):
        conds = _sig_items(p, ("rule",))
    p.expect("rule")
    rule_comp = p.ident()
    p.expect(")")
    p.expect("is")
    rules = []
    while True:
        rname = _rule_name(p)
        when = None
        if p.accept("when"):
            when = parse_expr(p)
            p.expect("then")
        left = _code_item(p)
        tok = p.next()
        if tok[0] != "op" or tok[1] not in CMP:
            raise Outside("code item relation expected, found %r" % (tok[1],))
        sign = 1
        if p.peek()[0] == "op" and p.peek()[1] in "+-":
            sign = -1 if p.next()[1] == "-" else 1
        right = [(sign, _code_item(p))]
        while p.peek()[0] == "op" and p.peek()[1] in ("+", "-"):
            sign = -1 if p.next()[1] == "-" else 1
            right.append((sign, _code_item(p)))
        code, level, _, _ = _rule_tail(p)
        rules.append({"name": rname, "when": when, "left": left, "op": tok[1], "right": right, "errorcode": code, "errorlevel": level})
        if not p.accept(";"):
            break
        if p.at("end"):
            break
    p.expect("end")
    p.expect("hierarchical")
    p.expect("ruleset")
    return {"kind": "hr", "name": name, "sig_type": sig_type, "conds": conds, "rule_comp": rule_comp, "rules": rules}


def _ds_operand(p):
    """operand of a dataset-level expression inside check(): dataset, DS#comp, constant, -x, x - y"""
    def atom():
        kind, val = p.peek()
        if kind == "op" and val == "-" and p.peek(1)[0] != "num":
            p.next()
            return ("neg", atom())
        if kind == "op" and val == "(":
            p.next()
            e = expr()
            p.expect(")")
            return e
        if kind in ("num", "str") or (kind == "op" and val in "+-") or (kind == "id" and val in ("true", "false", "null")):
            return ("const", constant(p))
        name = p.ident()
        if name in KEYWORDS:
            raise Outside("operand expected, found %s" % name)
        if p.accept("#"):
            return ("dscomp", name, p.ident())
        return ("ds", name)

    def expr():
        left = atom()
        while p.peek()[0] == "op" and p.peek()[1] in ("+", "-"):
            op = p.next()[1]
            left = ("arith", op, left, atom())
        return left
    return expr()


def _call(p):
    fn = p.ident()
    p.expect("(")
    if fn == "check":
        left = _ds_operand(p)
        tok = p.next()
        if tok[0] != "op" or tok[1] not in CMP:
            raise Outside("comparison expected in check, found %r" % (tok[1],))
        right = _ds_operand(p)
        code, level, _, _ = _rule_tail(p)
        imb = _ds_operand(p) if p.accept("imbalance") else None
        out = p.accept("invalid", "all") or "all"
        p.expect(")")
        return {"fn": "check", "left": left, "op": tok[1], "right": right, "errorcode": code, "errorlevel": level, "imbalance": imb, "output": out}
    if fn == "check_datapoint":
        ds = p.ident()
        p.expect(",")
        rs = p.ident()
        comps = None
        if p.accept("components"):
            comps = [p.ident()]
            while p.accept(","):
                comps.append(p.ident())
        out = p.accept("invalid", "all", "all_measures") or "invalid"
        p.expect(")")
        return {"fn": fn, "ds": ds, "ruleset": rs, "components": comps, "output": out}
    if fn in ("check_hierarchy", "hierarchy"):
        ds = p.ident()
        p.expect(",")
        rs = p.ident()
        conds = None
        if p.accept("condition"):
            conds = [p.ident()]
            while p.accept(","):
                conds.append(p.ident())
        rule = p.ident() if p.accept("rule") else None
        mode = p.accept(*MODES) or "non_null"
        if fn == "check_hierarchy":
            inp = p.accept("dataset", "dataset_priority") or "dataset"
            out = p.accept("invalid", "all", "all_measures") or "invalid"
        else:
            inp = p.accept("dataset", "rule", "rule_priority") or "rule"
            out = p.accept("computed", "all") or "computed"
        p.expect(")")
        return {"fn": fn, "ds": ds, "ruleset": rs, "conditions": conds, "rule": rule, "mode": mode, "input": inp, "output": out}
    raise Outside("operator %s" % fn)


def parse_script(text):
    """-> (rulesets {name: definition}, statements [{target, persistent, call}])"""
    p = P(tokenize(text))
    rulesets, stmts = {}, []
    while p.peek()[0] != "eof":
        if p.accept("define"):
            what = p.expect("datapoint", "hierarchical", "operator")
            if what == "operator":
                raise Outside("user defined operator")
            p.expect("ruleset")
            d = _define_dpr(p) if what == "datapoint" else _define_hr(p)
            rulesets[d["name"]] = d
        else:
            target = p.ident()
            arrow = p.expect(":=", "<-")
            stmts.append({"target": target, "persistent": arrow == "<-", "call": _call(p)})
            if p.at("["):
                raise Outside("clause after the operator")
        if p.peek()[0] != "eof":
            p.expect(";")
    return rulesets, stmts


# ---------------------------------------------------------------------------------------------------------
# evaluation.  A dataset is (comps [(name, type, role, nullable)], rows [dict]).
# Results are lists of dict rows; `ids` names the identifying columns of the result.
# ---------------------------------------------------------------------------------------------------------

ID, ME = "Identifier", "Measure"


def _ids(comps):
    return [c[0] for c in comps if c[2] == ID]


def _measures(comps):
    return [c[0] for c in comps if c[2] == ME]


def rule_ids(rules):
    """names of the rules: either every rule is named or none is (then the ordinal position is the name)"""
    named = [r["name"] for r in rules if r["name"] is not None]
    if named and len(named) != len(rules):
        raise Outside("rulesets that name only some of their rules")
    if len(set(named)) != len(named):
        raise Outside("duplicate rule names")
    return named if named else [str(i + 1) for i in range(len(rules))]


# ---- check ----------------------------------------------------------------------------------------------

def _ds_value(node, datasets):
    """-> ('scalar', value) | ('ds', ids, {key: value})  (one measure)"""
    kind = node[0]
    if kind == "const":
        return ("scalar", node[1])
    if kind in ("ds", "dscomp"):
        if node[1] not in datasets:
            raise Outside("dataset %s" % node[1])
        comps, rows = datasets[node[1]]
        ids = _ids(comps)
        if kind == "ds":
            ms = _measures(comps)
            if len(ms) != 1:
                raise Outside("check on a dataset with %d measures" % len(ms))
            m = ms[0]
        else:
            m = node[2]
            if m not in [c[0] for c in comps] or m in ids:
                raise Outside("component %s" % m)
        return ("ds", ids, {tuple(r[i] for i in ids): r.get(m) for r in rows})
    if kind == "neg":
        v = _ds_value(node[1], datasets)
        f = lambda x: None if x is None else -x   # noqa: E731
        return ("scalar", f(v[1])) if v[0] == "scalar" else ("ds", v[1], {k: f(x) for k, x in v[2].items()})
    if kind == "arith":
        return _ds_binary(lambda a, b: None if a is None or b is None else (a + b if node[1] == "+" else a - b),
                          _ds_value(node[2], datasets), _ds_value(node[3], datasets))
    raise Outside("operand %r" % (node,))


def _ds_binary(f, a, b):
    if a[0] == "scalar" and b[0] == "scalar":
        return ("scalar", f(a[1], b[1]))
    if a[0] == "scalar":
        return ("ds", b[1], {k: f(a[1], x) for k, x in b[2].items()})
    if b[0] == "scalar":
        return ("ds", a[1], {k: f(x, b[1]) for k, x in a[2].items()})
    if list(a[1]) != list(b[1]):
        if set(a[1]) != set(b[1]):
            raise Outside("operands with different identifiers")
        order = [b[1].index(i) for i in a[1]]
        b = ("ds", a[1], {tuple(k[j] for j in order): x for k, x in b[2].items()})
    return ("ds", a[1], {k: f(x, b[2][k]) for k, x in a[2].items() if k in b[2]})


def eval_check(call, datasets):
    """-> (ids, rows) with bool_var, imbalance, errorcode, errorlevel"""
    op = call["op"]
    val = _ds_binary(lambda a, b: compare_values(op, a, b), _ds_value(call["left"], datasets), _ds_value(call["right"], datasets))
    if val[0] != "ds":
        raise Outside("check of a scalar")
    ids = val[1]
    imb = _ds_value(call["imbalance"], datasets) if call["imbalance"] is not None else None
    if imb is not None and imb[0] == "ds" and set(imb[1]) != set(ids):
        raise Outside("imbalance with different identifiers")
    if imb is not None and imb[0] == "ds" and list(imb[1]) != list(ids):
        order = [imb[1].index(i) for i in ids]
        imb = ("ds", ids, {tuple(k[j] for j in order): x for k, x in imb[2].items()})
    rows = []
    for key, b in val[2].items():
        if imb is not None and imb[0] == "ds" and key not in imb[2]:
            continue           # the imbalance operand has no datapoint with these identifiers
        if call["output"] == "invalid" and b is not False:
            continue
        r = dict(zip(ids, key))
        r["bool_var"] = b
        r["imbalance"] = None if imb is None else (imb[1] if imb[0] == "scalar" else imb[2][key])
        r["errorcode"] = call["errorcode"] if b is False else None
        r["errorlevel"] = call["errorlevel"] if b is False else None
        rows.append(r)
    return ids, rows


# ---- check_datapoint ------------------------------------------------------------------------------------

def dp_binding(rs, call, comps):
    """-> {name used in the rules: component of the operand}"""
    names = [c[0] for c in comps]
    sig = rs["sig"]
    if rs["sig_type"] == "variable":
        if call["components"] is not None and list(call["components"]) != [s[0] for s in sig]:
            raise Outside("components do not repeat the variables of the signature")
        bound = [s[0] for s in sig]
    else:
        if call["components"] is None or len(call["components"]) != len(sig):
            raise Outside("valuedomain signature without matching components")
        bound = list(call["components"])
    env = {}
    for (name, alias), comp in zip(sig, bound):
        if comp not in names:
            raise Outside("component %s not in the operand" % comp)
        env[alias or name] = comp
    return env


class DPStatement:
    """check_datapoint: the slice is one datapoint of the operand (rules are evaluated datapoint by datapoint)"""

    def __init__(self, call, rs, dataset):
        comps, rows = dataset
        self.call, self.rs = call, rs
        self.in_ids, self.ms = _ids(comps), _measures(comps)
        self.binding = dp_binding(rs, call, comps)
        self.names = rule_ids(rs["rules"])
        self.ids = self.in_ids + ["ruleid"]
        self.slice_ids = list(self.in_ids)
        self.by_key = {}
        for r in rows:
            self.by_key[tuple(r[i] for i in self.in_ids)] = r

    def keys(self):
        return list(self.by_key)

    def outcomes(self, key, pol):
        """-> [(rule index, when value, consequent value, bool_var, failed)] for the datapoint"""
        r = self.by_key[key]
        env = {a: r.get(c) for a, c in self.binding.items()}
        out = []
        for k, rule in enumerate(self.rs["rules"]):
            w = True if rule["when"] is None else _bool(ev(rule["when"], env))
            t = None
            if w is True:
                b = t = _bool(ev(rule["then"], env))
                if rule["then"][0] == "const" and b is None:
                    raise Outside("constant null consequent")
            elif w is False:
                b = True
            else:
                b = None if pol.ask("dp-when-null") == 0 else True
            out.append((k, w, t, b, w is True and b is False))
        return out

    def rows(self, key, pol):
        r = self.by_key[key]
        output = self.call["output"]
        out = []
        for k, w, t, b, failed in self.outcomes(key, pol):
            rule = self.rs["rules"][k]
            if output == "invalid" and not failed:
                continue
            o = {i: r[i] for i in self.in_ids}
            if output in ("invalid", "all_measures"):
                for m in self.ms:
                    o[m] = r.get(m)
            if output != "invalid":
                o["bool_var"] = b
            o["ruleid"] = self.names[k]
            o["errorcode"] = rule["errorcode"] if failed else None
            o["errorlevel"] = rule["errorlevel"] if failed else None
            out.append(o)
        return out


# ---- hierarchical rulesets ------------------------------------------------------------------------------

ABSENT = ("absent",)


def hr_binding(rs, call, comps):
    """-> (rule component, {condition name used in the rules: identifier of the operand})"""
    names = [c[0] for c in comps]
    if rs["sig_type"] == "variable":
        rule_comp = rs["rule_comp"]
        if call["rule"] is not None and call["rule"] != rule_comp:
            raise Outside("rule component differs from the variable of the signature")
    else:
        if call["rule"] is None:
            raise Outside("valuedomain signature without rule component")
        rule_comp = call["rule"]
    conds = {}
    given = call["conditions"] or []
    if len(given) != len(rs["conds"]):
        raise Outside("number of condition components")
    for (name, alias), comp in zip(rs["conds"], given):
        if rs["sig_type"] == "variable" and comp != name:
            raise Outside("condition component differs from the variable of the signature")
        conds[alias or name] = comp
    ids = _ids(comps)
    if rule_comp not in ids:
        raise Outside("rule component is not an identifier of the operand")
    for c in conds.values():
        if c not in ids or c == rule_comp:
            raise Outside("condition component is not another identifier of the operand")
    if len(_measures(comps)) != 1:
        raise Outside("operand with %d measures" % len(_measures(comps)))
    if [c for c in comps if c[0] == _measures(comps)[0]][0][1] not in ("Integer", "Number"):
        raise Outside("non-numeric measure")
    for n in names:
        if n in ("bool_var", "imbalance", "ruleid", "errorcode", "errorlevel"):
            raise Outside("operand already has validation components")
    return rule_comp, conds


def item_value(items, name, mode):
    """value of a code item in a group under the mode: missing -> 0 (zero modes) / null; a null measure stays null"""
    v = items.get(name, ABSENT)
    if v is ABSENT:
        return 0 if mode in ZERO_MODES else None
    return v


def right_value(right, values):
    total = 0
    for sign, name in right:
        v = values[name]
        if v is None:
            return None
        total += sign * v
    return total


def produced(mode, involved, items, values, sides, pol, hierarchy):
    """is the result datapoint of a rule produced for this group?  (the table of the manual: what missing datapoints
    count as, the condition for evaluating the rule, which datapoints are returned)
    involved: code items of the rule (both sides for check_hierarchy, right side for hierarchy); items: what exists;
    values: their values under the mode; sides: (left value, right value) for check_hierarchy, (None, computed) for hierarchy"""
    exists = [n for n in involved if items.get(n, ABSENT) is not ABSENT]
    exist_value = [n for n in exists if items[n] is not None]
    if mode == "non_null":
        return len(exist_value) == len(involved)
    if mode == "non_zero":
        vals = [values[n] for n in involved]
        nonzero = [v for v in vals if v is not None and v != 0]
        nulls = [v for v in vals if v is None]
        if hierarchy:
            computed = sides[1]
            if computed is not None:
                return computed != 0          # "only not zero datapoints are returned (nulls are returned too)"
            if nonzero:
                return True
            return pol.ask("nz-null") == 0
        if not nonzero and not nulls:
            return False
        if nonzero:
            lv, rv = sides
            if lv == 0 and rv == 0:
                return pol.ask("nz-cancel") == 0
            return True
        return pol.ask("nz-null") == 0
    if mode in ("partial_null", "partial_zero"):
        if exist_value:
            return True
        if mode == "partial_zero" and len(exists) < len(involved):
            return pol.ask("pz-missing") == 1
        return False
    if mode in ("always_null", "always_zero"):
        if exists:
            return True
        return pol.ask("always-none") == 1
    raise Outside("mode %s" % mode)


def hr_order(rules):
    """the '=' rules in dependency order (a rule after the rules computing the items of its right side); ties textual"""
    eq = [r for r in rules if r["op"] == "="]
    lefts = [r["left"] for r in eq]
    if len(set(lefts)) != len(lefts):
        raise Outside("code item computed by two rules")
    done, order = set(), []
    pending = list(eq)
    while pending:
        for r in pending:
            deps = [n for _, n in r["right"] if n in lefts and n != r["left"]]
            if all(d in done for d in deps):
                order.append(r)
                done.add(r["left"])
                pending.remove(r)
                break
        else:
            raise Outside("cyclic ruleset")
    return order


class HRStatement:
    """check_hierarchy / hierarchy: the slice is one group of the identifiers other than the rule component"""

    def __init__(self, call, rs, dataset):
        comps, rows = dataset
        self.call, self.rs = call, rs
        self.rule_comp, self.conds = hr_binding(rs, call, comps)
        self.other = [i for i in _ids(comps) if i != self.rule_comp]
        self.m = _measures(comps)[0]
        self.check = call["fn"] == "check_hierarchy"
        self.names = rule_ids(rs["rules"])
        if self.check:
            if call["input"] != "dataset":
                raise Outside("input mode %s" % call["input"])
            self.ids = self.other + [self.rule_comp, "ruleid"]
        else:
            self.order = hr_order(rs["rules"])
            if not self.order:
                raise Outside("no '=' rule")
            self.defined = set(r["left"] for r in self.order)
            self.used = set(n for r in self.order for _, n in r["right"])
            for r in self.order:
                if r["left"] in [n for _, n in r["right"]]:
                    raise Outside("rule computing an item from itself")
            self.ids = self.other + [self.rule_comp]
        self.slice_ids = list(self.other)
        self.groups = {}
        for r in rows:
            item = r[self.rule_comp]
            self.groups.setdefault(tuple(r[i] for i in self.other), {})[None if item is None else str(item)] = r.get(self.m)

    def keys(self):
        return list(self.groups)

    def _when(self, rule, base):
        if rule["when"] is None:
            return True
        w = _bool(ev(rule["when"], {a: base[c] for a, c in self.conds.items()}))
        if w is None:
            raise Outside("null when-condition in a hierarchical rule")
        return w

    def rule_outcomes(self, key, pol):
        """check_hierarchy -> [(rule index, produced, when, left value, right value, bool_var, imbalance)]"""
        items, mode = self.groups[key], self.call["mode"]
        base = dict(zip(self.other, key))
        out = []
        for k, rule in enumerate(self.rs["rules"]):
            involved = [rule["left"]] + [n for _, n in rule["right"]]
            values = {n: item_value(items, n, mode) for n in involved}
            lv, rv = values[rule["left"]], right_value(rule["right"], values)
            if not produced(mode, list(dict.fromkeys(involved)), items, values, (lv, rv), pol, False):
                out.append((k, False, None, lv, rv, None, None))
                continue
            w = self._when(rule, base)
            if w:
                b = compare_values(rule["op"], lv, rv)
                imb = None if lv is None or rv is None else lv - rv
            elif pol.ask("hr-when-false") == 0:
                b = True                   # the rule is not applicable to the group: it cannot fail
                imb = None
                if self.call["output"] != "invalid" and lv is not None and rv is not None and pol.ask("hr-when-false-imbalance") == 1:
                    imb = lv - rv
            else:
                out.append((k, False, w, lv, rv, None, None))
                continue
            out.append((k, True, w, lv, rv, b, imb))
        return out

    def computed(self, key, pol):
        """hierarchy -> ({left item: computed value} for the rules that produced a datapoint, trace [(left, inputs, value|None)])"""
        items, mode, inp = self.groups[key], self.call["mode"], self.call["input"]
        base = dict(zip(self.other, key))
        computed, chain, trace = {}, {}, []          # chain: what the dependent rules see as the computed output
        for rule in self.order:
            src, origin = {}, {}
            for _, n in rule["right"]:
                if inp == "dataset" or n not in self.defined:
                    v, origin[n] = items.get(n, ABSENT), "operand"
                elif inp == "rule":
                    v, origin[n] = chain.get(n, ABSENT), "computed"
                    if v is ABSENT and items.get(n, ABSENT) is not ABSENT and pol.ask("rule-fallback") == 1:
                        v, origin[n] = items[n], "operand-fallback"
                else:                      # rule_priority: the computed value unless missing or null, then the operand's
                    v, origin[n] = chain.get(n, ABSENT), "computed"
                    if (v is ABSENT or v is None) and items.get(n, ABSENT) is not ABSENT:
                        v, origin[n] = items[n], "operand-fallback"
                if v is not ABSENT:
                    src[n] = v
            involved = list(dict.fromkeys(n for _, n in rule["right"]))
            values = {n: item_value(src, n, mode) for n in involved}
            rv = right_value(rule["right"], values)
            if not self._when(rule, base):
                if pol.ask("hr-when-false") == 0:
                    trace.append((rule["left"], origin, "when-false"))
                    continue               # the rule does not apply to the group: nothing is computed
                rv = None                  # other reading: the item is computed as null (where the mode returns nulls)
            if not produced(mode, involved, src, values, (None, rv), pol, True) or (mode == "non_null" and rv is None):
                trace.append((rule["left"], origin, "not-produced"))
                if mode == "non_zero" and rv == 0 and inp == "rule_priority" and rule["left"] in self.used and pol.ask("nz-zero-chained") == 1:
                    chain[rule["left"]] = 0
                continue
            computed[rule["left"]] = chain[rule["left"]] = rv
            trace.append((rule["left"], origin, "produced"))
        return computed, trace

    def rows(self, key, pol):
        base = dict(zip(self.other, key))
        output = self.call["output"]
        rows = []
        if self.check:
            for k, prod, w, lv, rv, b, imb in self.rule_outcomes(key, pol):
                rule = self.rs["rules"][k]
                if not prod or (output == "invalid" and b is not False):
                    continue
                o = dict(base)
                o[self.rule_comp] = rule["left"]
                if output != "all":
                    o[self.m] = lv
                if output != "invalid":
                    o["bool_var"] = b
                o["imbalance"] = imb
                o["ruleid"] = self.names[k]
                o["errorcode"] = rule["errorcode"] if b is False else None
                o["errorlevel"] = rule["errorlevel"] if b is False else None
                rows.append(o)
            return rows
        computed, _ = self.computed(key, pol)
        if output == "all":
            for n, v in self.groups[key].items():
                if n not in computed:
                    o = dict(base)
                    o[self.rule_comp] = n
                    o[self.m] = v
                    rows.append(o)
        for rule in self.rs["rules"]:
            if rule["op"] == "=" and rule["left"] in computed:
                o = dict(base)
                o[self.rule_comp] = rule["left"]
                o[self.m] = computed[rule["left"]]
                rows.append(o)
        return rows


class CheckStatement:
    """check: the slice is one datapoint"""

    def __init__(self, call, datasets):
        self.call = call
        self.ids, rows = eval_check(call, datasets)
        self.slice_ids = list(self.ids)
        self.by_key = {}
        for r in rows:
            self.by_key.setdefault(tuple(r[i] for i in self.ids), []).append(r)
        # every datapoint of the comparison is a slice, also those the output option filters away
        full = dict(call)
        full["output"] = "all"
        self.all_rows = {tuple(r[i] for i in self.ids): r for r in eval_check(full, datasets)[1]}

    def keys(self):
        return list(self.all_rows)

    def rows(self, key, pol):
        return list(self.by_key.get(key, []))


# ---------------------------------------------------------------------------------------------------------
# one statement on named datasets
# ---------------------------------------------------------------------------------------------------------

def prepare(stmt, rulesets, datasets):
    """-> statement object with .ids (identifiers of the result), .slice_ids, .keys() (slices) and .rows(key, Policy).
    datasets: {name: (comps [(name, type, role, nullable)], rows [dict])}"""
    call = stmt["call"]
    if call["fn"] == "check":
        return CheckStatement(call, datasets)
    if call["ruleset"] not in rulesets:
        raise Outside("ruleset %s" % call["ruleset"])
    rs = rulesets[call["ruleset"]]
    if call["ds"] not in datasets:
        raise Outside("operand %s is not an input dataset" % call["ds"])
    if call["fn"] == "check_datapoint":
        if rs["kind"] != "dpr":
            raise Outside("ruleset kind")
        return DPStatement(call, rs, datasets[call["ds"]])
    if rs["kind"] != "hr":
        raise Outside("ruleset kind")
    return HRStatement(call, rs, datasets[call["ds"]])


def all_rows(obj, pol=None):
    pol = pol or Policy()
    out = []
    for key in obj.keys():
        out.extend(obj.rows(key, pol))
    return out

"""Runner: ``python -m vtlmc.check <id> [--tier quick|thorough] [--replay path]``

exit 0 = property held on everything explored (KNOWN-FINDING lines allowed),
exit 1 = VIOLATION line(s) printed, exit 2 = tooling error (never disguised as a pass).
"""
import argparse
import importlib
import json
import os
import sys
import time
import traceback

from vtlmc import harness


def main():
    ap = argparse.ArgumentParser()
    ap.add_argument("id")
    ap.add_argument("--tier", default=os.environ.get("VERIF_TIER", "quick"), choices=["quick", "thorough"])
    ap.add_argument("--replay")
    a = ap.parse_args()
    seed = int(os.environ.get("VERIF_SEED", "0") or 0)
    t0 = time.time()
    rc = 2
    try:
        harness.scratch()
        ensure_built()
        mod = importlib.import_module("vtlmc.checks." + a.id)
        check = mod.Check()
        if a.replay:
            data = json.load(open(a.replay))
            violated = check.replay(data["replay"])
            print("replay %s: %s" % (a.replay, "VIOLATION reproduced" if violated else "no violation"))
            if violated:
                print("VIOLATION property=%s replay=%s" % (a.id, a.replay))
            rc = 1 if violated else 0
        else:
            rec = harness.Recorder()
            extra = check.run(a.tier, seed, rec) or {}
            rc = harness.finish(check, rec, a.tier, seed, t0, coverage_extra=extra)
    except SystemExit:
        raise
    except Exception:
        traceback.print_exc()
        print("TOOL-ERROR %s: check crashed" % a.id)
        rc = 2
    finally:
        harness.cleanup()
    sys.exit(rc)


def ensure_built():
    """the Java host contains no repository content; (re)compile it only if missing or stale"""
    import subprocess
    src = os.path.join(harness.VERIF, "frontend", "VtlParseServer.java")
    cls = os.path.join(harness.VERIF, "build", "VtlParseServer.class")
    if not os.path.exists(cls) or os.path.getmtime(cls) < os.path.getmtime(src):
        os.makedirs(os.path.dirname(cls), exist_ok=True)
        jar = os.path.join(harness.VERIF, "third_party", "antlr4-runtime-4.11.1.jar")
        subprocess.check_call(["javac", "-nowarn", "-cp", jar, "-d", os.path.dirname(cls), src])


if __name__ == "__main__":
    main()

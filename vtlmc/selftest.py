"""setup-time self test: the stand-in boots, parses, and the engine runs one script through it."""
import sys

from vtlmc import harness


def main():
    V = harness.boot()
    import pandas as pd
    ds = harness.structures(harness.structure("DS_1", [harness.comp("Id_1", "Integer", "Identifier"),
                                                      harness.comp("Me_1", "Number", "Measure")]))
    r = V.run("DS_r <- DS_1 * 2;", ds, {"DS_1": pd.DataFrame({"Id_1": [1, 2], "Me_1": [1.5, None]})})
    rows = harness.canon_results(r)["DS_r"][1]["rows"]
    assert rows == [(("Id_1", 1), ("Me_1", 3)), (("Id_1", 2), ("Me_1", None))], rows
    out = harness.call(V.create_ast, "DS_r := ;")
    assert out[0] == "err" and out[2] == "VTLSyntaxError", out
    from vtlmc import corpus
    n = len(corpus.load())
    assert n > 2000, "corpus index missing or short: %d" % n
    print("selftest ok: engine runs behind the stand-in; corpus records usable: %d" % n)
    harness.cleanup()


if __name__ == "__main__":
    sys.exit(main())

"""C01 oracle (O4): a reference evaluator for the element-wise operators of VTL 2.1, written from the reference
manual.  Plain Python over dicts, three-valued logic with ``None``.  Nothing in this module imports, reads or
copies the engine.

An expression is a tuple ("mini-AST"):

    ("lit", type, value)                 scalar literal (value None = ``null``)
    ("col", name, type)                  component reference inside ``calc``
    ("sc",  name, type)                  scalar input
    ("ds",  name)                        dataset
    ("mem", ds_expr, component)          ds#component
    ("op",  opname, (args...), extra)    operator application; extra = the literal set of in / not_in
    ("calc", ds_expr, ((name, expr),..)) ds[calc name := expr, ...]

Evaluating an expression does not give one value but the *list of outcomes the manual allows* (almost always a
single one).  ``ERR`` = VTL defines an error; ``ANY`` = the manual is silent / the point is outside the crisp
subset (DESIGN §3 rule 2), anything is accepted.  Where two readings of the manual exist both are listed.
Values computed by an inexact function are marked ``Approx``; discontinuous operators applied to an ``Approx``
value that sits on a discontinuity accept both sides.
"""
import decimal
import itertools
import math
import re

INT, NUM, BOOL, STR = "Integer", "Number", "Boolean", "String"
NUMT = (INT, NUM)


class _Tok:
    def __init__(self, n):
        self.n = n

    def __repr__(self):
        return self.n

    def __reduce__(self):
        return (_tok, (self.n,))


def _tok(n):
    return {"ANY": ANY, "ERR": ERR}[n]


ANY = _Tok("ANY")
ERR = _Tok("ERR")


class Approx(float):
    """a Number produced by an inexact function (compared at 1e-9; discontinuities nearby accept both sides)"""
    __slots__ = ()


class NotInSubset(Exception):
    pass


NEAR = 1e-9


def near(a, b):
    return abs(a - b) <= NEAR * max(abs(a), abs(b), 1.0)


def uniq(xs):
    out = []
    for x in xs:
        for i, y in enumerate(out):
            if x is y or (not isinstance(x, _Tok) and not isinstance(y, _Tok) and type(x) is type(y) and x == y) or \
                    (_isnum(x) and _isnum(y) and x == y):
                if isinstance(x, Approx) and not isinstance(y, Approx):
                    out[i] = x
                break
        else:
            out.append(x)
    return out


def _isnum(x):
    return isinstance(x, (int, float)) and not isinstance(x, bool)


# ---------------------------------------------------------------------------------------------------------
# scalar semantics: fn(*concrete values, possibly None) -> list of allowed outcomes
# ---------------------------------------------------------------------------------------------------------

def _strict(fn):
    """null in any operand -> null (the general VTL rule)"""
    def g(*a):
        if any(x is None for x in a):
            return [None]
        return fn(*a)
    return g


def _ax(args, v):
    """mark a float result as inexact when an operand was"""
    if isinstance(v, float) and not isinstance(v, Approx) and any(isinstance(a, Approx) for a in args):
        return Approx(v)
    return v


def _arith(f):
    def g(a, b):
        if a is None or b is None:
            return [None]
        return [_ax((a, b), f(a, b))]
    return g


def f_div(a, b):
    if a is None or b is None:
        # the manual defines x / 0 as an error; whether null / 0 is null or an error is not stated
        if b is not None and b == 0:
            return [None, ERR]
        return [None]
    if b == 0:
        return [ERR]
    r = a / b
    if r == int(r) and isinstance(a, int) and isinstance(b, int) and not isinstance(a, bool):
        return [r]
    # IEEE division is correctly rounded, but a decimal implementation may differ in the last digits
    return [Approx(r)]


def _cmp(opname):
    def g(a, b):
        if a is None or b is None:
            return [None]
        if isinstance(a, str) != isinstance(b, str):
            return [ANY]
        if isinstance(a, str):
            if opname in ("=", "<>"):
                return [(a == b) == (opname == "=")]
            if a == b:
                return [opname in ("<=", ">=")]
            return [ANY]                      # collation of different strings: the manual is silent
        if isinstance(a, bool) or isinstance(b, bool):
            if opname in ("=", "<>") and isinstance(a, bool) and isinstance(b, bool):
                return [(a == b) == (opname == "=")]
            return [ANY]                      # ordering of booleans: not defined
        if (isinstance(a, Approx) or isinstance(b, Approx)) and near(a, b):
            return [True, False]
        return [{"=": a == b, "<>": a != b, "<": a < b, "<=": a <= b, ">": a > b, ">=": a >= b}[opname]]
    return g


def f_and(a, b):
    if a is False or b is False:
        return [False]
    if a is None or b is None:
        return [None]
    return [True]


def f_or(a, b):
    if a is True or b is True:
        return [True]
    if a is None or b is None:
        return [None]
    return [False]


def f_xor(a, b):
    if a is None or b is None:
        return [None]
    return [a != b]


def f_not(a):
    return [None] if a is None else [not a]


def _estr(s):
    """an empty string result: its null-ness is examined by C18 / C19, both are accepted here"""
    return ["", None] if s == "" else [s]


def f_concat(a, b):
    if a is None or b is None:
        return [None]
    return _estr(a + b)


def _str1(f):
    def g(a):
        if a is None:
            return [None]
        return _estr(f(a))
    return g


def f_length(a):
    return [None] if a is None else [len(a)]


def _param_int(p, lo):
    """a secondary integer parameter: null or out of the documented range -> not modelled"""
    return p is not None and _isnum(p) and not isinstance(p, Approx) and p == int(p) and p >= lo


def f_substr(s, *p):
    # substr(op, start, length): start >= 1, length >= 0; defaults 1 / rest of the string
    if len(p) > 0 and not _param_int(p[0], 1):
        return [ANY]
    if len(p) > 1 and not _param_int(p[1], 0):
        return [ANY]
    if s is None:
        return [None]
    start = int(p[0]) if len(p) > 0 else 1
    if len(p) > 1:
        return _estr(s[start - 1:start - 1 + int(p[1])])
    return _estr(s[start - 1:])


def f_replace(s, *p):
    if any(x is None for x in p) or p[0] == "":
        return [ANY]
    if s is None:
        return [None]
    return _estr(s.replace(p[0], p[1] if len(p) > 1 else ""))


def f_instr(s, pat, *p):
    if pat is None or pat == "":
        return [ANY]
    if len(p) > 0 and not _param_int(p[0], 1):
        return [ANY]
    if len(p) > 1 and not _param_int(p[1], 1):
        return [ANY]
    if s is None:
        return [None]
    start = int(p[0]) if len(p) > 0 else 1
    occ = int(p[1]) if len(p) > 1 else 1

    def find(overlap):
        pos, n = start - 1, 0
        while True:
            i = s.find(pat, pos)
            if i < 0:
                return 0
            n += 1
            if n == occ:
                return i + 1
            pos = i + (1 if overlap else len(pat))
    res = []
    for ov in (False, True):
        r = find(ov)
        res.append(r)
        if r and start > 1:
            res.append(r - start + 1)      # position counted from ``start``: second reading of the manual
    return uniq(res)


def f_in(x, members):
    if x is None:
        return [None]
    if isinstance(x, Approx) and any(near(x, m) for m in members):
        return [True, False]
    return [any((not isinstance(m, bool)) == (not isinstance(x, bool)) and m == x for m in members)]


def f_not_in(x, members):
    return [v if v is None else (not v) for v in f_in(x, members)]


def f_between(x, lo, hi):
    if x is None:
        return [None]
    if any(isinstance(v, str) for v in (x, lo, hi) if v is not None):
        if not all(isinstance(v, str) for v in (x, lo, hi) if v is not None):
            return [ANY]
        if lo is not None and hi is not None and (x == lo or x == hi) and lo <= hi and lo <= x <= hi and (lo == x == hi):
            return [True]
        return [ANY]
    if lo is None and hi is None:
        return [None]
    if lo is None:
        return [None, False] if x > hi else [None]     # null-propagating / Kleene reading of (x>=lo and x<=hi)
    if hi is None:
        return [None, False] if x < lo else [None]
    if any(isinstance(v, Approx) for v in (x, lo, hi)) and (near(x, lo) or near(x, hi)):
        return [True, False]
    return [lo <= x <= hi]


def f_if(c, t, e):
    # "returns thenOperand if condition evaluates to true, elseOperand otherwise"
    return [t] if c is True else [e]


def f_case(*a):
    # first condition that is true; the engine documents "last match wins": when several conditions are true both
    # are accepted (ASSUMPTIONS)
    conds, thens, els = a[0:-1:2], a[1:-1:2], a[-1]
    hit = [t for c, t in zip(conds, thens) if c is True]
    if not hit:
        return [els]
    return uniq([hit[0], hit[-1]])


def f_nvl(a, b):
    return [b] if a is None else [a]


def f_isnull(a):
    return [a is None]


def f_abs(a):
    return [None] if a is None else [_ax((a,), abs(a))]


def _edge(x, digits=0):
    """is the inexact x within tolerance of a multiple of 10**-digits (a discontinuity of ceil/floor/trunc)?"""
    if not isinstance(x, Approx):
        return False
    s = x * (10 ** digits)
    return near(s, round(s)) and abs(s) < 1e15


def f_ceil(a):
    if a is None:
        return [None]
    if _edge(a):
        return uniq([int(round(a)), int(round(a)) + 1])
    return [math.ceil(a)]


def f_floor(a):
    if a is None:
        return [None]
    if _edge(a):
        return uniq([int(round(a)), int(round(a)) - 1])
    return [math.floor(a)]


def _dec(x):
    return decimal.Decimal(repr(float(x))) if isinstance(x, float) else decimal.Decimal(int(x))


def f_round(x, *p):
    # digits: DESIGN §3 rule 2 restricts the crisp range to 0..4 ; omitted = 0
    if p and not (_param_int(p[0], 0) and p[0] <= 4):
        return [ANY]
    if x is None:
        return [None]
    d = int(p[0]) if p else 0
    if isinstance(x, int):
        return [x]
    q = decimal.Decimal(1).scaleb(-d)
    dx = _dec(x)
    down = dx.quantize(q, rounding=decimal.ROUND_FLOOR)
    up = down + q
    mid = down + q / 2
    tie = dx == mid or (isinstance(x, Approx) and near(float(dx), float(mid)))
    if tie:
        if dx > 0 and not isinstance(x, Approx):
            res = [up]                      # positive ties round up (Reference-Manual examples 7.5 -> 8, 44.5 -> 45)
        else:
            res = [up, down]                # negative ties: half-up or half-away-from-zero, the manual does not say
    else:
        res = [up if dx > mid else down]
    return uniq([_ax((x,), float(r)) for r in res])


def f_trunc(x, *p):
    if p and not (_param_int(p[0], 0) and p[0] <= 4):
        return [ANY]
    if x is None:
        return [None]
    d = int(p[0]) if p else 0
    if isinstance(x, int):
        return [x]
    q = decimal.Decimal(1).scaleb(-d)
    r = float(_dec(x).quantize(q, rounding=decimal.ROUND_DOWN))   # truncation = drop digits = towards zero
    if _edge(x, d):
        s = float(decimal.Decimal(round(x * 10 ** d)) * q)
        step = float(q)
        return uniq([_ax((x,), s), _ax((x,), s - step if x > 0 else s + step)])
    return [_ax((x,), r)]


def f_sqrt(a):
    if a is None:
        return [None]
    if isinstance(a, Approx) and near(a, 0.0):
        return [ANY]
    if a < 0:
        return [ERR]
    return [Approx(math.sqrt(a))]


def f_exp(a):
    if a is None:
        return [None]
    try:
        return [Approx(math.exp(a))]
    except OverflowError:
        return [ANY]


def f_ln(a):
    if a is None:
        return [None]
    if isinstance(a, Approx) and near(a, 0.0):
        return [ANY]
    if a <= 0:
        return [ERR]
    return [Approx(math.log(a))]


def f_log(a, b):
    # base: only integer bases >= 2 are modelled (base 1 is mathematically undefined, base <= 0 outside the domain)
    if b is None or not _isnum(b) or isinstance(b, Approx) or b != int(b) or b < 2:
        return [ANY]
    if a is None:
        return [None]
    if isinstance(a, Approx) and (near(a, 0.0) or near(a, 1.0)):
        return [ANY]
    if a <= 0:
        return [ERR]
    v = Approx(math.log(a) / math.log(b))
    if a <= 1:
        return [v, ERR]                     # the manual's operand constraint reads "value > 1" in some editions
    return [v]


def f_power(b, e):
    if b is None or e is None:
        return [None]
    if b == 0 and e <= 0:
        return [ANY]                        # 0**0, 0**negative: not defined by the manual
    if b < 0 and e != int(e):
        return [ANY]                        # complex result: not defined by the manual
    try:
        if isinstance(b, int) and isinstance(e, int) and e >= 0:
            return [b ** e]
        r = float(b) ** float(e)
    except (OverflowError, ZeroDivisionError):
        return [ANY]
    if isinstance(r, complex):
        return [ANY]
    if not isinstance(b, Approx) and not isinstance(e, Approx) and e == int(e) and 0 <= e <= 4:
        return [r]
    return [Approx(r)]


def f_mod(a, b):
    # DESIGN §3 rule 2: only a positive divisor is modelled
    if b is not None and not (b > 0):
        return [ANY]
    if a is None or b is None:
        return [None]
    if isinstance(a, Approx) or isinstance(b, Approx):
        k = a / b
        if near(k, round(k)):
            return [ANY]
    r1 = math.fmod(a, b)                    # sign of the dividend
    r2 = a % b                              # sign of the divisor
    if isinstance(a, int) and isinstance(b, int):
        r1 = int(r1)
    return uniq([_ax((a, b), r1), _ax((a, b), r2)]) if a < 0 else [_ax((a, b), r2)]


FN = {
    "+": _arith(lambda a, b: a + b), "-": _arith(lambda a, b: a - b), "*": _arith(lambda a, b: a * b), "/": f_div,
    "neg": lambda a: [None] if a is None else [_ax((a,), -a)], "pos": lambda a: [a],
    "=": _cmp("="), "<>": _cmp("<>"), "<": _cmp("<"), "<=": _cmp("<="), ">": _cmp(">"), ">=": _cmp(">="),
    "and": f_and, "or": f_or, "xor": f_xor, "not": f_not,
    "||": f_concat, "upper": _str1(lambda s: s.upper()), "lower": _str1(lambda s: s.lower()),
    "trim": _str1(lambda s: s.strip(" ")), "ltrim": _str1(lambda s: s.lstrip(" ")), "rtrim": _str1(lambda s: s.rstrip(" ")),
    "length": f_length, "substr": f_substr, "replace": f_replace, "instr": f_instr,
    "in": f_in, "not_in": f_not_in, "between": f_between,
    "if": f_if, "case": f_case, "nvl": f_nvl, "isnull": f_isnull,
    "abs": f_abs, "ceil": f_ceil, "floor": f_floor, "round": f_round, "trunc": f_trunc,
    "sqrt": f_sqrt, "exp": f_exp, "ln": f_ln, "log": f_log, "power": f_power, "mod": f_mod,
}
MODELLED = sorted(FN)
NULL_STRICT = tuple(o for o in FN if o not in ("if", "case", "nvl", "and", "or", "isnull"))
LAZY = ("if", "case", "nvl", "and", "or")     # an error in an operand that is not needed: strict or lazy, both accepted


def apply1(opname, args, extra=None):
    if opname in LAZY and ERR in args and ANY not in args:
        return _lazy(opname, args)
    if ERR in args:
        # the manual does not define an evaluation order: when another operand is null and the operator propagates null,
        # an engine may never evaluate the failing operand -> null or the error
        if opname in NULL_STRICT and any(a is None for a in args):
            return [ERR, None]
        return [ERR]
    if ANY in args:
        return [ANY]
    if opname in ("in", "not_in"):
        return FN[opname](args[0], extra)
    return FN[opname](*args)


class _Poison:
    pass


def _lazy(opname, args):
    P = _Poison()
    a = [P if x is ERR else x for x in args]
    res = [ERR]
    if opname == "if":
        if a[0] is not P:
            res.append(a[1] if a[0] is True else a[2])
    elif opname == "case":
        conds, thens = a[0:-1:2], a[1:-1:2]
        if not any(c is P for c in conds):
            res.extend(f_case(*a))
    elif opname == "nvl":
        if a[0] is not P and a[0] is not None:
            res.append(a[0])
    elif opname == "and":
        if a[0] is False or a[1] is False:
            res.append(False)
    elif opname == "or":
        if a[0] is True or a[1] is True:
            res.append(True)
    return uniq([ERR if x is P else x for x in res])


def apply(opname, argalts, extra=None):
    out = []
    for combo in itertools.product(*argalts):
        out.extend(apply1(opname, combo, extra))
    return uniq(out)


def eval_scalar(e, env):
    """env: component / scalar name -> value ; -> list of allowed outcomes"""
    k = e[0]
    if k == "lit":
        return [e[2]]
    if k in ("col", "sc"):
        return [env[e[1]]]
    if k == "op":
        return apply(e[1], [eval_scalar(a, env) for a in e[2]], e[3] if len(e) > 3 else None)
    raise NotInSubset("scalar evaluation of %r" % (k,))


# ---------------------------------------------------------------------------------------------------------
# dataset semantics
# ---------------------------------------------------------------------------------------------------------

BOOL_RESULT = ("=", "<>", "<", "<=", ">", ">=", "in", "not_in", "between", "isnull")
INT_RESULT = ("length", "instr")
MONO_ONLY = BOOL_RESULT + INT_RESULT     # the manual defines these on mono-measure datasets only


class DVal:
    """ids: [name]; meas: [name]; rows: {key tuple: {measure: [outcomes]}}; optional: keys that may be absent"""

    def __init__(self, ids, meas, rows, optional=None):
        self.ids, self.meas, self.rows = list(ids), list(meas), rows
        self.optional = set(optional or ())


def _from_ds(ds):
    ids = [c[0] for c in ds.comps if c[2] == "Identifier"]
    meas = [c[0] for c in ds.comps if c[2] == "Measure"]
    rows = {}
    for r in ds.rows:
        rows[tuple(r.get(i) for i in ids)] = {m: [r.get(m)] for m in meas}
    return DVal(ids, meas, rows)


def _is_scalar_expr(e):
    k = e[0]
    if k in ("lit", "sc", "col"):
        return True
    if k == "op":
        return all(_is_scalar_expr(a) for a in e[2])
    return False


def eval_ds(e, env):
    """env: {"datasets": {name: refbase.DS}, "scalars": {name: value}} -> DVal, or a list of outcomes for scalars"""
    k = e[0]
    if k == "ds":
        return _from_ds(env["datasets"][e[1]])
    if k in ("lit", "sc"):
        return eval_scalar(e, env.get("scalars", {}))
    if k == "mem":
        d = _from_ds(env["datasets"][e[1][1]]) if e[1][0] == "ds" else None
        if d is None:
            raise NotInSubset("membership on an expression")
        src = env["datasets"][e[1][1]]
        rows = {}
        for r in src.rows:
            rows[tuple(r.get(i) for i in d.ids)] = {e[2]: [r.get(e[2])]}
        return DVal(d.ids, [e[2]], rows)
    if k == "calc":
        return _calc(e, env)
    if k != "op":
        raise NotInSubset(k)
    opname, extra = e[1], (e[3] if len(e) > 3 else None)
    args = [eval_ds(a, env) for a in e[2]]
    if not any(isinstance(a, DVal) for a in args):
        return apply(opname, args, extra)
    if opname == "if":
        return _ds_if(args)
    if opname == "case":
        raise NotInSubset("dataset-level case")
    dsa = [a for a in args if isinstance(a, DVal)]
    if len(dsa) > 2:
        raise NotInSubset("more than two dataset operands")
    big = max(dsa, key=lambda d: len(d.ids))
    for d in dsa:
        if not set(d.ids) <= set(big.ids):
            raise NotInSubset("identifiers of one operand must contain the other's")
        if d.meas != big.meas and sorted(d.meas) != sorted(big.meas):
            raise NotInSubset("measures must have the same names")
    meas = list(dsa[0].meas)
    if opname in MONO_ONLY and len(meas) != 1:
        raise NotInSubset("%s on a multi-measure dataset" % opname)
    rows, optional = {}, set()
    for key in big.rows:
        kd = dict(zip(big.ids, key))
        parts, ok, opt = [], True, key in big.optional
        for a in args:
            if isinstance(a, DVal):
                sub = tuple(kd[i] for i in a.ids)
                if sub not in a.rows:
                    ok = False
                    break
                opt = opt or sub in a.optional
                parts.append(a.rows[sub])
            else:
                parts.append(None)
        if not ok:
            continue
        out = {}
        for m in meas:
            out[m] = apply(opname, [(p[m] if p is not None else a) for p, a in zip(parts, args)], extra)
        rows[key] = out
        if opt:
            optional.add(key)
    if len(meas) == 1 and opname in BOOL_RESULT:
        new = "bool_var"
    elif len(meas) == 1 and opname in INT_RESULT:
        new = "int_var"
    else:
        new = None
    if new is not None:
        rows = {k2: {new: v[meas[0]]} for k2, v in rows.items()}
        meas = [new]
    return DVal(big.ids, meas, rows, optional)


def _ds_if(args):
    """the true datapoints of the condition are inner-joined with thenOperand, the false ones with elseOperand and the
    union is returned.  A datapoint whose condition is null is 'otherwise' (else) in the scalar wording and neither
    true nor false in the dataset wording: both are accepted (optional datapoint)."""
    cond, then, els = args
    if not isinstance(cond, DVal) or len(cond.meas) != 1:
        raise NotInSubset("if: condition must be a mono-measure dataset")
    branches = [b for b in (then, els) if isinstance(b, DVal)]
    if not branches:
        raise NotInSubset("if: dataset condition with two scalar operands")
    for b in branches:
        if sorted(b.ids) != sorted(cond.ids):
            raise NotInSubset("if: operands must have the identifiers of the condition")
    meas = list(branches[0].meas)
    if any(sorted(b.meas) != sorted(meas) for b in branches):
        raise NotInSubset("if: measures must have the same names")
    rows, optional = {}, set()
    cm = cond.meas[0]
    for key, cv in cond.rows.items():
        kd = dict(zip(cond.ids, key))
        res_alts = []   # list of (present?, {measure: outcomes})

        def pick(branch):
            if isinstance(branch, DVal):
                sub = tuple(kd[i] for i in branch.ids)
                if sub not in branch.rows:
                    return None
                return (branch.rows[sub], sub in branch.optional)
            return ({m: list(branch) for m in meas}, False)
        for c in cv[cm]:
            if c is ERR or c is ANY:
                res_alts.append(("any", None))
            elif c is True:
                res_alts.append(("row", pick(then)))
            elif c is False:
                res_alts.append(("row", pick(els)))
            else:
                res_alts.append(("row", pick(els)))
                res_alts.append(("row", None))
        present = [r for kind, r in res_alts if kind == "row" and r is not None]
        absent = [1 for kind, r in res_alts if kind == "row" and r is None]
        anyk = [1 for kind, r in res_alts if kind == "any"]
        if anyk:
            rows[key] = {m: [ANY] for m in meas}
            optional.add(key)
            continue
        if not present:
            continue
        out = {m: uniq([v for r, _ in present for v in r[m]]) for m in meas}
        rows[key] = out
        if absent or key in cond.optional or any(o for _, o in present):
            optional.add(key)
    return DVal(cond.ids, meas, rows, optional)


def _calc(e, env):
    src = e[1]
    if src[0] != "ds":
        raise NotInSubset("calc on an expression")
    ds = env["datasets"][src[1]]
    d = _from_ds(ds)
    meas = list(d.meas)
    rows = {}
    for r in ds.rows:
        key = tuple(r.get(i) for i in d.ids)
        out = {m: [r.get(m)] for m in d.meas}
        rowenv = dict(r)
        rowenv.update(env.get("scalars", {}))
        for name, ex in e[2]:
            out[name] = eval_scalar(ex, rowenv)
        rows[key] = out
    for name, _ in e[2]:
        if name not in meas:
            meas.append(name)
    return DVal(d.ids, meas, rows)


# ---------------------------------------------------------------------------------------------------------
# rendering to VTL text
# ---------------------------------------------------------------------------------------------------------

INFIX = ("+", "-", "*", "/", "=", "<>", "<", "<=", ">", ">=", "and", "or", "xor", "||")


def render_lit(t, v):
    if v is None:
        return "null"
    if t == BOOL:
        return "true" if v else "false"
    if t == STR:
        return '"%s"' % v
    if t == INT:
        return str(int(v))
    return repr(float(v))


def render(e, top=True):
    k = e[0]
    if k == "lit":
        return render_lit(e[1], e[2])
    if k in ("col", "sc"):
        return e[1]
    if k == "ds":
        return e[1]
    if k == "mem":
        return "%s#%s" % (render(e[1], False), e[2])
    if k == "calc":
        return "%s[calc %s]" % (render(e[1], False), ", ".join("%s := %s" % (n, render(x)) for n, x in e[2]))
    name, args = e[1], e[2]
    a = [render(x, False) for x in args]
    if name in INFIX:
        s = "%s %s %s" % (a[0], name, a[1])
    elif name == "neg":
        s = "- %s" % a[0]
    elif name == "pos":
        s = "+ %s" % a[0]
    elif name == "not":
        s = "not %s" % a[0]
    elif name in ("in", "not_in"):
        t = e[4] if len(e) > 4 else None
        s = "%s %s {%s}" % (a[0], name, ", ".join(render_lit(t or _guess(m), m) for m in e[3]))
    elif name == "if":
        s = "if %s then %s else %s" % (a[0], a[1], a[2])
    elif name == "case":
        s = "case " + " ".join("when %s then %s" % (a[i], a[i + 1]) for i in range(0, len(a) - 1, 2)) + " else " + a[-1]
    else:
        return "%s(%s)" % (name, ", ".join(a))
    return s if top else "(" + s + ")"


def _guess(v):
    if isinstance(v, bool):
        return BOOL
    if isinstance(v, int):
        return INT
    if isinstance(v, float):
        return NUM
    return STR


# ---------------------------------------------------------------------------------------------------------
# typing: the well-typed instantiations of every operator (used by the type-directed generator)
# ---------------------------------------------------------------------------------------------------------

def _nn(f):
    return [((a, b), f(a, b)) for a in NUMT for b in NUMT]


def sigs(opname):
    """-> list of (operand types, result type)"""
    both_int = lambda a, b: INT if (a, b) == (INT, INT) else NUM          # noqa: E731
    if opname in ("+", "-", "*"):
        return _nn(both_int)
    if opname == "/":
        return _nn(lambda a, b: NUM)
    if opname in ("neg", "pos", "abs"):
        return [((t,), t) for t in NUMT]
    if opname in ("=", "<>"):
        return _nn(lambda a, b: BOOL) + [((STR, STR), BOOL), ((BOOL, BOOL), BOOL)]
    if opname in ("<", "<=", ">", ">="):
        return _nn(lambda a, b: BOOL) + [((STR, STR), BOOL)]
    if opname in ("and", "or", "xor"):
        return [((BOOL, BOOL), BOOL)]
    if opname == "not":
        return [((BOOL,), BOOL)]
    if opname == "||":
        return [((STR, STR), STR)]
    if opname in ("upper", "lower", "trim", "ltrim", "rtrim"):
        return [((STR,), STR)]
    if opname == "length":
        return [((STR,), INT)]
    if opname == "substr":
        return [((STR, INT), STR), ((STR, INT, INT), STR)]
    if opname == "replace":
        return [((STR, STR), STR), ((STR, STR, STR), STR)]
    if opname == "instr":
        return [((STR, STR), INT), ((STR, STR, INT), INT), ((STR, STR, INT, INT), INT)]
    if opname in ("in", "not_in"):
        return [((t,), BOOL) for t in (INT, NUM, STR)]
    if opname == "between":
        return [((INT, INT, INT), BOOL), ((NUM, NUM, NUM), BOOL), ((INT, NUM, NUM), BOOL)]
    if opname == "if":
        return [((BOOL, t, t), t) for t in (INT, NUM, STR, BOOL)] + [((BOOL, INT, NUM), NUM)]
    if opname == "case":
        return [((BOOL, t, t), t) for t in (INT, NUM, STR, BOOL)] + [((BOOL, t, BOOL, t, t), t) for t in (INT, STR)]
    if opname == "nvl":
        return [((t, t), t) for t in (INT, NUM, STR, BOOL)]
    if opname == "isnull":
        return [((t,), BOOL) for t in (INT, NUM, STR, BOOL)]
    if opname in ("ceil", "floor"):
        return [((t,), INT) for t in NUMT]
    if opname in ("round", "trunc"):
        return [((t,), INT) for t in NUMT] + [((t, INT), NUM) for t in NUMT]
    if opname in ("sqrt", "exp", "ln"):
        return [((t,), NUM) for t in NUMT]
    if opname == "log":
        return [((t, INT), NUM) for t in NUMT]
    if opname == "power":
        return _nn(lambda a, b: NUM)
    if opname == "mod":
        return _nn(both_int)
    raise KeyError(opname)


CLASSES = {
    "arithmetic": ["+", "-", "*", "/", "neg", "pos"],
    "comparison": ["=", "<>", "<", "<=", ">", ">="],
    "boolean": ["and", "or", "xor", "not"],
    "string": ["||", "upper", "lower", "trim", "ltrim", "rtrim", "length", "substr", "replace", "instr"],
    "membership": ["in", "not_in", "between"],
    "conditional": ["if", "case", "nvl", "isnull"],
    "numeric": ["abs", "ceil", "floor", "round", "trunc", "sqrt", "exp", "ln", "log", "power", "mod"],
}
ALL_OPS = [o for c in CLASSES.values() for o in c]
CLASS_OF = {o: c for c, os_ in CLASSES.items() for o in os_}

# literal sets for in / not_in: size 1 and 2, containing / not containing values of the domain
SETS = {
    INT: [(2,), (-1, 0), (0, 5)],
    NUM: [(2.5,), (-1.5, 0.0), (0.0, 7.5)],
    STR: [("a",), ("Ab ", "ñ€"), ("a", "zz")],
}
DOMAIN = {
    INT: [None, -1, 0, 2],
    NUM: [None, -1.5, 0.0, 2.5],
    BOOL: [None, True, False],
    STR: [None, "a", "Ab ", "ñ€"],
}


# ---------------------------------------------------------------------------------------------------------
# a small parser for the scripts of the calibration corpus (Reference-Manual examples)
# ---------------------------------------------------------------------------------------------------------

_TOKEN = re.compile(r'\s*(?:(?P<str>"[^"]*")|(?P<num>\d+\.\d+|\d+)|(?P<id>[A-Za-z_][A-Za-z0-9_]*)|(?P<sym>:=|<-|<>|<=|>=|\|\||[-+*/=<>()\[\]{},;#]))')
_FUNCS = ("upper", "lower", "trim", "ltrim", "rtrim", "length", "substr", "replace", "instr", "between", "nvl", "isnull",
          "abs", "ceil", "floor", "round", "trunc", "sqrt", "exp", "ln", "log", "power", "mod")
_KEYWORDS = ("if", "then", "else", "case", "when", "and", "or", "xor", "not", "in", "not_in", "null", "true", "false", "calc")
_BP = {"or": 30, "xor": 30, "and": 40, "in": 50, "not_in": 50, "=": 60, "<>": 60, "<": 60, "<=": 60, ">": 60, ">=": 60,
       "+": 70, "-": 70, "||": 70, "*": 80, "/": 80}


class _Parser:
    def __init__(self, text):
        self.toks, pos = [], 0
        text = text.strip()
        while pos < len(text):
            m = _TOKEN.match(text, pos)
            if not m:
                raise NotInSubset("cannot tokenise %r" % text[pos:pos + 20])
            pos = m.end()
            self.toks.append((m.lastgroup, m.group(m.lastgroup)))
        self.i = 0
        self.in_calc = False

    def peek(self):
        return self.toks[self.i] if self.i < len(self.toks) else (None, None)

    def next(self):
        t = self.peek()
        self.i += 1
        return t

    def expect(self, v):
        t = self.next()
        if t[1] != v:
            raise NotInSubset("expected %r, found %r" % (v, t[1]))

    def statement(self):
        k, name = self.next()
        if k != "id":
            raise NotInSubset("statement must start with a name")
        if self.next()[1] not in (":=", "<-"):
            raise NotInSubset("assignment expected")
        e = self.expr(0)
        if self.peek()[1] == ";":
            self.next()
        if self.peek()[0] is not None:
            raise NotInSubset("trailing input %r" % (self.peek(),))
        return name, e

    def expr(self, rbp):
        left = self.prefix()
        while True:
            k, v = self.peek()
            if v == "[":
                left = self.clause(left)
                continue
            if v == "#":
                self.next()
                left = ("mem", left, self.next()[1])
                continue
            if v in _BP and (k == "sym" or v in ("and", "or", "xor", "in", "not_in")) and _BP[v] > rbp:
                self.next()
                if v in ("in", "not_in"):
                    left = ("op", v, (left,), self.set_literal())
                else:
                    left = ("op", v, (left, self.expr(_BP[v])), None)
                continue
            return left

    def set_literal(self):
        if self.peek()[1] != "{":
            raise NotInSubset("value domain in membership")
        self.next()
        vals = []
        while True:
            e = self.expr(0)
            vals.append(_const(e))
            if self.next()[1] == "}":
                return tuple(vals)

    def clause(self, left):
        self.expect("[")
        if self.peek()[1] != "calc":
            raise NotInSubset("clause %r" % (self.peek()[1],))
        self.next()
        items = []
        self.in_calc = True
        while True:
            k, name = self.next()
            if k != "id" or name in ("identifier", "measure", "attribute", "viral"):
                raise NotInSubset("calc with role")
            self.expect(":=")
            items.append((name, self.expr(0)))
            if self.peek()[1] == ",":
                self.next()
                continue
            break
        self.in_calc = False
        self.expect("]")
        return ("calc", left, tuple(items))

    def prefix(self):
        k, v = self.next()
        if k == "num":
            return ("lit", NUM if "." in v else INT, float(v) if "." in v else int(v))
        if k == "str":
            return ("lit", STR, v[1:-1])
        if v == "(":
            e = self.expr(0)
            self.expect(")")
            return e
        if v in ("-", "+"):
            return ("op", "neg" if v == "-" else "pos", (self.expr(90),), None)
        if k == "id":
            if v == "not":
                return ("op", "not", (self.expr(90),), None)
            if v == "null":
                return ("lit", None, None)
            if v in ("true", "false"):
                return ("lit", BOOL, v == "true")
            if v == "if":
                c = self.expr(0)
                self.expect("then")
                t = self.expr(0)
                self.expect("else")
                return ("op", "if", (c, t, self.expr(0)), None)
            if v == "case":
                args = []
                while self.peek()[1] == "when":
                    self.next()
                    args.append(self.expr(0))
                    self.expect("then")
                    args.append(self.expr(0))
                self.expect("else")
                args.append(self.expr(0))
                return ("op", "case", tuple(args), None)
            if self.peek()[1] == "(":
                if v not in _FUNCS:
                    raise NotInSubset("operator %s" % v)
                self.next()
                args = []
                if self.peek()[1] != ")":
                    while True:
                        args.append(self.expr(0))
                        if self.peek()[1] == ",":
                            self.next()
                            continue
                        break
                self.expect(")")
                return ("op", v, tuple(args), None)
            if v in _KEYWORDS:
                raise NotInSubset("keyword %s" % v)
            return ("col", v, None) if self.in_calc else ("ds", v)
        raise NotInSubset("unexpected token %r" % (v,))


def _const(e):
    if e[0] == "lit":
        return e[2]
    if e[0] == "op" and e[1] == "neg" and e[2][0][0] == "lit":
        return -e[2][0][2]
    raise NotInSubset("non-constant set member")


def parse_statement(text):
    """'DS_r := <expression>;' -> (result name, mini-AST); NotInSubset for anything outside the C01 operator subset"""
    return _Parser(text).statement()


def operators_of(e):
    out = set()
    if e[0] == "op":
        out.add(e[1])
        for a in e[2]:
            out |= operators_of(a)
    elif e[0] == "calc":
        out |= operators_of(e[1])
        for _, x in e[2]:
            out |= operators_of(x)
    elif e[0] == "mem":
        out |= operators_of(e[1])
    return out

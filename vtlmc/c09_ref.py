"""C09 oracle: the documentation of ``cast`` (docs/data_types.rst) parsed at run time (O2) and a small reference
re-implementation of the documented conversion rules (O4).

Nothing in this module imports or reads the engine.  Everything that is expected of a conversion comes from
the rst: the explicit / implicit / with-mask tables, the dataset-cast renaming table, the "Conversion details"
and "Key rules" bullets (whose worked examples are extracted and used to calibrate the reference rules) and the
type reference sections (value domain of each type, Time_Period output-format table).  Where the document is
silent the expectation is ``any``: a VTL error or a value inside the documented domain of the target type.
"""
import datetime
import os
import re

TYPES = ["Integer", "Number", "Boolean", "String", "Date", "Time_Period", "Time", "Duration"]
KEYWORD = {"Integer": "integer", "Number": "number", "Boolean": "boolean", "String": "string", "Date": "date",
           "Time_Period": "time_period", "Time": "time", "Duration": "duration"}
# docs note: "the VTL Time type is implemented as TimeInterval, and Time_Period as TimePeriod"
ENGINE_NAME = {"Time": "TimeInterval", "Time_Period": "TimePeriod"}
FORMATS = ["vtl", "sdmx_reporting", "sdmx_gregorian", "natural"]
YES, NO, PENDING = "y", "-", "p"


class DocsError(Exception):
    pass


# ---------------------------------------------------------------------------------------------------------
# rst parsing
# ---------------------------------------------------------------------------------------------------------

def _list_table_after(lines, start):
    """rows (lists of cell strings) of the first ``.. list-table::`` at or after line index ``start``"""
    i = start
    while i < len(lines) and not lines[i].lstrip().startswith(".. list-table::"):
        i += 1
    if i >= len(lines):
        raise DocsError("no list-table after line %d" % start)
    i += 1
    rows, cur = [], None
    while i < len(lines):
        ln = lines[i]
        if ln.strip() and not ln.startswith(" "):
            break
        s = ln.strip()
        if s.startswith("* - "):
            cur = [s[4:].strip()]
            rows.append(cur)
        elif s.startswith("- ") and cur is not None:
            cur.append(s[2:].strip())
        elif s and cur is not None and not s.startswith(":"):
            cur[-1] = (cur[-1] + " " + s).strip()
        i += 1
    return rows


def _find(lines, pred, what, start=0):
    for i in range(start, len(lines)):
        if pred(lines[i]):
            return i
    raise DocsError("docs: %s not found" % what)


def _cell(c):
    c = c.strip()
    if c == "|y|":
        return YES
    if c == "|p|":
        return PENDING
    if c in ("—", "-", "–"):
        return NO
    raise DocsError("docs: unexpected table cell %r" % c)


def _matrix(rows, what):
    head = [h.strip("* ") for h in rows[0][1:]]
    m = {}
    for r in rows[1:]:
        src = r[0].strip("* ")
        if len(r) != len(rows[0]):
            raise DocsError("docs: ragged row %r in %s" % (r, what))
        for tgt, c in zip(head, r[1:]):
            m[(src, tgt)] = _cell(c)
    return m, head


def _bullets(lines, start):
    """'- **Title**: text' bullets following line ``start`` up to the next blank-line-separated non-bullet"""
    out, cur, i = {}, None, start + 1
    while i < len(lines):
        ln = lines[i]
        s = ln.strip()
        if s.startswith("- **"):
            m = re.match(r"- \*\*(.+?)\*\*:?\s*(.*)$", s)
            cur = m.group(1)
            out[cur] = m.group(2)
        elif s and ln.startswith("  ") and cur is not None:
            out[cur] += " " + s
        elif s:
            break
        i += 1
    return out


def parse_docs(repo):
    path = os.path.join(repo, "docs", "data_types.rst")
    lines = open(path, encoding="utf-8").read().split("\n")
    d = {"path": path}
    i_impl = _find(lines, lambda s: s.startswith("Implicit Casting"), "section 'Implicit Casting'")
    d["implicit"], h1 = _matrix(_list_table_after(lines, i_impl), "implicit table")
    i_expl = _find(lines, lambda s: s.startswith("Supported conversions without mask"), "section 'without mask'")
    d["explicit"], h2 = _matrix(_list_table_after(lines, i_expl), "explicit table")
    i_mask = _find(lines, lambda s: s.startswith("Supported conversions with mask"), "section 'with mask'")
    d["mask"], _ = _matrix(_list_table_after(lines, i_mask), "mask table")
    for name, m, h in (("implicit", d["implicit"], h1), ("explicit", d["explicit"], h2)):
        if sorted(h) != sorted(TYPES) or len(m) != 64 or any((s, t) not in m for s in TYPES for t in TYPES):
            raise DocsError("docs: the %s cast table is not the 8x8 table over %s" % (name, TYPES))
    i_ren = _find(lines, lambda s: s.startswith("Cast on datasets"), "section 'Cast on datasets'")
    ren = {}
    for r in _list_table_after(lines, i_ren)[1:]:
        ren[r[0].strip()] = r[1].strip("` ")
    if sorted(ren) != sorted(TYPES):
        raise DocsError("docs: dataset-cast renaming table does not list the 8 types: %s" % sorted(ren))
    d["rename"] = ren
    # legend of the mask table: which exception a pending conversion raises
    legend = " ".join(lines[i_mask:i_ren])
    m = re.search(r"\|p\|\s*=.*?\(raises\s+``(\w+)``\)", legend)
    if not m:
        raise DocsError("docs: legend of the with-mask table (raises ``...``) not found")
    d["mask_exception"] = m.group(1)
    # worked rules
    i_det = _find(lines, lambda s: s.startswith("Conversion details:"), "'Conversion details:'", i_expl)
    det = _bullets(lines, i_det + 1)
    i_key = _find(lines, lambda s: s.startswith("Key rules:"), "'Key rules:'", i_impl)
    key = _bullets(lines, i_key + 1)
    rules = {}

    def need(bul, title, rx, name):
        if title not in bul:
            raise DocsError("docs: documented rule '%s' not found" % title)
        mm = re.search(rx, bul[title])
        if not mm:
            raise DocsError("docs: documented rule '%s' no longer reads as expected: %r" % (title, bul[title]))
        rules[name] = mm.groups()
        rules[name + "_text"] = bul[title]

    need(det, "Number/Integer to Boolean", r"``0`` becomes ``false``,\s*any other value becomes ``true``", "num2bool")
    need(det, "Boolean to Number/Integer", r"``true`` becomes ``1``.*``false`` becomes ``0``", "bool2num")
    need(det, "String to Integer", r"Must be a valid integer string\s*\(rejects ``\"([^\"]+)\"``\)", "str2int")
    need(det, "Date to Time_Period", r"daily period\s*\(e\.g\. ``\"([^\"]+)\"`` becomes ``\"([^\"]+)\"``\s*with the default ``(\w+)``", "date2tp")
    need(key, "Date to Time", r"``\"([^\"]+)\"`` becomes ``\"([^\"]+)\"``", "date2time")
    need(key, "Time_Period to Time", r"``\"([^\"]+)\"`` becomes ``\"([^\"]+)\"``", "tp2time")
    need(key, "Boolean to String", r"``true`` becomes ``\"([^\"]+)\"``,\s*``false`` becomes ``\"([^\"]+)\"``", "bool2str")
    d["rules"] = rules
    # Time_Period output-format table
    i_fmt = _find(lines, lambda s: s.startswith("**Output formats**"), "'Output formats' table")
    rows = _list_table_after(lines, i_fmt)
    cols = [c.strip() for c in rows[0][1:]]
    fm = {}
    for r in rows[1:]:
        name = re.match(r"``\"(\w+)\"``", r[0]).group(1)
        fm[name] = {c: v.strip("` ") for c, v in zip(cols, r[1:])}
    if sorted(fm) != sorted(FORMATS) or cols != ["Annual", "Semester", "Quarter", "Month", "Week", "Day"]:
        raise DocsError("docs: Time_Period output-format table changed: %s %s" % (sorted(fm), cols))
    d["formats"] = fm
    # accepted Time_Period input spellings
    i_in = _find(lines, lambda s: s.startswith("**Accepted input formats:**"), "'Accepted input formats' table")
    sp = {}
    for r in _list_table_after(lines, i_in)[1:]:
        sp[r[0].strip()] = [x.strip("` ") for x in r[2].split(",")]
    d["tp_examples"] = sp
    # Duration domain
    i_dur = _find(lines, lambda s: s.strip() == "Duration" and True, "section 'Duration'", i_in)
    txt = " ".join(lines[i_dur:i_dur + 16])
    d["durations"] = re.findall(r"``\"([A-Z])\"``\s*\(", txt)
    if sorted(d["durations"]) != sorted("ASQMWD"):
        raise DocsError("docs: Duration indicators changed: %s" % d["durations"])
    return d


def pair_status(docs, src, tgt):
    """'allowed' | 'forbidden' | 'ambiguous' (explicit table says no, implicit table says yes)"""
    if docs["explicit"][(src, tgt)] == YES:
        return "allowed"
    if docs["implicit"][(src, tgt)] == YES:
        return "ambiguous"
    return "forbidden"


def implicit(docs, src, tgt):
    return docs["implicit"][(src, tgt)] == YES


def mask_status(docs, src, tgt):
    return docs["mask"].get((src, tgt), NO)


def renamed_measure(docs, src, tgt, original):
    return original if implicit(docs, src, tgt) else docs["rename"][tgt]


# ---------------------------------------------------------------------------------------------------------
# reference calendar (O3) and period model
# ---------------------------------------------------------------------------------------------------------

def _is_leap(y):
    return y % 4 == 0 and (y % 100 != 0 or y % 400 == 0)


def _weeks_in_year(y):
    return datetime.date(y, 12, 28).isocalendar()[1]


def _date(s):
    try:
        return datetime.date(int(s[0:4]), int(s[5:7]), int(s[8:10])) if re.fullmatch(r"\d{4}-\d{2}-\d{2}", s) else None
    except ValueError:
        return None


MAXN = {"A": lambda y: 1, "S": lambda y: 2, "Q": lambda y: 4, "M": lambda y: 12, "W": _weeks_in_year,
        "D": lambda y: 366 if _is_leap(y) else 365}


def period_valid(p):
    ind, y, n = p
    return 1 <= n <= MAXN[ind](y)


def parse_period(s):
    """(indicator, year, number) for a spelling of the documented 'Accepted input formats' table, else None"""
    for rx, ind in ((r"(\d{4})()", "A"), (r"(\d{4})A()", "A"), (r"(\d{4})-A(1)", "A"),
                    (r"(\d{4})-?S(\d)", "S"), (r"(\d{4})-?Q(\d)", "Q"),
                    (r"(\d{4})M(\d{1,2})", "M"), (r"(\d{4})-M?(\d{1,2})", "M"),
                    (r"(\d{4})W(\d{1,2})", "W"), (r"(\d{4})-W(\d{2})", "W"),
                    (r"(\d{4})D-?(\d{1,3})", "D"), (r"(\d{4})-D(\d{1,3})", "D")):
        m = re.fullmatch(rx, s)
        if m:
            return (ind, int(m.group(1)), int(m.group(2)) if m.group(2) else 1)
    dt = _date(s)
    if dt is not None:
        return ("D", dt.year, dt.timetuple().tm_yday)
    return None


def period_bounds(p):
    """(first day, last day) of a period; None for weeks (the document does not define the week calendar)"""
    ind, y, n = p
    D = datetime.date
    if ind == "A":
        return D(y, 1, 1), D(y, 12, 31)
    if ind in ("S", "Q", "M"):
        k = {"S": 6, "Q": 3, "M": 1}[ind]
        m0 = (n - 1) * k + 1
        m1 = m0 + k - 1
        last = (D(y + (m1 // 12), m1 % 12 + 1, 1) - datetime.timedelta(days=1))
        return D(y, m0, 1), last
    if ind == "D":
        d = D(y, 1, 1) + datetime.timedelta(days=n - 1)
        return d, d
    return None


def render_period(p, fmt):
    """set of acceptable renderings of a period under an output format; None = 'Not supported' in the docs.
    Zero-padding the document does not pin down (it only shows 2020-M01 / 2020-W15 / 2020-D100 / 2020D15)
    is accepted both ways."""
    ind, y, n = p
    if fmt == "vtl":
        if ind == "A":
            return {"%d" % y}
        out = {"%d%s%d" % (y, ind, n)}
        if ind == "W" and n < 10:
            out.add("%dW%02d" % (y, n))
        return out
    if fmt == "sdmx_reporting":
        if ind in ("A", "S", "Q"):
            return {"%d-%s%d" % (y, ind, n)}
        if ind == "M":
            return {"%d-M%02d" % (y, n)}
        if ind == "W":
            return {"%d-W%02d" % (y, n)} | ({"%d-W%d" % (y, n)} if n < 10 else set())
        return {"%d-D%03d" % (y, n)} | ({"%d-D%d" % (y, n), "%d-D%02d" % (y, n)} if n < 100 else set())
    if fmt in ("sdmx_gregorian", "natural"):
        if ind == "A":
            return {"%d" % y}
        if ind == "M":
            return {"%d-%02d" % (y, n)}
        if ind == "D":
            return {period_bounds(p)[0].isoformat()}
        if fmt == "sdmx_gregorian":
            return None
        if ind in ("S", "Q"):
            return {"%d-%s%d" % (y, ind, n)}
        return {"%d-W%02d" % (y, n)} | ({"%d-W%d" % (y, n)} if n < 10 else set())
    raise ValueError(fmt)


def calibrate(docs):
    """the reference rules must reproduce every worked example of the document -> list of problems"""
    bad, n = [], 0
    col = {"Annual": "A", "Semester": "S", "Quarter": "Q", "Month": "M", "Week": "W", "Day": "D"}
    for fmt, row in docs["formats"].items():
        for c, cell in row.items():
            ind = col[c]
            n += 1
            cands = [render_period((ind, 2020, k), fmt) for k in (1, 15, 100)]
            if cell == "Not supported":
                if cands[0] is not None:
                    bad.append("format table %s/%s says Not supported, reference renders %s" % (fmt, c, cands[0]))
            elif not any(cs is not None and cell in cs for cs in cands):
                bad.append("format table %s/%s shows %r which the reference renderer never produces" % (fmt, c, cell))
    r = docs["rules"]
    src, out, fmt = r["date2tp"]
    e = expect(docs, "Date", "Time_Period", src, fmt)
    if not (e.kind == "value" and e.check(out)):
        bad.append("Date to Time_Period example %s -> %s not reproduced" % (src, out))
    src, out = r["date2time"]
    e = expect(docs, "Date", "Time", src, "vtl")
    if not (e.kind == "value" and e.check(out)):
        bad.append("Date to Time example %s -> %s not reproduced" % (src, out))
    src, out = r["tp2time"]
    p = parse_period(src)
    if p is None or "%s/%s" % tuple(x.isoformat() for x in period_bounds(p)) != out:
        bad.append("Time_Period to Time example %s -> %s not reproduced" % (src, out))
    e = expect(docs, "String", "Integer", r["str2int"][0], "vtl")
    if e.kind != "error":
        bad.append("String to Integer: the documented rejected example %r is not rejected by the reference" % r["str2int"][0])
    for kind, exs in docs["tp_examples"].items():
        for ex in exs:
            n += 1
            p = parse_period(ex)
            if p is None or p[0] != kind[0].upper():
                bad.append("accepted Time_Period spelling %r (%s) not parsed by the reference" % (ex, kind))
    return bad, n + 4


# ---------------------------------------------------------------------------------------------------------
# value domains of the types (type reference sections of the document)
# ---------------------------------------------------------------------------------------------------------

def _isnum(v):
    return isinstance(v, (int, float)) and not isinstance(v, bool)


def in_domain(docs, typ, v, fmt):
    if typ == "Integer":
        return _isnum(v) and float(v) == int(v)
    if typ == "Number":
        return _isnum(v)
    if typ == "Boolean":
        return isinstance(v, bool)
    if not isinstance(v, str):
        return False
    if typ == "String":
        return True
    if typ == "Date":
        return _date(v[:10]) is not None and (len(v) == 10 or re.fullmatch(r"[T ]\d{2}:\d{2}:\d{2}(\.\d+)?", v[10:]) is not None)
    if typ == "Time":
        m = re.fullmatch(r"(\d{4}-\d{2}-\d{2})/(\d{4}-\d{2}-\d{2})", v)
        return bool(m) and _date(m.group(1)) is not None and _date(m.group(2)) is not None
    if typ == "Duration":
        return v in docs["durations"]
    if typ == "Time_Period":
        p = parse_period(v)
        return p is not None and period_valid(p)
    raise ValueError(typ)


def norm_date(v):
    """a Date without time of day and the same Date at midnight are the same value (both renderings are documented)"""
    if isinstance(v, str) and re.fullmatch(r"\d{4}-\d{2}-\d{2}[T ]\d{2}:\d{2}:\d{2}(\.\d+)?", v):
        v = v[:10] + "T" + v[11:]
        if re.fullmatch(r"00:00:00(\.0+)?", v[11:]):
            v = v[:10]
    return v


def same_value(a, b, typ=None):
    """equality of two results of the same cast (at two levels, or observed vs documented)"""
    if a is None or b is None:
        return a is None and b is None
    if typ == "Date":
        a, b = norm_date(a), norm_date(b)
    if isinstance(a, bool) or isinstance(b, bool):
        return isinstance(a, bool) and isinstance(b, bool) and a == b
    if _isnum(a) and _isnum(b):
        return a == b or abs(a - b) <= 1e-9 * max(abs(a), abs(b))
    return type(a) is type(b) and a == b


# ---------------------------------------------------------------------------------------------------------
# expectations
# ---------------------------------------------------------------------------------------------------------

class Expect:
    """kind: 'value' (must convert and satisfy check) | 'error' (must raise a VTL error) |
    'any' (document silent: VTL error, or a value inside the domain of the target type)"""

    def __init__(self, kind, vclass, doc, check=None, shown=None):
        self.kind, self.vclass, self.doc, self.check, self.shown = kind, vclass, doc, check, shown


def _num_check(x, exact=False):
    """numeric equality; exact for Integer results (an Integer has no rounding), 1e-9 relative for Number"""
    if exact:
        return lambda v: _isnum(v) and v == x and float(v) == int(v) and int(v) == int(x)
    return lambda v: _isnum(v) and (v == x or abs(v - x) <= 1e-9 * max(abs(v), abs(x)))


def _eq(x, typ=None):
    return lambda v: same_value(v, x, typ)


def _in(xs):
    return lambda v: isinstance(v, str) and v in xs


def _numeric_string(x):
    def chk(v):
        if not isinstance(v, str) or not re.fullmatch(r"\s*[-+]?(\d+\.?\d*|\.\d+)([eE][-+]?\d+)?\s*", v):
            return False
        if isinstance(x, int) and re.fullmatch(r"\s*[-+]?\d+\s*", v):
            return int(v) == x
        f = float(v)
        return f == x or abs(f - x) <= 1e-9 * max(abs(f), abs(x))
    return chk


def _int_class(n):
    if abs(n) > 2 ** 53:
        return "beyond-2^53"
    return "zero" if n == 0 else ("negative" if n < 0 else ("beyond-int32" if n > 2 ** 31 - 1 else "positive"))


def _num_class(x):
    if x == 0:
        return "zero"
    frac = "integral" if float(x) == int(x) else "fractional"
    return ("negative-" if x < 0 else "positive-") + frac


_PNAME = {"A": "annual", "S": "semester", "Q": "quarter", "M": "month", "W": "week", "D": "day"}


def _string_shape(s):
    """syntactic shape of a String source value (used for the value class and for what can be expected)"""
    if re.fullmatch(r"-?\d+", s):
        return "integer-string"
    if re.fullmatch(r"-?\d+\.\d+", s):
        return "integral-decimal-string" if float(s) == int(float(s)) else "fractional-string"
    if re.fullmatch(r"-?\d+(\.\d+)?[eE][-+]?\d+", s):
        return "exponent-string"
    if s != s.strip() and re.fullmatch(r"-?\d+(\.\d+)?", s.strip()):
        return "padded-numeric-string"
    return "non-numeric-string"


def expect(docs, src, tgt, v, fmt):
    """the documented outcome of cast(v : src, tgt) under time_period_output_format fmt"""
    any_ = lambda vc, why: Expect("any", vc, "document silent: " + why, lambda r: in_domain(docs, tgt, r, fmt))  # noqa: E731
    if v is None:
        return Expect("value", "null", "null is compatible with every type / null propagates", _eq(None), None)
    R = docs["rules"]
    # ---- numeric / boolean sources
    if src in ("Integer", "Number"):
        vc = _int_class(v) if src == "Integer" else _num_class(v)
        if tgt == "Boolean":
            return Expect("value", vc, R["num2bool_text"], _eq(v != 0), v != 0)
        if tgt == "Number" or (tgt == "Integer" and (src == "Integer" or float(v) == int(v))):
            return Expect("value", vc, "same numeric value (Integer is a subtype of Number, both directions implicit)",
                          _num_check(v, exact=(tgt == "Integer" and src == "Integer")), v)
        if tgt == "Integer":
            return any_(vc, "Number with a fractional part to Integer (truncate, round or reject)")
        if tgt == "String":
            return Expect("value", vc, "document silent on the text form: a numeric string equal to the source value",
                          _numeric_string(v), "a string reading %r" % (v,))
    if src == "Boolean":
        vc = "true" if v else "false"
        if tgt == "Boolean":
            return Expect("value", vc, "same value", _eq(v), v)
        if tgt in ("Integer", "Number"):
            return Expect("value", vc, R["bool2num_text"], _num_check(1 if v else 0), 1 if v else 0)
        if tgt == "String":
            s = R["bool2str"][0] if v else R["bool2str"][1]
            return Expect("value", vc, R["bool2str_text"], _eq(s), s)
    # ---- time sources
    if src == "Date":
        d = _date(v[:10])
        with_time = len(v) > 10
        vc = "date-with-time" if with_time else "date"
        iso = v[:10] + ("T" + v[11:] if with_time else "")
        if tgt == "Date":
            return Expect("value", vc, "same date, Date output format YYYY-MM-DD / YYYY-MM-DDThh:mm:ss", _eq(iso, "Date"), iso)
        if with_time:
            return any_(vc, "a Date carrying a time component cast to " + tgt)
        if tgt == "String":
            return Expect("value", vc, "document silent on the text form: a documented Date spelling (YYYY-MM-DD, optionally with "
                          "hh:mm:ss) of the same date", lambda r: isinstance(r, str) and in_domain(docs, "Date", r, fmt)
                          and norm_date(r) == iso, "a spelling of %s" % iso)
        if tgt == "Time":
            s = "%s/%s" % (v, v)
            return Expect("value", vc, R["date2time_text"], _eq(s), s)
        if tgt == "Time_Period":
            rend = render_period(("D", d.year, d.timetuple().tm_yday), fmt)
            return Expect("value", vc, R["date2tp_text"], _in(rend), sorted(rend))
    if src == "Time_Period":
        p = parse_period(v)
        vc = _PNAME[p[0]] + "-period"
        rend = render_period(p, fmt)
        if rend is None and tgt in ("Time_Period", "String"):
            return any_("period-not-supported-by-output-format", "the output-format table marks this period 'Not supported' under " + fmt)
        if tgt == "Time_Period":
            return Expect("value", vc, "same period, rendered per the output-format table (%s)" % fmt, _in(rend), sorted(rend))
        if tgt == "String":
            return Expect("value", vc, "document silent on which spelling: any documented spelling of the same period",
                          lambda r: isinstance(r, str) and parse_period(r) == p, "a spelling of %s" % (v,))
        if tgt == "Time":
            b = period_bounds(p)
            if b is None:
                return any_(vc, "calendar of weekly periods")
            s = "%s/%s" % (b[0].isoformat(), b[1].isoformat())
            return Expect("value", vc, R["tp2time_text"], _eq(s), s)
    if src == "Time":
        a, b = v.split("/")
        vc = "interval-same-dates" if a == b else "interval-different-dates"
        if tgt in ("Time", "String"):
            return Expect("value", vc, "same interval YYYY-MM-DD/YYYY-MM-DD", _eq(v), v)
    if src == "Duration":
        if tgt in ("Duration", "String"):
            return Expect("value", "period-indicator", "same single-letter period indicator", _eq(v), v)
    # ---- String source
    if src == "String":
        shape = _string_shape(v)
        if tgt == "String":
            return Expect("value", "string", "same string", _eq(v), v)
        if tgt in ("Integer", "Number"):
            if shape == "integer-string":
                vc = "large-integer-string" if abs(int(v)) > 2 ** 53 else shape
                return Expect("value", vc, "a valid integer string converts to that number",
                              _num_check(int(v), exact=(tgt == "Integer")), int(v))
            if shape == "non-numeric-string":
                return Expect("error", shape, "not a number: cannot be converted")
            if tgt == "Number":
                if shape in ("integral-decimal-string", "fractional-string"):
                    return Expect("value", "decimal-string", "a decimal string converts to that number", _num_check(float(v)), float(v))
                return any_(shape, "exponent notation / surrounding blanks in a numeric string")
            if shape == "fractional-string":
                return Expect("error", shape, R["str2int_text"])
            return any_(shape, "whether %r counts as 'a valid integer string'" % v)
        lead_year = re.match(r"\d{4}", v) is not None
        if tgt == "Date":
            if _date(v) is not None:
                return Expect("value", "iso-date-string", "an ISO 8601 date string converts to that date", _eq(v, "Date"), v)
            if re.fullmatch(r"\d{4}-\d{2}-\d{2}", v):
                return Expect("error", "impossible-date-string", "no such calendar date: cannot be converted")
            if not lead_year:
                return Expect("error", "non-date-string", "not a date: cannot be converted")
            if in_domain(docs, "Date", v, fmt):
                return any_("date-with-time-string", "ISO 8601 date strings with a time component")
            return any_("non-date-string", "strings starting with a year that are not a YYYY-MM-DD date")
        if tgt == "Time_Period":
            p = parse_period(v)
            if p is not None and render_period(p, fmt) is None:
                return any_("period-not-supported-by-output-format",
                            "the output-format table marks this period 'Not supported' under " + fmt)
            if p is not None and period_valid(p):
                rend = render_period(p, fmt)
                vc = _PNAME[p[0]] + "-period-string"
                return Expect("value", vc, "a documented Time_Period spelling converts to that period, rendered per "
                              "the output-format table (%s)" % fmt, _in(rend), sorted(rend))
            if not lead_year:
                return Expect("error", "non-period-string", "not a time period: cannot be converted")
            return any_("out-of-range-period-string" if p is not None else "non-period-string",
                        "year-led strings that are not a documented, in-range period spelling")
        if tgt == "Time":
            if in_domain(docs, "Time", v, fmt):
                a, b = v.split("/")
                if a <= b:
                    return Expect("value", "interval-string", "an ISO 8601 interval string converts to that interval", _eq(v), v)
                return any_("reversed-interval-string", "interval whose end precedes its start")
            if not lead_year:
                return Expect("error", "non-interval-string", "not a time interval: cannot be converted")
            if re.fullmatch(r"\d{4}(-\d{2})?", v):
                return any_("year-or-month-string", "YYYY / YYYY-MM strings (accepted as Time *input* and expanded to the full "
                            "interval; nothing is said for cast)")
            return any_("non-interval-string", "year-led strings that are not YYYY-MM-DD/YYYY-MM-DD")
        if tgt == "Duration":
            if v in docs["durations"]:
                return Expect("value", "period-indicator-string", "a single-letter period indicator converts to itself", _eq(v), v)
            if re.fullmatch(r"P\d+[YMWD]", v):
                return any_("iso8601-duration-string", "ISO 8601 duration codes (the document only lists single letters)")
            return Expect("error", "non-duration-string", "not a period indicator: cannot be converted")
    raise ValueError("no documented expectation for %s -> %s (%r): pair not allowed?" % (src, tgt, v))


# ---------------------------------------------------------------------------------------------------------
# value pools (label, value): the label is only a stable handle for replays
# ---------------------------------------------------------------------------------------------------------

POOLS = {
    "Integer": [0, 1, 3, -1, -4, 2147483648, 9007199254740993, None],
    "Number": [0.0, 1.0, 3.0, 3.5, 3.7, 0.1, -4.0, -3.7, -0.5, 10000000000.0, 0.0000001, None],
    "Boolean": [True, False, None],
    "Date": ["2020-01-15", "2020-04-09", "2020-12-31", "2021-01-01", "2020-02-29", "1800-01-01", "9999-12-31",
             "2020-01-15 10:30:00", None],
    "Time_Period": ["2020", "2020S1", "2020S2", "2020Q1", "2020Q4", "2020M1", "2020M12", "2020W15", "2020W53",
                    "2020D15", "2020D100", "2020D366", None],
    "Time": ["2020-01-01/2020-12-31", "2020-01-01/2020-06-30", "2020-01-01/2020-03-31", "2020-01-01/2020-01-31",
             "2020-04-06/2020-04-12", "2020-01-15/2020-01-15", "2020-01-15/2020-02-20",
             # ISO weeks that straddle a year boundary (week 1 starting in December, week 53 ending in January)
             "2019-12-30/2020-01-05", "2020-12-28/2021-01-03", None],
    "Duration": ["A", "S", "Q", "M", "W", "D", None],
    "String": [
        # numbers
        "3", "0", "-4", "3.5", "-3.7", "3.0", "1e5", " 3 ", "9007199254740993",
        # booleans, words
        "true", "false", "abc", "X",
        # dates
        "2020-01-15", "2020-04-09", "2020-13-45", "2020-01-15 10:30:00",
        # periods: every indicator, compact and hyphenated spellings, out-of-range, unknown indicator
        "2020", "2020A", "2020S1", "2020Q1", "2020-Q1", "2020M1", "2020-M01", "2020-01", "2020W15", "2020D100",
        "2020Q5", "2020X1",
        # intervals: same / different / reversed dates
        "2020-01-15/2020-01-15", "2020-01-01/2020-12-31", "2020-12-31/2020-01-01", "2020-01-01/",
        # durations: short codes and ISO 8601 codes
        "A", "S", "Q", "M", "W", "D", "P1Y", "P3M", "P1D", "PT",
        None],
}


def pool(docs, src):
    vals = list(POOLS[src])
    if src == "String":
        for extra in (docs["rules"]["str2int"][0], docs["rules"]["date2tp"][0]):
            if extra not in vals:
                vals.insert(0, extra)
    return [("v%02d" % i, v) for i, v in enumerate(vals)]

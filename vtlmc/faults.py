"""Explorer E4 — connection proxy: event tracing and fault-point enumeration (DESIGN §2.5).

``vtlengine.API.configured_connection`` is wrapped so that the DuckDB connection yielded to ``run()`` is a
transparent proxy that numbers every catalogue-visible call and can raise at the k-th one.  The proxy sees
the actual traffic (CREATE TABLE "A" (...), INSERT INTO, CREATE TABLE "X" AS, DROP TABLE IF EXISTS, COPY ... TO,
fetch SELECTs); nothing in /repo is touched.
"""
import contextlib
import gc
import os
import re

INTERCEPT = ("execute", "sql", "register", "unregister", "table", "executemany", "from_df", "query", "append")

_PATTERNS = [
    (re.compile(r'^\s*CREATE\s+TABLE\s+"([^"]+)"\s+AS\b', re.I | re.S), "exec"),
    (re.compile(r'^\s*CREATE\s+(?:OR\s+REPLACE\s+)?TABLE\s+"([^"]+)"\s*\(', re.I | re.S), "create"),
    (re.compile(r'^\s*INSERT\s+INTO\s+"([^"]+)"', re.I | re.S), "insert"),
    (re.compile(r'^\s*DROP\s+TABLE\s+IF\s+EXISTS\s+"([^"]+)"', re.I | re.S), "drop"),
    (re.compile(r'^\s*DROP\s+(?:VIEW|TABLE)\s+(?:IF\s+EXISTS\s+)?"?([^";\s]+)', re.I | re.S), "drop"),
    (re.compile(r'^\s*COPY\s+.*?\bTO\s+\'([^\']+)\'', re.I | re.S), "copy"),
    (re.compile(r'^\s*UPDATE\s+"([^"]+)"', re.I | re.S), "update"),
    (re.compile(r'^\s*ALTER\s+TABLE\s+"([^"]+)"', re.I | re.S), "alter"),
    (re.compile(r'^\s*DESCRIBE\s+"([^"]+)"', re.I | re.S), "describe"),
    (re.compile(r'^\s*SELECT\s+COUNT\(\*\)\s+FROM\s+"([^"]+)"', re.I | re.S), "count"),
    (re.compile(r'^\s*SELECT\b.*?\bFROM\s+"([^"]+)"\s*(?:LIMIT 0)?\s*$', re.I | re.S), "select"),
    (re.compile(r'^\s*SELECT\b', re.I | re.S), "select-other"),
    (re.compile(r'^\s*SET\b', re.I | re.S), "set"),
    (re.compile(r'^\s*(?:CREATE|DROP)\s+(?:OR\s+REPLACE\s+)?(?:MACRO|TYPE|FUNCTION)', re.I | re.S), "macros"),
]


def abstract(method, args):
    """(method, args) -> (kind, object name)"""
    if method in ("execute", "sql", "query", "executemany"):
        sql = args[0] if args and isinstance(args[0], str) else ""
        for pat, kind in _PATTERNS:
            m = pat.search(sql)
            if m:
                return (kind, m.group(1) if m.groups() else "")
        return ("other", sql.strip()[:30])
    if method in ("register", "unregister", "table"):
        return (method, str(args[0]) if args else "")
    return (method, "")


class Session:
    """what the proxy records for one run()"""

    def __init__(self, fault_at=None, fault=None):
        self.events = []          # (index, method, kind, name)
        self.fault_at = fault_at
        self.fault = fault        # callable -> exception instance
        self.fired = False
        self.real = None
        self.sql = []

    def event(self, method, args):
        kind, name = abstract(method, args)
        idx = len(self.events)
        self.events.append((idx, method, kind, name))
        if os.environ.get("VTLMC_KEEP_SQL") and args and isinstance(args[0], str):
            self.sql.append(args[0][:2000])
        if self.fault_at is not None and idx == self.fault_at and not self.fired:
            self.fired = True
            raise self.fault()


class ConnProxy:
    def __init__(self, real, session):
        object.__setattr__(self, "_real", real)
        object.__setattr__(self, "_session", session)

    def __getattr__(self, name):
        real = object.__getattribute__(self, "_real")
        attr = getattr(real, name)
        if name in INTERCEPT and callable(attr):
            session = object.__getattribute__(self, "_session")
            proxy = self

            def wrapped(*a, **k):
                session.event(name, a)
                r = attr(*a, **k)
                return proxy if r is real else r
            return wrapped
        return attr

    # results of conn.execute() are consumed on the connection itself
    def __enter__(self):
        return self

    def __exit__(self, *a):
        return object.__getattribute__(self, "_real").__exit__(*a)


_ORIG = {}


def install():
    """wrap vtlengine.API.configured_connection; idempotent. Returns a holder whose .session is used next."""
    import vtlengine.API as API
    if "holder" in _ORIG:
        return _ORIG["holder"]
    orig = API.configured_connection

    class Holder:
        session = None
        sessions = []

    holder = Holder()

    @contextlib.contextmanager
    def proxied(*a, **k):
        s = holder.session if holder.session is not None else Session()
        holder.session = None
        holder.sessions.append(s)
        with orig(*a, **k) as conn:
            s.real = conn
            yield ConnProxy(conn, s)

    API.configured_connection = proxied
    _ORIG["holder"] = holder
    _ORIG["orig"] = orig
    return holder


def run_traced(thunk, fault_at=None, fault=None):
    """execute thunk() (an API call) with a fresh Session -> (outcome tuple from harness.call, session)"""
    from vtlmc import harness
    holder = install()
    s = Session(fault_at, fault)
    holder.session = s
    out = harness.call(thunk)
    holder.session = None
    return out, s


def connection_closed(conn):
    if conn is None:
        return True
    try:
        conn.execute("SELECT 1")
        return False
    except Exception as e:  # noqa: BLE001
        return "closed" in str(e).lower() or type(e).__name__ == "ConnectionException"


def fd_count():
    gc.collect()
    try:
        return len(os.listdir("/proc/self/fd"))
    except OSError:
        return -1


def tempdir_residue(tdir):
    try:
        return sorted(os.listdir(tdir))
    except FileNotFoundError:
        return []


def fault_alphabet(tier):
    import duckdb

    def enospc():
        import errno
        return OSError(errno.ENOSPC, "No space left on device (injected)")
    alpha = [("duckdb.IOException", lambda: duckdb.IOException("injected I/O failure")),
             ("MemoryError", lambda: MemoryError("injected"))]
    if tier == "thorough":
        alpha += [("duckdb.OutOfMemoryException", lambda: duckdb.OutOfMemoryException("injected OOM")),
                  ("OSError.ENOSPC", enospc)]
    return alpha

"""C11 helper: the documented implicit-promotion table (parsed from docs/data_types.rst at run time),
the expectations derived from it, operator discovery by introspection and script generation.

Vocabulary: types are the *documented* names (String, Number, Integer, Boolean, Time, Date, Time_Period,
Duration) plus "Null"; the engine classes are reached only through vtlengine.DataTypes.SCALAR_TYPES.
"""
import os
import re

from vtlmc import harness

NULL = "Null"


# ------------------------------------------------------------------------------------------------
# O2: the implicit table of docs/data_types.rst
# ------------------------------------------------------------------------------------------------

class DocTable:
    def __init__(self, types, promo, subtype, key_rules, problems):
        self.types = types          # documented type names, table order
        self.promo = promo          # name -> frozenset of names it is implicitly promoted to (incl. itself)
        self.subtype = subtype      # set of (sub, super) facts stated in the key rules
        self.key_rules = key_rules  # [(from, to)] of the "X to Y" / "X / Y both directions" bullets
        self.problems = problems    # parse problems (-> tool error)

    @property
    def all_types(self):
        return list(self.types) + [NULL]

    def P(self, t):
        return self.promo[t]


def parse_doc_table(path=None):
    path = path or os.path.join(harness.REPO, "docs", "data_types.rst")
    text = open(path, encoding="utf-8").read()
    problems = []
    m = re.search(r"^Implicit Casting[^\n]*\n=+\n", text, re.M)
    if not m:
        return DocTable([], {}, set(), [], ["section 'Implicit Casting' not found in %s" % path])
    rest = text[m.end():]
    nxt = re.search(r"^[^\n]+\n(=+|\*+|#+)\n", rest, re.M)   # next section title
    section = rest[:nxt.start()] if nxt else rest
    lt = re.search(r"^\.\. list-table::[^\n]*\n", section, re.M)
    if not lt:
        return DocTable([], {}, set(), [], ["no list-table in the Implicit Casting section"])
    yes_marks = set(re.findall(r"^\.\. (\|\w+\|) unicode:: U\+2705", text, re.M)) or {"|y|"}
    rows, cur = [], None
    for line in section[lt.end():].splitlines():
        if re.match(r"^\s+:\w[\w-]*:", line) or not line.strip():
            continue                               # list-table options / blank lines
        if not line.startswith(" "):
            break                                  # the table body is indented; first flush-left line ends it
        mrow = re.match(r"^\s+\* - (.*)$", line)
        mcell = re.match(r"^\s+- (.*)$", line)
        if mrow:
            cur = [mrow.group(1).strip()]
            rows.append(cur)
        elif mcell and cur is not None:
            cur.append(mcell.group(1).strip())
        elif cur is not None:
            cur[-1] += " " + line.strip()          # continuation line of a cell
    if len(rows) < 2:
        return DocTable([], {}, set(), [], ["implicit table has no body"])
    header = rows[0]
    types = [h.strip("* ") for h in header[1:]]
    promo = {}
    for r in rows[1:]:
        name = r[0].strip("* ")
        if len(r) != len(header):
            problems.append("row %s has %d cells, header has %d" % (name, len(r), len(header)))
            continue
        s = set()
        for to, cell in zip(types, r[1:]):
            if cell in yes_marks:
                s.add(to)
            elif cell in ("—", "-", "–", ""):
                pass
            else:
                problems.append("unknown cell %r in row %s column %s" % (cell, name, to))
        promo[name] = frozenset(s)
    if sorted(promo) != sorted(types):
        problems.append("row labels %s differ from column labels %s" % (sorted(promo), sorted(types)))
    for t in types:
        if t in promo and t not in promo[t]:
            problems.append("diagonal cell %s -> %s is not a yes" % (t, t))
    if not re.search(r"Null[^.]*compatible\s+with\s+(all|every)", text, re.S):
        problems.append("the sentence 'Null is compatible with every type' was not found")
    promo[NULL] = frozenset(types) | {NULL}
    # key rules (bullets under the table): cross-checked against the table by the check
    subtype = set(re.findall(r"\((\w+) is a\s+subtype\s+of\s+(\w+)\)", section))
    key_rules = []
    for a, b in re.findall(r"^- \*\*(\w+) to (\w+)\*\*", section, re.M):
        if a != NULL:
            key_rules.append((a, b))
    for a, b in re.findall(r"^- \*\*(\w+) / (\w+)\*\*: Both\s+directions", section, re.M):
        key_rules += [(a, b), (b, a)]
    return DocTable(types, promo, subtype, key_rules, problems)


# ------------------------------------------------------------------------------------------------
# expectations derived from the table (signature = (type_to_check | None, return_type | None))
# ------------------------------------------------------------------------------------------------

def mutual(tab, a, b):
    return a != b and a in tab.P(b) and b in tab.P(a)


def join_type(tab, l, r):
    """set of admissible common result types of two operands when the operator declares no return type"""
    if l == r:
        return {l}
    if l == NULL:
        return {r}
    if r == NULL:
        return {l}
    if mutual(tab, l, r):
        if (l, r) in tab.subtype:
            return {r}
        if (r, l) in tab.subtype:
            return {l}
        return {l, r}
    if r in tab.P(l):
        return {r}
    if l in tab.P(r):
        return {l}
    return set(tab.P(l) & tab.P(r)) - {NULL}


def expect_binary(tab, sig, l, r):
    """-> (accept?, set of admissible result types | None)"""
    ttc, rt = sig
    common = tab.P(l) & tab.P(r)
    accept = (ttc in common) if ttc else bool(common)
    if not accept:
        return False, None
    if rt:
        return True, {rt}
    res = join_type(tab, l, r)
    if ttc:
        if l == NULL and r == NULL:
            res = {NULL, ttc}
        elif ttc in res:
            res = {ttc}
        elif not any(t == ttc or mutual(tab, t, ttc) for t in res):
            res = set(res) | {ttc}       # both operands promoted to the operator's type: either reading
    return True, res


def expect_unary(tab, sig, t):
    ttc, rt = sig
    accept = (ttc in tab.P(t)) if ttc else True
    if not accept:
        return False, None
    if rt:
        return True, {rt}
    if not ttc or t == ttc:
        return True, {t}
    if t == NULL:
        return True, {NULL, ttc}
    if mutual(tab, t, ttc):
        return True, {t}                 # a subtype needs no cast (e.g. -Integer is Integer)
    return True, {ttc}


# ------------------------------------------------------------------------------------------------
# engine side: names <-> classes, operator discovery
# ------------------------------------------------------------------------------------------------

def engine_types():
    """documented name -> engine class, and back"""
    import vtlengine.DataTypes as DT
    return dict(DT.SCALAR_TYPES), {v: k for k, v in DT.SCALAR_TYPES.items()}


def tname(cls_or_none, rev):
    if cls_or_none is None:
        return None
    return rev.get(cls_or_none, getattr(cls_or_none, "__name__", str(cls_or_none)))


def registries():
    """every *_MAPPING dict of vtlengine.Utils whose values are classes -> {registry: {token: class}}"""
    import vtlengine.Utils as U
    out = {}
    for nm in sorted(dir(U)):
        obj = getattr(U, nm)
        if nm.endswith("_MAPPING") and isinstance(obj, dict) and obj and all(isinstance(v, type) for v in obj.values()):
            out[nm] = dict(obj)
    return out


def all_operator_classes():
    """every subclass of Operators.Operator defined in the vtlengine.Operators package (registered or not)"""
    import importlib
    import pkgutil
    import vtlengine.Operators as OP
    for mi in pkgutil.iter_modules(OP.__path__):
        try:
            importlib.import_module("vtlengine.Operators." + mi.name)
        except Exception:
            pass
    seen, todo = [], [OP.Operator]
    while todo:
        c = todo.pop()
        for s in c.__subclasses__():
            if s not in seen:
                seen.append(s)
                todo.append(s)
    return sorted(seen, key=lambda c: (c.__module__, c.__qualname__))


def arity(cls):
    import vtlengine.Operators as OP
    if issubclass(cls, OP.Binary):
        return 2
    if issubclass(cls, OP.Unary):
        return 1
    return 0


def signature(cls, rev):
    return (tname(getattr(cls, "type_to_check", None), rev), tname(getattr(cls, "return_type", None), rev))


def sig_label(sig):
    return "%s->%s" % (sig[0] or "any", sig[1] or "operand")


def cls_label(cls):
    return "%s.%s" % (cls.__module__.replace("vtlengine.Operators", "").strip(".") or "base", cls.__name__)


# ------------------------------------------------------------------------------------------------
# script generation
# ------------------------------------------------------------------------------------------------

VD_VALUES = {"Integer": [1], "Number": [1.5], "Boolean": [True], "String": ["a"], "Date": ["2020-01-01"],
             "Time_Period": ["2020-Q1"], "Time": ["2020-01-01/2020-12-31"], "Duration": ["A"]}
CWRAP_CALC = "[calc x := {e}]"


def build_case(kinds, template, types, cwrap=CWRAP_CALC):
    """-> dict(script, ds, vd, where)

    kinds: one letter per operand — 's' typed scalar (Null = the literal null), 'c' component of DS_1 used inside
           a clause, 'd' mono-measure dataset, 'e' the same with only the first identifier, 'v' value domain / set literal, 'h' the measure of a dataset given
           to hierarchy/check_hierarchy (template is then the whole script)
    template: expression with {0}, {1}, ... for the operands
    """
    c = harness.comp
    ids = [c("Id_1", "Integer", "Identifier"), c("Id_2", "Integer", "Identifier")]
    exprs, decl, comps, cpre, dss, dpre, vds = [], [], [], [], [], [], []
    for i, (k, t) in enumerate(zip(kinds, types)):
        if k == "s":
            if t == NULL:
                exprs.append("null")
            else:
                exprs.append("sc_%d" % i)
                decl.append({"name": "sc_%d" % i, "type": t})
        elif k == "v":
            if t == NULL:
                exprs.append("{null}")
            else:
                exprs.append("vd_%d" % i)
                vds.append({"name": "vd_%d" % i, "type": t, "setlist": VD_VALUES[t]})
        elif k == "c":
            nm = "Me_%s" % "abcd"[i]
            if t == NULL:
                cpre.append("%s := null" % nm)
            else:
                comps.append(c(nm, t, "Measure"))
            exprs.append(nm)
        elif k in ("d", "e", "h"):
            nm = "DS_%s" % "abcd"[i]
            idl = ids if k == "d" else (ids[:1] if k == "e" else [c("Id_1", "Integer", "Identifier"), c("Id_2", "String", "Identifier")])
            if t == NULL:
                dss.append(harness.structure(nm + "0", idl + [c("Me_1", "Integer", "Measure")]))
                dpre.append("%s := %s0[calc Me_1 := null];" % (nm, nm))
            else:
                dss.append(harness.structure(nm, idl + [c("Me_1", t, "Measure")]))
            exprs.append(nm)
        else:
            raise ValueError(k)
    has_c, has_d = "c" in kinds, ("d" in kinds or "h" in kinds or "e" in kinds)
    if has_c and has_d:
        raise ValueError("components and datasets cannot be mixed in one expression")
    expr = template.format(*exprs)
    if "h" in kinds:
        script = " ".join(dpre + [expr])
        where = ("dataset", "r")
    elif has_c:
        dss.append(harness.structure("DS_1", ids + [c("Me_0", "Integer", "Measure")] + comps))
        head = "DS_1" + ("[calc %s]" % ", ".join(cpre) if cpre else "")
        script = "r := %s%s;" % (head, cwrap.format(e=expr))
        where = ("component", "r", "x")
    elif has_d:
        script = " ".join(dpre + ["r := %s;" % expr])
        where = ("dataset", "r")
    else:
        dss.append(harness.structure("DS_0", ids + [c("Me_0", "Integer", "Measure")]))
        script = "r := %s;" % expr
        where = ("scalar", "r")
    return {"script": script, "ds": harness.structures(*dss, scalars=decl or None), "vd": vds or None, "where": list(where)}


def run_case(case):
    from vtlengine import semantic_analysis
    kw = {"value_domains": case["vd"]} if case.get("vd") else {}
    return harness.call(semantic_analysis, case["script"], case["ds"], **kw)


def observe(out, where, rev):
    """harness.call outcome -> ('ok', result type name) | ('rej', code-or-class) | ('odd', text)"""
    if out[0] == "err":
        return ("rej", out[3] or ("raw:" + out[2]))
    res = out[1]
    obj = res.get(where[1])
    if obj is None:
        return ("odd", "no result %s" % where[1])
    if where[0] == "scalar":
        if hasattr(obj, "components"):
            return ("odd", "dataset result for scalar operands")
        return ("ok", tname(obj.data_type, rev))
    if where[0] == "component":
        if not hasattr(obj, "components") or where[2] not in obj.components:
            return ("odd", "component %s missing" % where[2])
        return ("ok", tname(obj.components[where[2]].data_type, rev))
    if not hasattr(obj, "components"):
        return ("ok", tname(obj.data_type, rev))        # e.g. an aggregate collapsing to a scalar
    ms = [x for x in obj.components.values() if x.role.value == "Measure"]
    if len(ms) != 1:
        return ("ok", "?%d-measures" % len(ms))
    return ("ok", tname(ms[0].data_type, rev))

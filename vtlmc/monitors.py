"""Monitors evaluated on executions performed by any check (DESIGN §4 'MON-x')."""
from vtlmc import harness


def err_code(e):
    args = getattr(e, "args", ())
    return args[1] if len(args) > 1 else getattr(e, "code", None)


def mon26(out):
    """out = harness.call(...) error tuple -> None if fine, else a short reason"""
    from vtlengine.Exceptions.messages import centralised_messages as CAT
    _, kind, cls, code, msg = out
    if kind == "vtl" and code is not None and code not in CAT:
        return "uncatalogued-code-%s" % code
    if kind == "raw" and cls == "KeyError":
        # a KeyError whose key looks like a code or a placeholder name comes from the message machinery
        import re
        if re.fullmatch(r"'\d-\d+-\d+(-\d+)?'", msg.strip()):
            return "keyerror-code-%s" % msg.strip("'")
    return None


def mon32(out):
    """a raw (non-VTL) exception escaped"""
    _, kind, cls, code, msg = out
    if kind == "raw":
        return "raw-%s" % cls
    return None


def failing_calls(tier):
    """small table of failing API calls: (label, thunk)"""
    import pandas as pd
    import vtlengine as V
    H = harness
    ds = H.structures(H.structure("DS_1", [H.comp("Id_1", "Integer", "Identifier"), H.comp("Me_1", "Number", "Measure")]))
    df = pd.DataFrame({"Id_1": [1, 2], "Me_1": [1.0, 0.0]})
    dup = pd.DataFrame({"Id_1": [1, 1], "Me_1": [1.0, 0.0]})
    nul = pd.DataFrame({"Id_1": [1, None], "Me_1": [1.0, 0.0]})
    bad = pd.DataFrame({"Id_1": ["a", "b"], "Me_1": [1.0, 0.0]})
    T = [
        ("syntax", lambda: V.run("DS_r <- DS_1 + ;", ds, {"DS_1": df})),
        ("unknown-dataset", lambda: V.run("DS_r <- DS_2 + 1;", ds, {"DS_1": df})),
        ("unknown-component", lambda: V.run("DS_r <- DS_1[calc x := Me_9 + 1];", ds, {"DS_1": df})),
        ("type-mismatch", lambda: V.run('DS_r <- DS_1 + "a";', ds, {"DS_1": df})),
        ("redefinition", lambda: V.run("DS_r <- DS_1; DS_r <- DS_1;", ds, {"DS_1": df})),
        ("cycle", lambda: V.run("A := B; B := A; C <- A;", ds, {"DS_1": df})),
        ("dup-ids", lambda: V.run("DS_r <- DS_1;", ds, {"DS_1": dup})),
        ("null-id", lambda: V.run("DS_r <- DS_1;", ds, {"DS_1": nul})),
        ("bad-type", lambda: V.run("DS_r <- DS_1;", ds, {"DS_1": bad})),
        ("div-zero", lambda: V.run("DS_r <- DS_1[calc x := 1 / Me_1];", ds, {"DS_1": df})),
        ("ln-zero", lambda: V.run("DS_r <- ln(DS_1);", ds, {"DS_1": df})),
        ("bad-format", lambda: V.run("DS_r <- DS_1;", ds, {"DS_1": df}, time_period_output_format="nope")),
        ("bad-structure", lambda: V.run("DS_r <- DS_1;", {"datasets": [{"name": "DS_1"}]}, {"DS_1": df})),
        ("validate-missing", lambda: V.validate_dataset(ds, {"DS_9": df})),
        ("sem-keep-id", lambda: V.semantic_analysis("DS_r <- DS_1[keep Id_1];", ds)),
        ("sem-drop-id", lambda: V.semantic_analysis("DS_r <- DS_1[drop Id_1];", ds)),
        ("sem-rename-dup", lambda: V.semantic_analysis("DS_r <- DS_1[rename Me_1 to Id_1];", ds)),
        ("sem-agg-str", lambda: V.semantic_analysis('DS_r <- sum(DS_1 group by Id_9);', ds)),
        ("sem-cast", lambda: V.semantic_analysis('DS_r <- cast(DS_1, date);', ds)),
        ("sem-udo", lambda: V.semantic_analysis('define operator f(x dataset) returns dataset is x + 1 end operator; DS_r <- f(DS_1, DS_1);', ds)),
        ("sem-hier", lambda: V.semantic_analysis('DS_r <- check_hierarchy(DS_1, HR_1 rule Id_1);', ds)),
        ("sem-dpr", lambda: V.semantic_analysis('DS_r <- check_datapoint(DS_1, DPR_1);', ds)),
    ]
    return T

"""A fixed alphabet of small programs (script + input datasets) whose results VTL fully determines.
Shared by the differential checks (C10, C14?, C15, C32, C33): every program must run on the unchanged tree.
"""
from vtlmc.refbase import AT, DS, ID, ME


def ds1(n=5):
    rows = [
        {"Id_1": 1, "Id_2": "A", "Me_1": 10.0, "Me_2": 1.5, "At_1": "x"},
        {"Id_1": 1, "Id_2": "B", "Me_1": None, "Me_2": 2.5, "At_1": "y"},
        {"Id_1": 2, "Id_2": "A", "Me_1": 30.0, "Me_2": None, "At_1": None},
        {"Id_1": 2, "Id_2": "B", "Me_1": -4.0, "Me_2": 4.0, "At_1": "z"},
        {"Id_1": 3, "Id_2": "A", "Me_1": 30.0, "Me_2": 0.0, "At_1": "x"},
        {"Id_1": 3, "Id_2": "C", "Me_1": 7.25, "Me_2": 9.0, "At_1": "w"},
    ][:n]
    return DS("DS_1", [("Id_1", "Integer", ID), ("Id_2", "String", ID), ("Me_1", "Number", ME), ("Me_2", "Number", ME),
                       ("At_1", "String", AT)], rows)


def ds2(n=5):
    rows = [
        {"Id_1": 1, "Id_2": "A", "Me_1": 100.0, "Me_2": 5.0, "At_1": "p"},
        {"Id_1": 2, "Id_2": "B", "Me_1": 200.0, "Me_2": None, "At_1": "q"},
        {"Id_1": 3, "Id_2": "C", "Me_1": None, "Me_2": 7.0, "At_1": None},
        {"Id_1": 4, "Id_2": "A", "Me_1": 400.0, "Me_2": 8.0, "At_1": "r"},
        {"Id_1": 1, "Id_2": "C", "Me_1": 500.0, "Me_2": 9.0, "At_1": "s"},
    ][:n]
    return DS("DS_2", [("Id_1", "Integer", ID), ("Id_2", "String", ID), ("Me_1", "Number", ME), ("Me_2", "Number", ME),
                       ("At_1", "String", AT)], rows)


def ds3():
    rows = [{"Id_1": 1, "Id_2": "A", "Me_1": 1000.0, "Me_2": 1.0, "At_1": "m"},
            {"Id_1": 3, "Id_2": "C", "Me_1": 3000.0, "Me_2": 3.0, "At_1": "n"},
            {"Id_1": 5, "Id_2": "A", "Me_1": 5000.0, "Me_2": 5.0, "At_1": "o"}]
    return DS("DS_3", [("Id_1", "Integer", ID), ("Id_2", "String", ID), ("Me_1", "Number", ME), ("Me_2", "Number", ME),
                       ("At_1", "String", AT)], rows)


def dst(kind="Time_Period"):
    if kind == "Time_Period":
        vals = ["2020Q1", "2020Q2", "2020Q4", "2021Q1", "2021Q3"]
    else:
        vals = ["2020-01-31", "2020-02-29", "2020-04-30", "2020-05-31", "2020-07-31"]
    rows = []
    for s in ("A", "B"):
        for i, v in enumerate(vals):
            if s == "B" and i in (1, 3):
                continue
            rows.append({"Id_1": s, "Id_T": v, "Me_1": float((i + 1) * (10 if s == "A" else 3))})
    return DS("DS_T", [("Id_1", "String", ID), ("Id_T", kind, ID), ("Me_1", "Number", ME)], rows)


def dsh():
    rows = [{"Id_1": 2020, "Id_2": c, "Me_1": v} for c, v in (("A", 1.0), ("B", 2.0), ("C", 4.0), ("T", 3.0), ("U", 9.0))]
    rows += [{"Id_1": 2021, "Id_2": c, "Me_1": v} for c, v in (("A", 5.0), ("B", None), ("T", 5.0))]
    return DS("DS_H", [("Id_1", "Integer", ID), ("Id_2", "String", ID), ("Me_1", "Number", ME)], rows)


DPR = ("define datapoint ruleset dpr1 (variable Me_1, Me_2) is "
       "r1: when Me_1 > 0 then Me_2 >= 0 errorcode \"E1\" errorlevel 1; "
       "r2: Me_1 <> 30 errorcode \"E2\" end datapoint ruleset;\n")
HR = ("define hierarchical ruleset hr1 (variable rule Id_2) is "
      "T = A + B errorcode \"H1\" errorlevel 2; U = T + C errorcode \"H2\" end hierarchical ruleset;\n")
VIRAL = 'define viral propagation VP (variable VAt_1) is when "A" and "B" then "M"; when "A" then "A"; else "Z" end viral propagation;\n'


def dsv(name, vals):
    from vtlmc.refbase import VAT
    rows = [{"Id_1": i + 1, "Me_1": float(i + 1), "VAt_1": v} for i, v in enumerate(vals)]
    return DS(name, [("Id_1", "Integer", ID), ("Me_1", "Number", ME), ("VAt_1", "String", VAT)], rows)


def dsmixed():
    """one dataset whose time-typed columns mix the documented spellings of their type (order of the rows must not matter)"""
    rows = [
        {"Id_1": 1, "Me_D": "2020-01-02", "Me_P": "2020Q1", "Me_N": 1.0},
        {"Id_1": 2, "Me_D": "2020-01-02 10:30:00", "Me_P": "2020-Q2", "Me_N": 2.5},
        {"Id_1": 3, "Me_D": "2020-01-03T00:00:00", "Me_P": "2020-M03", "Me_N": None},
        {"Id_1": 4, "Me_D": None, "Me_P": "2020M4", "Me_N": -1.0},
    ]
    return DS("DS_M", [("Id_1", "Integer", ID), ("Me_D", "Date", ME), ("Me_P", "Time_Period", ME), ("Me_N", "Number", ME)], rows)


def programs():
    """-> list of (name, script, [datasets], tags)"""
    P = []
    P.append(("mixed-spellings-copy", "DS_r <- DS_M;", [dsmixed()], {"load"}))
    P.append(("mixed-spellings-date-filter", "DS_r <- DS_M[filter Me_D > cast(\"2020-01-02\", date)][keep Me_D];", [dsmixed()], {"load"}))
    P.append(("mixed-spellings-period-calc", "DS_r <- DS_M[calc Me_Y := getyear(Me_P), Me_I := period_indicator(Me_P)];", [dsmixed()], {"load"}))
    one, two, three = [ds1()], [ds1(), ds2()], [ds1(), ds2(), ds3()]
    for op in ("sum", "avg", "count", "min", "max", "median", "stddev_pop", "stddev_samp", "var_pop", "var_samp"):
        P.append(("aggr-%s-group-by" % op, "DS_r <- %s(DS_1 group by Id_2);" % op, one, {"aggregate"}))
    P.append(("aggr-group-except", "DS_r <- sum(DS_1 group except Id_2);", one, {"aggregate"}))
    P.append(("aggr-no-group", "DS_r <- max(DS_1);", one, {"aggregate"}))
    P.append(("aggr-clause-having", "DS_r <- DS_1[aggr M1 := sum(Me_1), M2 := count(Me_2) group by Id_1 having count() > 1];", one, {"aggregate"}))
    P.append(("count-rows", "DS_r <- count(DS_1 group by Id_1);", one, {"aggregate"}))
    for fn in ("sum", "avg", "min", "max", "count", "first_value", "last_value"):
        P.append(("an-%s-running" % fn,
                  "DS_r <- %s(DS_1 over (partition by Id_1 order by Id_2 data points between unbounded preceding and current data point));" % fn,
                  one, {"analytic"}))
    P.append(("an-lag", "DS_r <- DS_1[calc L := lag(Me_1, 1 over (partition by Id_1 order by Id_2))];", one, {"analytic"}))
    P.append(("an-lead", "DS_r <- DS_1[calc L := lead(Me_1, 1 over (partition by Id_2 order by Id_1 desc))];", one, {"analytic"}))
    P.append(("an-rank", "DS_r <- DS_1[calc R := rank(over (partition by Id_1 order by Id_2 desc))];", one, {"analytic"}))
    P.append(("an-ratio", "DS_r <- DS_1[calc R := ratio_to_report(Me_1 over (partition by Id_2))];", one, {"analytic"}))
    P.append(("an-window-centered", "DS_r <- avg(DS_1 over (order by Id_1, Id_2 data points between 1 preceding and 1 following));", one, {"analytic"}))
    P.append(("join-inner-2", "DS_r <- inner_join(DS_1 as d1, DS_2 as d2 keep d1#Me_1, d2#Me_2);", two, {"join"}))
    P.append(("join-left-2", "DS_r <- left_join(DS_1 as d1, DS_2 as d2 keep d1#Me_1, d2#Me_2);", two, {"join"}))
    P.append(("join-full-2", "DS_r <- full_join(DS_1 as d1, DS_2 as d2 keep d1#Me_1, d2#Me_2);", two, {"join"}))
    P.append(("join-inner-3", "DS_r <- inner_join(DS_1 as d1, DS_2 as d2, DS_3 as d3 calc S := d1#Me_1 + d2#Me_1 + d3#Me_1 keep S);", three, {"join"}))
    P.append(("join-using", "DS_r <- inner_join(DS_1 as d1, DS_2 as d2 using Id_1, Id_2 keep d1#Me_1, d2#Me_2);", two, {"join"}))
    P.append(("ds-binary", "DS_r <- DS_1 + DS_2;", two, {"binary"}))
    P.append(("ds-compare", "DS_r <- DS_1[keep Me_1] > DS_2[keep Me_1];", two, {"binary"}))
    P.append(("set-union", "DS_r <- union(DS_1, DS_2, DS_3);", three, {"set"}))
    P.append(("set-intersect", "DS_r <- intersect(DS_1, DS_2);", two, {"set"}))
    P.append(("set-setdiff", "DS_r <- setdiff(DS_1, DS_2);", two, {"set"}))
    P.append(("set-symdiff", "DS_r <- symdiff(DS_1, DS_2);", two, {"set"}))
    P.append(("clause-chain", "DS_r <- DS_1[filter Me_1 > 0][calc Me_3 := Me_1 * Me_2, attribute At_2 := At_1 || \"!\"][drop Me_2][rename Me_3 to M];", one, {"clause"}))
    P.append(("clause-sub", "DS_r <- DS_1[sub Id_2 = \"A\"];", one, {"clause"}))
    P.append(("unpivot", "DS_r <- DS_1[drop At_1][unpivot Id_3, Me_3];", one, {"clause"}))
    P.append(("if-nvl", "DS_r <- DS_1[calc Me_3 := if Me_1 > 5 then nvl(Me_2, 0) else -1];", one, {"clause"}))
    P.append(("check", "DS_r <- check(DS_1[keep Me_1] > DS_2[keep Me_1] errorcode \"X\" errorlevel 3 imbalance DS_1[keep Me_1] - DS_2[keep Me_1]);", two, {"validation"}))
    P.append(("check-datapoint", DPR + "DS_r <- check_datapoint(DS_1, dpr1 all);", one, {"validation"}))
    P.append(("check-datapoint-invalid", DPR + "DS_r <- check_datapoint(DS_1, dpr1);", one, {"validation"}))
    P.append(("check-hierarchy", HR + "DS_r <- check_hierarchy(DS_H, hr1 rule Id_2 non_null all);", [dsh()], {"validation"}))
    P.append(("hierarchy", HR + "DS_r <- hierarchy(DS_H, hr1 rule Id_2 non_null);", [dsh()], {"validation"}))
    P.append(("fill-time-series", "DS_r <- fill_time_series(DS_T, all);", [dst()], {"time"}))
    P.append(("fill-time-series-single", "DS_r <- fill_time_series(DS_T, single);", [dst()], {"time"}))
    P.append(("flow-to-stock", "DS_r <- flow_to_stock(DS_T);", [dst()], {"time"}))
    P.append(("stock-to-flow", "DS_r <- stock_to_flow(DS_T);", [dst()], {"time"}))
    P.append(("timeshift-period", "DS_r <- timeshift(DS_T, 1);", [dst()], {"time"}))
    P.append(("timeshift-date", "DS_r <- timeshift(DS_T, 1);", [dst("Date")], {"time"}))
    P.append(("flow-to-stock-date", "DS_r <- flow_to_stock(DS_T);", [dst("Date")], {"time"}))
    P.append(("time-agg", "DS_r <- sum(DS_T group all time_agg(\"A\"));", [dst()], {"time", "aggregate"}))
    P.append(("multi-statement", "A := DS_1 + DS_2; B := A[filter Me_1 > 100]; DS_r <- union(B, DS_3[drop At_1]); DS_s <- max(A group by Id_1);", three, {"multi"}))
    P.append(("viral-binary", VIRAL + "DS_r <- DS_V1 + DS_V2;", [dsv("DS_V1", ["A", "B", "A", None]), dsv("DS_V2", ["B", "B", "A", "A"])], {"viral"}))
    P.append(("viral-aggr", VIRAL + "DS_r <- sum(DS_V1 group by Id_1);", [dsv("DS_V1", ["A", "B", "A", None])], {"viral"}))
    return P

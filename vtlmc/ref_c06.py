"""Reference evaluator for VTL analytic invocation (oracle O4 of DESIGN.md, property C06).

Plain Python over lists of dicts; written from the VTL 2.1 reference manual ("Analytic invocation" and the
operator pages of sum avg count min max median stddev_pop stddev_samp var_pop var_samp first_value last_value
lag lead rank ratio_to_report).  Nothing under /repo is imported: no code is shared with the engine.

The evaluation of one analytic call on one column is deliberately boring:

    for every partition (datapoints with equal values of the partitioning identifiers)
        sort it by the ordering components
        for every datapoint: collect the datapoints of its frame, apply the function to their values

A *frame* is given by two bounds.  A bound is one of
    ("UP",)  unbounded preceding      ("P", n)  n preceding      ("C",)  current data point
    ("F", n) n following              ("UF",)   unbounded following
In ``data`` mode ("data points between ...") bounds are positions in the sorted partition; in ``range`` mode
they are distances on the value of the (single) ordering component, measured in the direction of the ordering
("n preceding" under ``desc`` means values up to n *larger*).

Semantics that the manual leaves open are not decided here: ``evaluate`` reports them in ``Result.unclear`` and
the caller drops such a point (see ``CRISP`` below and the ASSUMPTIONS of the check).
"""
import datetime
import re
import statistics

WINDOWED = ("sum", "avg", "count", "min", "max", "median", "stddev_pop", "stddev_samp", "var_pop", "var_samp",
            "first_value", "last_value")
ORDER_INSENSITIVE = ("sum", "avg", "count", "min", "max", "median", "stddev_pop", "stddev_samp", "var_pop", "var_samp")
FUNCTIONS = WINDOWED + ("lag", "lead", "rank", "ratio_to_report")

UP, UF, CUR = ("UP",), ("UF",), ("C",)


def P(n):
    return ("P", n)


def F(n):
    return ("F", n)


def bound_axis(b):
    """position of a bound on the axis  -inf .. -3 -2 -1 0 1 2 3 .. +inf  (used for  start <= end)"""
    if b[0] == "UP":
        return float("-inf")
    if b[0] == "UF":
        return float("inf")
    if b[0] == "C":
        return 0
    return -b[1] if b[0] == "P" else b[1]


def bound_text(b):
    return {"UP": "unbounded preceding", "UF": "unbounded following", "C": "current data point"}.get(b[0]) or (
        "%d %s" % (b[1], "preceding" if b[0] == "P" else "following"))


def bound_kind(b):
    return {"UP": "unbounded", "UF": "unbounded", "C": "current", "P": "preceding", "F": "following"}[b[0]]


class Spec:
    """one analytic call: fn, partition identifiers, ordering [(component, 'asc'|'desc')], window, lag/lead params"""

    def __init__(self, fn, partition=(), order=(), window=None, offset=None, default=None, has_default=False):
        self.fn = fn
        self.partition = list(partition)
        self.order = [(c, d) for c, d in order]
        self.window = window            # None | (mode 'data'|'range', start bound, end bound)
        self.offset = offset
        self.default = default
        self.has_default = has_default

    def over_text(self):
        parts = []
        if self.partition:
            parts.append("partition by " + ", ".join(self.partition))
        if self.order:
            parts.append("order by " + ", ".join("%s %s" % (c, d) for c, d in self.order))
        if self.window is not None:
            mode, s, e = self.window
            parts.append("%s between %s and %s" % ("data points" if mode == "data" else "range", bound_text(s), bound_text(e)))
        return " ".join(parts)

    def call_text(self, operand):
        """the VTL text of the call applied to ``operand`` (a dataset or component name; None for rank)"""
        if self.fn == "rank":
            return "rank(over (%s))" % self.over_text()
        if self.fn in ("lag", "lead"):
            extra = ", %d" % self.offset + (", %s" % vtl_literal(self.default) if self.has_default else "")
            return "%s(%s%s over (%s))" % (self.fn, operand, extra, self.over_text())
        return "%s(%s over (%s))" % (self.fn, operand, self.over_text())

    def to_json(self):
        w = None if self.window is None else [self.window[0], list(self.window[1]), list(self.window[2])]
        return {"fn": self.fn, "partition": self.partition, "order": [list(o) for o in self.order], "window": w,
                "offset": self.offset, "default": self.default, "has_default": self.has_default}

    @staticmethod
    def from_json(d):
        w = None if d["window"] is None else (d["window"][0], tuple(d["window"][1]), tuple(d["window"][2]))
        return Spec(d["fn"], d["partition"], [tuple(o) for o in d["order"]], w, d["offset"], d["default"], d["has_default"])


def vtl_literal(v):
    if v is None:
        return "null"
    if isinstance(v, bool):
        return "true" if v else "false"
    if isinstance(v, str):
        return '"%s"' % v
    return repr(v)


class Unclear(Exception):
    """the requested point has no crisp semantics (ties under a positional function, null ordering value, ...)"""


# ------------------------------------------------------------------------------------------------------
# the functions, over the list of values of the frame (in frame order, nulls included)
# ------------------------------------------------------------------------------------------------------

def apply_function(fn, frame_values):
    if fn == "first_value":
        return frame_values[0] if frame_values else None
    if fn == "last_value":
        return frame_values[-1] if frame_values else None
    vals = [v for v in frame_values if v is not None]          # aggregates ignore nulls
    if fn == "count":
        return len(vals)                                       # 0 may also be reported as null (DESIGN §3 rule 2)
    if not vals:
        return None                                            # empty frame / only nulls -> null
    if fn == "sum":
        return sum(vals)
    if fn == "avg":
        return sum(vals) / len(vals)
    if fn == "min":
        return min(vals)
    if fn == "max":
        return max(vals)
    if fn == "median":
        return statistics.median(vals)
    if fn == "stddev_pop":
        return statistics.pstdev([float(v) for v in vals])
    if fn == "var_pop":
        return statistics.pvariance([float(v) for v in vals])
    if len(vals) < 2:
        return None                                            # sample statistics of one value -> null
    if fn == "stddev_samp":
        return statistics.stdev([float(v) for v in vals])
    if fn == "var_samp":
        return statistics.variance([float(v) for v in vals])
    raise ValueError(fn)


def _order_number(v):
    """numeric position of an ordering value for ``range`` frames: numbers as they are, dates in days"""
    if isinstance(v, bool):
        raise Unclear("range over Boolean")
    if isinstance(v, (int, float)):
        return v
    if isinstance(v, datetime.date):
        return v.toordinal()
    if isinstance(v, str) and re.fullmatch(r"\d{4}-\d{2}-\d{2}", v):
        return datetime.date.fromisoformat(v).toordinal()
    raise Unclear("range over a non-numeric ordering component")


def sort_partition(rows, order):
    """stable multi-key sort, last key first; -> sorted list.  Raises Unclear on null ordering values."""
    out = list(rows)
    for comp, direction in reversed(order):
        for r in out:
            if r.get(comp) is None:
                raise Unclear("null in ordering component")
        out.sort(key=lambda r: r[comp], reverse=(direction == "desc"))
    return out


def order_key(row, order):
    return tuple(row[c] for c, _ in order)


def frame_positions(i, part, spec):
    """positions (in the sorted partition ``part``) of the datapoints in the frame of datapoint i"""
    n = len(part)
    if spec.window is None:
        # no window clause: with an ordering the window runs from the first datapoint of the partition to the
        # current one; without ordering it is the whole partition (RM examples / tests/Analytic: GH_750_8, 2-1-1-29)
        window = ("data", UP, CUR) if spec.order else ("data", UP, UF)
    else:
        window = spec.window
    mode, s, e = window
    if bound_axis(s) > bound_axis(e):
        raise Unclear("frame start after frame end")
    if mode == "data":
        lo = 0 if s[0] == "UP" else (n if s[0] == "UF" else i + bound_axis(s))
        hi = n - 1 if e[0] == "UF" else (-1 if e[0] == "UP" else i + bound_axis(e))
        return [j for j in range(n) if lo <= j <= hi]
    # range mode
    offsets = [b for b in (s, e) if b[0] in ("P", "F")]
    if not spec.order:
        raise Unclear("range frame without ordering")
    if offsets:
        if len(spec.order) != 1:
            raise Unclear("range offsets with more than one ordering component")
        if any(b[1] < 0 for b in offsets):
            raise Unclear("negative range offset")
        comp, direction = spec.order[0]
        sign = -1 if direction == "desc" else 1
        t = [sign * _order_number(r[comp]) for r in part]      # ascending along the ordering
        lo = float("-inf") if s[0] == "UP" else (float("inf") if s[0] == "UF" else t[i] + bound_axis(s))
        hi = float("inf") if e[0] == "UF" else (float("-inf") if e[0] == "UP" else t[i] + bound_axis(e))
        return [j for j in range(n) if lo <= t[j] <= hi]
    # only unbounded / current bounds: "current" means the peers of the current datapoint
    keys = [order_key(r, spec.order) for r in part]
    first_peer = min(j for j in range(n) if keys[j] == keys[i])
    last_peer = max(j for j in range(n) if keys[j] == keys[i])
    lo = 0 if s[0] == "UP" else (n if s[0] == "UF" else first_peer)
    hi = n - 1 if e[0] == "UF" else (-1 if e[0] == "UP" else last_peer)
    return [j for j in range(n) if lo <= j <= hi]


def evaluate(spec, rows, column):
    """-> list of result values, aligned with ``rows`` (column is None for rank)"""
    out = [None] * len(rows)
    partitions = {}
    for idx, r in enumerate(rows):
        partitions.setdefault(tuple(r.get(c) for c in spec.partition), []).append(idx)
    for _, members in partitions.items():
        tagged = [dict(rows[idx], __pos=idx) for idx in members]
        part = sort_partition(tagged, spec.order)
        keys = [order_key(r, spec.order) for r in part]
        ties = len(set(keys)) != len(keys)
        n = len(part)
        fn = spec.fn
        if fn == "rank":
            if not spec.order:
                raise Unclear("rank without ordering")
            for i, r in enumerate(part):
                # 1 + number of datapoints strictly before in the ordering; ties share a rank
                first_peer = min(j for j in range(n) if keys[j] == keys[i])
                out[r["__pos"]] = first_peer + 1
            continue
        if fn == "ratio_to_report":
            vals = [r.get(column) for r in part if r.get(column) is not None]
            total = sum(vals) if vals else None
            for r in part:
                v = r.get(column)
                if v is None or total is None:
                    out[r["__pos"]] = None
                elif total == 0:
                    raise Unclear("ratio_to_report over a partition that sums to zero")
                else:
                    out[r["__pos"]] = v / total
            continue
        if fn in ("lag", "lead"):
            if ties or not spec.order:
                raise Unclear("%s over a non-total ordering" % fn)
            step = -spec.offset if fn == "lag" else spec.offset
            if spec.offset is None or spec.offset < 0:
                raise Unclear("negative offset")
            for i, r in enumerate(part):
                j = i + step
                if 0 <= j < n:
                    out[r["__pos"]] = part[j].get(column)
                else:
                    out[r["__pos"]] = spec.default if spec.has_default else None
            continue
        if fn not in WINDOWED:
            raise ValueError(fn)
        mode = "data" if spec.window is None else spec.window[0]
        whole = spec.window is None and not spec.order
        if not whole:
            if not spec.order:
                raise Unclear("frame without ordering")
            if ties and (mode == "data" or fn not in ORDER_INSENSITIVE):
                raise Unclear("positional frame over a non-total ordering")
        for i, r in enumerate(part):
            pos = frame_positions(i, part, spec)
            out[r["__pos"]] = apply_function(fn, [part[j].get(column) for j in pos])
    return out


# ------------------------------------------------------------------------------------------------------
# the two forms: dataset level  fn(DS over (...))  and component level inside calc
# ------------------------------------------------------------------------------------------------------

def dataset_level(spec, comps, rows):
    """comps: [(name, type, role, ...)] -> (result column names, result rows, names of count columns).
    The function is applied to every measure; identifiers are kept; attributes are dropped.
    count over a single-measure operand yields the measure ``int_var``."""
    ids = [c[0] for c in comps if c[2] == "Identifier"]
    measures = [c[0] for c in comps if c[2] == "Measure"]
    if spec.fn == "rank":
        raise Unclear("rank has no dataset-level form")
    cols = {m: evaluate(spec, rows, m) for m in measures}
    names = dict((m, m) for m in measures)
    count_cols = []
    if spec.fn == "count":
        if len(measures) != 1:
            raise Unclear("count over an operand with several measures")
        names = {measures[0]: "int_var"}
        count_cols = ["int_var"]
    out = []
    for i, r in enumerate(rows):
        o = {k: r.get(k) for k in ids}
        for m in measures:
            o[names[m]] = cols[m][i]
        out.append(o)
    return ids + [names[m] for m in measures], out, count_cols


def calc_level(items, comps, rows):
    """items: [(new component name, Spec, operand component or None)] evaluated on the same operand rows
    (one calc clause) -> (column names, rows, count columns)"""
    names = [c[0] for c in comps]
    res = [dict((k, r.get(k)) for k in names) for r in rows]
    count_cols = []
    computed = []
    for name, spec, operand in items:
        computed.append((name, evaluate(spec, rows, operand)))
        if spec.fn == "count":
            count_cols.append(name)
    for name, col in computed:
        for i, o in enumerate(res):
            o[name] = col[i]
        if name not in names:
            names.append(name)
    return names, res, count_cols


# ------------------------------------------------------------------------------------------------------
# a parser for the analytic subset of VTL scripts (used by the calibration gate only)
# ------------------------------------------------------------------------------------------------------

class Outside(Exception):
    """the script is outside the subset modelled here"""


_TOKEN = re.compile(r'\s*(:=|<-|"[^"]*"|[A-Za-z_][A-Za-z_0-9]*|-?\d+\.\d+|-?\d+|[()\[\],;#])')


def tokenize(text):
    text = re.sub(r"/\*.*?\*/", " ", text, flags=re.S)
    text = re.sub(r"//[^\n]*", " ", text)
    pos, out = 0, []
    text = text.rstrip()
    while pos < len(text):
        m = _TOKEN.match(text, pos)
        if not m:
            raise Outside("cannot tokenize at %r" % text[pos:pos + 20])
        out.append(m.group(1))
        pos = m.end()
    return out


class _Parser:
    def __init__(self, toks):
        self.t, self.i = toks, 0

    def peek(self, k=0):
        return self.t[self.i + k] if self.i + k < len(self.t) else None

    def take(self, expected=None):
        tok = self.peek()
        if tok is None or (expected is not None and tok != expected):
            raise Outside("expected %r, found %r" % (expected, tok))
        self.i += 1
        return tok

    def name(self):
        tok = self.take()
        if not re.fullmatch(r"[A-Za-z_][A-Za-z_0-9]*", tok):
            raise Outside("name expected, found %r" % tok)
        return tok

    def literal(self):
        tok = self.take()
        if re.fullmatch(r"-?\d+", tok):
            return int(tok)
        if re.fullmatch(r"-?\d+\.\d+", tok):
            return float(tok)
        if tok.startswith('"'):
            return tok[1:-1]
        if tok == "null":
            return None
        raise Outside("literal expected, found %r" % tok)

    def integer(self):
        tok = self.take()
        if not re.fullmatch(r"-?\d+", tok):
            raise Outside("integer expected, found %r" % tok)
        return int(tok)

    def bound(self):
        tok = self.take()
        if tok == "current":
            self.take("data")
            self.take("point")
            return CUR
        if tok == "unbounded":
            d = self.take()
            if d not in ("preceding", "following"):
                raise Outside(d)
            return UP if d == "preceding" else UF
        if not re.fullmatch(r"-?\d+", tok):
            raise Outside("bound expected, found %r" % tok)
        d = self.take()
        if d not in ("preceding", "following"):
            raise Outside(d)
        return P(int(tok)) if d == "preceding" else F(int(tok))

    def over(self):
        """'over' '(' clause ')'  -> (partition, order, window)"""
        self.take("over")
        self.take("(")
        partition, order, window = [], [], None
        if self.peek() == "partition":
            self.take()
            self.take("by")           # 'partition except' is outside the subset
            partition.append(self.name())
            while self.peek() == ",":
                self.take()
                partition.append(self.name())
        if self.peek() == "order":
            self.take()
            self.take("by")
            while True:
                c = self.name()
                d = "asc"
                if self.peek() in ("asc", "desc"):
                    d = self.take()
                order.append((c, d))
                if self.peek() != ",":
                    break
                self.take()
        if self.peek() in ("data", "range"):
            mode = self.take()
            if mode == "data":
                self.take("points")
            self.take("between")
            s = self.bound()
            self.take("and")
            e = self.bound()
            window = (mode, s, e)
        self.take(")")
        return partition, order, window

    def call(self):
        """fn '(' [operand [, offset [, default]]] over (...) ')' -> (Spec, operand name or None)"""
        fn = self.take()
        if fn not in FUNCTIONS:
            raise Outside("not an analytic function: %r" % fn)
        self.take("(")
        operand, offset, default, has_default = None, None, None, False
        if fn != "rank":
            operand = self.name()
            if fn in ("lag", "lead"):
                self.take(",")
                offset = self.integer()
                if self.peek() == ",":
                    self.take()
                    default, has_default = self.literal(), True
        partition, order, window = self.over()
        self.take(")")
        if fn in ("lag", "lead", "rank", "ratio_to_report") and window is not None:
            raise Outside("window on %s" % fn)
        return Spec(fn, partition, order, window, offset, default, has_default), operand

    def statement(self):
        target = self.name()
        self.take(self.peek() if self.peek() in (":=", "<-") else ":=")
        if self.peek() in FUNCTIONS and self.peek(1) == "(":
            spec, operand = self.call()
            return {"target": target, "form": "dataset", "operand": operand, "spec": spec}
        operand = self.name()
        clauses = []
        while self.peek() == "[":
            self.take("[")
            self.take("calc")
            items = []
            while True:
                if self.peek() in ("identifier", "measure", "attribute", "viral"):
                    raise Outside("role in calc")
                new = self.name()
                self.take(":=")
                spec, comp = self.call()
                items.append((new, spec, comp))
                if self.peek() != ",":
                    break
                self.take()
            self.take("]")
            clauses.append(items)
        if not clauses:
            raise Outside("no calc clause")
        return {"target": target, "form": "calc", "operand": operand, "clauses": clauses}


def parse_script(text):
    """-> list of statements, or raises Outside"""
    p = _Parser(tokenize(text))
    stmts = []
    while p.peek() is not None:
        stmts.append(p.statement())
        if p.peek() == ";":
            p.take()
        elif p.peek() is not None:
            raise Outside("trailing %r" % p.peek())
    if not stmts:
        raise Outside("empty script")
    return stmts


def run_statement(stmt, comps, rows):
    """evaluate a parsed statement on (comps, rows) -> (column names, rows, count columns, skipped columns).
    For calc clauses a column whose semantics are unclear is reported in ``skipped`` and left out."""
    if stmt["form"] == "dataset":
        names, out, cc = dataset_level(stmt["spec"], comps, rows)
        return names, out, cc, []
    comps = [tuple(c) for c in comps]
    skipped, count_cols = [], []
    names = [c[0] for c in comps]
    for items in stmt["clauses"]:
        good = []
        for new, spec, operand in items:
            try:
                evaluate(spec, rows, operand)
                good.append((new, spec, operand))
            except Unclear:
                skipped.append(new)
        names, rows, cc = calc_level(good, comps, rows)
        count_cols += cc
        have = set(c[0] for c in comps)
        comps = comps + [(n, "Number", "Measure") for n in names if n not in have]
    return [n for n in names], rows, count_cols, skipped

"""Reference evaluator for VTL aggregate invocations (check C03).  Written from the VTL 2.1 reference manual
(Aggregate invocation; count, min, max, median, sum, avg, stddev_pop, stddev_samp, var_pop, var_samp; the aggr
clause; group by / group except / group all; having).  Plain Python over lists of dicts, `statistics` and `fractions`;
shares no code with the engine.

A statement is a dict:
    form       "dataset"   op(DS group ... having ...)
               "aggr"      DS[aggr T1 := op1(C1), T2 := op2(C2) ... group ... having ...]
    op         the operator (dataset form)
    items      [(target, op, component or None)]                       (aggr form; component None only for count())
    grouping   None | ("by", [ids]) | ("except", [ids]) | ("all", period or None)
               ("by", [ids], period): group by ids time_agg(period)    (the time identifier joins the grouping, converted)
    having     None | condition:  ("cmp", op, x, y) | ("and", x, y) | ("or", x, y) | ("not", x) |
               ("agg", op, component or None) | ("const", value)

Semantics modelled
    * the datapoints are partitioned on the grouping identifiers; no grouping clause = one group, no identifiers;
      group except = all identifiers but the listed ones; group all time_agg(P) = all identifiers, the time identifier
      converted to the period P;  exactly one result datapoint per group
    * dataset form: the operator is applied to every measure (count: one measure int_var); attributes are dropped
    * null values are ignored; a group without a non-null value gives null (count: 0, where null is accepted too);
      stddev_samp / var_samp of one value -> null; stddev_pop / var_pop of one value -> 0
    * median of an even number of values = mean of the two middle values (RM144)
    * count() = number of datapoints of the group with a non-null measure; with several measures whose null patterns
      differ inside a group the reading is not crisp -> Unclear
    * having keeps exactly the groups whose condition is true (false and null drop the group); three-valued and/or/not
"""
import math
import re
import statistics
from fractions import Fraction

OPS = ("sum", "avg", "count", "min", "max", "median", "stddev_pop", "stddev_samp", "var_pop", "var_samp")
NUMERIC_ONLY = ("sum", "avg", "median", "stddev_pop", "stddev_samp", "var_pop", "var_samp")
ID, ME = "Identifier", "Measure"
DURATION_ORDER = {"D": 1, "W": 2, "M": 3, "Q": 4, "S": 5, "A": 6}


class Outside(Exception):
    """outside the modelled subset"""


class Unclear(Exception):
    """inside the syntax subset, but the reference manual gives no crisp answer"""


# ------------------------------------------------------------------------------------------------------------
# time periods (only what grouping by time_agg and min / max need)
# ------------------------------------------------------------------------------------------------------------

_PERIOD = [
    (re.compile(r"^(\d{4})$"), lambda m: (int(m.group(1)), "A", 1)),
    (re.compile(r"^(\d{4})-?A1?$"), lambda m: (int(m.group(1)), "A", 1)),
    (re.compile(r"^(\d{4})-?([SQMWD])(\d{1,3})$"), lambda m: (int(m.group(1)), m.group(2), int(m.group(3)))),
    (re.compile(r"^(\d{4})-(\d{2})$"), lambda m: (int(m.group(1)), "M", int(m.group(2)))),
]
_WIDTH = {"A": 0, "S": 1, "Q": 1, "M": 2, "W": 2, "D": 3}


def parse_period(text):
    for rx, fn in _PERIOD:
        m = rx.match(str(text).strip())
        if m:
            return fn(m)
    raise Outside("period spelling %r" % (text,))


def format_period(p):
    year, ind, num = p
    if ind == "A":
        return "%04dA" % year
    return "%04d%s%0*d" % (year, ind, _WIDTH[ind], num)


def norm_period(text):
    """canonical spelling of a period (2020 = 2020A, 2020-M02 = 2020M2 = 2020M02); other text unchanged"""
    if text is None:
        return None
    try:
        return format_period(parse_period(text))
    except Outside:
        return text


def convert_period(p, target):
    year, ind, num = p
    if DURATION_ORDER[target] < DURATION_ORDER[ind]:
        raise Unclear("time_agg to a shorter period")
    if target == ind:
        return p
    if target == "A":
        return (year, "A", 1)
    if ind == "M" and target == "Q":
        return (year, "Q", (num - 1) // 3 + 1)
    if ind == "M" and target == "S":
        return (year, "S", (num - 1) // 6 + 1)
    if ind == "Q" and target == "S":
        return (year, "S", (num - 1) // 2 + 1)
    raise Outside("time_agg %s -> %s" % (ind, target))


# ------------------------------------------------------------------------------------------------------------
# the aggregate functions over the non-null values of a group
# ------------------------------------------------------------------------------------------------------------

def _num(v):
    if isinstance(v, bool):
        raise Outside("boolean in a numeric aggregate")
    return Fraction(v)


def order_key(v, type_):
    if type_ in ("Integer", "Number"):
        return _num(v)
    if type_ == "Boolean":
        return 1 if v else 0
    if type_ == "Duration":
        return DURATION_ORDER[v]
    if type_ == "Time_Period":
        return parse_period(v)
    return str(v)                       # String (code point order), Date (ISO text)


def aggregate(op, values, type_):
    """values: the values of one component in one group (nulls included) -> result (None = null)"""
    vals = [v for v in values if v is not None]
    if op == "count":
        return len(vals)
    if not vals:
        return None
    if op in ("min", "max"):
        if type_ == "Time_Period" and len(set(parse_period(v)[1] for v in vals)) > 1:
            raise Unclear("min / max over periods of different frequency")
        pick = min if op == "min" else max
        best = pick(vals, key=lambda v: order_key(v, type_))
        return norm_period(best) if type_ == "Time_Period" else best
    if type_ not in ("Integer", "Number"):
        raise Outside("%s over %s" % (op, type_))
    nums = [_num(v) for v in vals]
    if op == "sum":
        s = sum(nums, Fraction(0))
        return int(s) if type_ == "Integer" else float(s)
    if op == "avg":
        return float(statistics.mean(nums))
    if op == "median":
        return float(statistics.median(nums))
    if op == "var_pop":
        return float(statistics.pvariance(nums))
    if op == "stddev_pop":
        return math.sqrt(float(statistics.pvariance(nums)))
    if len(nums) < 2:
        return None
    if op == "var_samp":
        return float(statistics.variance(nums))
    if op == "stddev_samp":
        return math.sqrt(float(statistics.variance(nums)))
    raise Outside("operator %r" % op)


def count_datapoints(group_rows, measures):
    """count(): datapoints with a non-null measure; Unclear if the readings differ for a multi-measure operand"""
    if not measures:
        return len(group_rows)
    any_ = sum(1 for r in group_rows if any(r.get(m) is not None for m in measures))
    all_ = sum(1 for r in group_rows if all(r.get(m) is not None for m in measures))
    if any_ != all_:
        raise Unclear("count() over measures with different null patterns")
    return any_


# ------------------------------------------------------------------------------------------------------------
# three-valued conditions (having)
# ------------------------------------------------------------------------------------------------------------

def k_and(a, b):
    if a is False or b is False:
        return False
    if a is None or b is None:
        return None
    return True


def k_or(a, b):
    if a is True or b is True:
        return True
    if a is None or b is None:
        return None
    return False


def k_not(a):
    return None if a is None else (not a)


def eval_cond(cond, group_rows, types, measures):
    tag = cond[0]
    if tag == "const":
        return cond[1]
    if tag == "agg":
        op, comp = cond[1], cond[2]
        if comp is None:
            if op != "count":
                raise Outside("%s() without operand" % op)
            return count_datapoints(group_rows, measures)
        return aggregate(op, [r.get(comp) for r in group_rows], types[comp])
    if tag == "and":
        return k_and(eval_cond(cond[1], group_rows, types, measures), eval_cond(cond[2], group_rows, types, measures))
    if tag == "or":
        return k_or(eval_cond(cond[1], group_rows, types, measures), eval_cond(cond[2], group_rows, types, measures))
    if tag == "not":
        return k_not(eval_cond(cond[1], group_rows, types, measures))
    if tag == "cmp":
        a = eval_cond(cond[2], group_rows, types, measures)
        b = eval_cond(cond[3], group_rows, types, measures)
        if a is None or b is None:
            return None
        return {"=": a == b, "<>": a != b, "<": a < b, "<=": a <= b, ">": a > b, ">=": a >= b}[cond[1]]
    raise Outside("condition %r" % (tag,))


def cond_aggregates(cond):
    if cond[0] == "agg":
        return [cond]
    out = []
    for x in cond[1:]:
        if isinstance(x, tuple):
            out += cond_aggregates(x)
    return out


# ------------------------------------------------------------------------------------------------------------
# evaluation of one statement
# ------------------------------------------------------------------------------------------------------------

def grouping_ids(stmt, comps):
    """-> (grouping identifier names in operand order, time identifier or None, target period or None)"""
    ids = [c[0] for c in comps if c[2] == ID]
    g = stmt.get("grouping")
    if g is None:
        return [], None, None
    time_ids = [c[0] for c in comps if c[2] == ID and c[1] in ("Time_Period", "Date")]
    if g[0] == "by":
        names = list(g[1])
        for n in names:
            if n not in ids:
                raise Outside("grouping on a non-identifier %r" % n)
        period = g[2] if len(g) > 2 else None
        if period is not None:
            if len(time_ids) != 1:
                raise Outside("time_agg needs exactly one time identifier")
            if time_ids[0] not in names:
                names.append(time_ids[0])
            return [i for i in ids if i in names], time_ids[0], period
        return [i for i in ids if i in names], None, None
    if g[0] == "except":
        for n in g[1]:
            if n not in ids:
                raise Outside("grouping on a non-identifier %r" % n)
        return [i for i in ids if i not in g[1]], None, None
    if g[0] == "all":
        if g[1] is None:
            return [], None, None
        if len(time_ids) != 1:
            raise Outside("group all needs exactly one time identifier")
        return ids, time_ids[0], g[1]
    raise Outside("grouping %r" % (g,))


def partition(stmt, comps, rows):
    """-> (grouping ids, ordered {group key tuple: [rows]})"""
    gids, time_id, period = grouping_ids(stmt, comps)
    types = {c[0]: c[1] for c in comps}
    groups = {}
    for r in rows:
        key = []
        for i in gids:
            v = r[i]
            if i == time_id:
                if types[i] != "Time_Period":
                    raise Outside("time_agg over a Date identifier")
                v = format_period(convert_period(parse_period(v), period))
            key.append(v)
        groups.setdefault(tuple(key), []).append(r)
    if not gids and not groups:
        groups[()] = []                 # no grouping: a single group, even when the operand is empty
    return gids, groups


def evaluate(stmt, comps, rows):
    """-> dict(ids, cols, rows, count_cols, groups={key: [rows]}, kept={key: bool|None})"""
    types = {c[0]: c[1] for c in comps}
    measures = [c[0] for c in comps if c[2] == ME]
    gids, groups = partition(stmt, comps, rows)
    if stmt["form"] == "dataset":
        op = stmt["op"]
        if op == "count":
            items = [("int_var", "count", None)]
        else:
            if not measures and op not in ("min", "max"):
                raise Outside("%s over an operand without measures" % op)
            items = [(m, op, m) for m in measures]
    else:
        items = list(stmt["items"])
    scope = measures
    having = stmt.get("having")
    if having is not None and stmt.get("grouping") is None:
        raise Outside("having without grouping")
    out_rows, kept = [], {}
    for key, grows in groups.items():
        if having is not None:
            verdict = eval_cond(having, grows, types, scope)
            kept[key] = verdict
            if verdict is not True:
                continue
        else:
            kept[key] = True
        r = dict(zip(gids, key))
        for target, op, comp in items:
            if comp is None:
                if op != "count":
                    raise Outside("%s() without operand" % op)
                r[target] = count_datapoints(grows, scope)
            else:
                if comp not in types:
                    raise Outside("component %r" % comp)
                r[target] = aggregate(op, [x.get(comp) for x in grows], types[comp])
        out_rows.append(r)
    count_cols = [t for t, op, _ in items if op == "count"]
    return {"ids": gids, "cols": [t for t, _, _ in items], "rows": out_rows, "count_cols": count_cols, "groups": groups, "kept": kept}


# ------------------------------------------------------------------------------------------------------------
# rendering
# ------------------------------------------------------------------------------------------------------------

def render_cond(c):
    tag = c[0]
    if tag == "const":
        v = c[1]
        return ("true" if v else "false") if isinstance(v, bool) else ('"%s"' % v if isinstance(v, str) else repr(v))
    if tag == "agg":
        return "%s(%s)" % (c[1], c[2] or "")
    if tag == "not":
        return "not (%s)" % render_cond(c[1])
    if tag in ("and", "or"):
        return "(%s) %s (%s)" % (render_cond(c[1]), tag, render_cond(c[2]))
    return "%s %s %s" % (render_cond(c[2]), c[1], render_cond(c[3]))


def render_grouping(stmt):
    g = stmt.get("grouping")
    text = ""
    if g is not None:
        if g[0] == "by":
            text = " group by " + ", ".join(g[1]) + (' time_agg("%s")' % g[2] if len(g) > 2 and g[2] else "")
        elif g[0] == "except":
            text = " group except " + ", ".join(g[1])
        else:
            text = " group all" + (' time_agg("%s")' % g[1] if g[1] else "")
    if stmt.get("having") is not None:
        text += " having " + render_cond(stmt["having"])
    return text


def render(stmt, operand="DS_1"):
    if stmt["form"] == "dataset":
        return "%s(%s%s)" % (stmt["op"], operand, render_grouping(stmt))
    items = ", ".join("%s := %s(%s)" % (t, op, comp or "") for t, op, comp in stmt["items"])
    return "%s[aggr %s%s]" % (operand, items, render_grouping(stmt))


# ------------------------------------------------------------------------------------------------------------
# a parser for the stored scripts of the calibration corpus
#   NAME (:=|<-) op ( operand [grouping] [having] ) ;      NAME (:=|<-) operand [ aggr items [grouping] [having] ] ;
#   operand = NAME [# NAME] { [filter C = const] | [rename a to b, ...] | [drop ...] | [keep ...] }
# ------------------------------------------------------------------------------------------------------------

_TOKEN = re.compile(r"\s*(:=|<-|<>|<=|>=|'[^']*'|[A-Za-z_][A-Za-z0-9_.]*|-?\d+\.\d+|-?\d+|\"[^\"]*\"|[()\[\],;=<>#])")


def tokenize(text):
    text = re.sub(r"/\*.*?\*/", " ", text, flags=re.S)
    text = re.sub(r"//[^\n]*", " ", text)
    text = text.rstrip()
    pos, out = 0, []
    while pos < len(text):
        m = _TOKEN.match(text, pos)
        if not m:
            raise Outside("cannot tokenise at %r" % text[pos:pos + 20])
        out.append(m.group(1))
        pos = m.end()
    return out


def _name(tok):
    if tok is None:
        raise Outside("name expected")
    if tok.startswith("'"):
        return tok[1:-1]
    if not re.match(r"[A-Za-z_]", tok):
        raise Outside("name expected, found %r" % tok)
    return tok


def _literal(tok):
    if tok.startswith('"'):
        return tok[1:-1]
    if re.match(r"-?\d+$", tok):
        return int(tok)
    if re.match(r"-?\d+\.\d+$", tok):
        return float(tok)
    if tok in ("true", "false"):
        return tok == "true"
    raise Outside("literal %r" % tok)


class _Parser:
    def __init__(self, toks):
        self.t, self.i = toks, 0

    def peek(self, k=0):
        return self.t[self.i + k] if self.i + k < len(self.t) else None

    def take(self, expected=None):
        tok = self.peek()
        if tok is None or (expected is not None and tok != expected):
            raise Outside("expected %r, found %r" % (expected, tok))
        self.i += 1
        return tok

    def names(self):
        out = [_name(self.take())]
        while self.peek() == ",":
            self.take(",")
            out.append(_name(self.take()))
        return out

    def operand(self):
        node = {"name": _name(self.take()), "clauses": []}
        if self.peek() == "#":
            self.take("#")
            node["clauses"].append(("member", _name(self.take())))
        while self.peek() == "[" and self.peek(1) in ("filter", "rename", "drop", "keep"):
            self.take("[")
            kind = self.take()
            if kind == "filter":
                comp = _name(self.take())
                cmp = self.take()
                if cmp not in ("=", "<>", "<", "<=", ">", ">="):
                    raise Outside("filter condition")
                node["clauses"].append(("filter", comp, cmp, _literal(self.take())))
            elif kind == "rename":
                pairs = []
                while True:
                    a = _name(self.take())
                    self.take("to")
                    pairs.append((a, _name(self.take())))
                    if self.peek() != ",":
                        break
                    self.take(",")
                node["clauses"].append(("rename", pairs))
            else:
                node["clauses"].append((kind, self.names()))
            self.take("]")
        return node

    def time_agg(self):
        self.take("time_agg")
        self.take("(")
        tok = self.take()
        if not tok.startswith('"'):
            raise Outside("time_agg period given by a scalar")
        if self.peek() == ",":
            self.take(",")
            if self.take() not in ("first", "last"):       # no effect on a Time_Period identifier
                raise Outside("time_agg parameters")
        self.take(")")
        return tok[1:-1]

    def grouping(self):
        g = None
        if self.peek() == "group":
            self.take("group")
            kind = self.take()
            if kind == "all":
                g = ("all", self.time_agg() if self.peek() == "time_agg" else None)
            elif kind in ("by", "except"):
                names = self.names()
                if self.peek() == "time_agg":
                    if kind != "by":
                        raise Outside("group except with time_agg")
                    g = ("by", names, self.time_agg())
                else:
                    g = (kind, names)
            else:
                raise Outside("grouping %r" % kind)
        h = None
        if self.peek() == "having":
            self.take("having")
            h = self.cond_or()
        return g, h

    def cond_or(self):
        left = self.cond_and()
        while self.peek() == "or":
            self.take("or")
            left = ("or", left, self.cond_and())
        return left

    def cond_and(self):
        left = self.cond_not()
        while self.peek() == "and":
            self.take("and")
            left = ("and", left, self.cond_not())
        return left

    def cond_not(self):
        if self.peek() == "not":
            self.take("not")
            return ("not", self.cond_not())
        left = self.cond_atom()
        if self.peek() in ("=", "<>", "<", "<=", ">", ">="):
            op = self.take()
            return ("cmp", op, left, self.cond_atom())
        return left

    def cond_atom(self):
        tok = self.peek()
        if tok == "(":
            self.take("(")
            c = self.cond_or()
            self.take(")")
            return c
        if tok in OPS and self.peek(1) == "(":
            self.take()
            self.take("(")
            comp = None
            if self.peek() != ")":
                comp = _name(self.take())
            self.take(")")
            return ("agg", tok, comp)
        return ("const", _literal(self.take()))

    def statement(self):
        target = _name(self.take())
        if self.take() not in (":=", "<-"):
            raise Outside("not an assignment")
        if self.peek() in OPS and self.peek(1) == "(":
            op = self.take()
            self.take("(")
            operand = self.operand()
            g, h = self.grouping()
            self.take(")")
            stmt = {"form": "dataset", "op": op, "grouping": g, "having": h}
        else:
            operand = self.operand()
            self.take("[")
            self.take("aggr")
            items = []
            while True:
                t = _name(self.take())
                self.take(":=")
                op = self.take()
                if op not in OPS:
                    raise Outside("aggr item %r" % op)
                self.take("(")
                comp = None
                if self.peek() != ")":
                    comp = _name(self.take())
                    if self.peek() != ")":
                        raise Outside("aggregate over an expression")
                self.take(")")
                items.append((t, op, comp))
                if self.peek() != ",":
                    break
                self.take(",")
            g, h = self.grouping()
            self.take("]")
            stmt = {"form": "aggr", "items": items, "grouping": g, "having": h}
        post = []
        while self.peek() == "[" and self.peek(1) == "rename":
            self.take("[")
            self.take("rename")
            pairs = []
            while True:
                a = _name(self.take())
                self.take("to")
                pairs.append((a, _name(self.take())))
                if self.peek() != ",":
                    break
                self.take(",")
            self.take("]")
            post.append(pairs)
        if self.peek() == ";":
            self.take(";")
        stmt.update(target=target, operand=operand, post_rename=post)
        return stmt


def parse_script(text):
    p = _Parser(tokenize(text))
    out = []
    while p.peek() is not None:
        out.append(p.statement())
    if not out:
        raise Outside("empty script")
    return out


def apply_clauses(comps, rows, clauses):
    """the operand clauses of the calibration subset -> (comps, rows)"""
    comps = [tuple(c) for c in comps]
    rows = [dict(r) for r in rows]
    for cl in clauses:
        names = [c[0] for c in comps]
        if cl[0] == "member":
            if cl[1] not in names:
                raise Outside("component %r" % cl[1])
            role = [c[2] for c in comps if c[0] == cl[1]][0]
            if role != ME:
                raise Outside("membership on a non-measure")
            comps = [c for c in comps if c[2] == ID or c[0] == cl[1]]
        elif cl[0] == "filter":
            _, comp, cmp, lit = cl
            if comp not in names:
                raise Outside("component %r" % comp)
            keep = []
            for r in rows:
                v = r.get(comp)
                if v is None:
                    continue
                if isinstance(lit, str) != isinstance(v, str):
                    raise Outside("filter comparing different types")
                if {"=": v == lit, "<>": v != lit, "<": v < lit, "<=": v <= lit, ">": v > lit, ">=": v >= lit}[cmp]:
                    keep.append(r)
            rows = keep
        elif cl[0] == "rename":
            m = dict(cl[1])
            for a in m:
                if a not in names:
                    raise Outside("component %r" % a)
            comps = [(m.get(c[0], c[0]),) + tuple(c[1:]) for c in comps]
            rows = [{m.get(k, k): v for k, v in r.items()} for r in rows]
        elif cl[0] == "drop":
            if any(n not in names or [c[2] for c in comps if c[0] == n][0] == ID for n in cl[1]):
                raise Outside("drop of an identifier / unknown component")
            comps = [c for c in comps if c[0] not in cl[1]]
        elif cl[0] == "keep":
            if any(n not in names or [c[2] for c in comps if c[0] == n][0] == ID for n in cl[1]):
                raise Outside("keep of an identifier / unknown component")
            comps = [c for c in comps if c[2] == ID or c[0] in cl[1]]
        keepn = set(c[0] for c in comps)
        rows = [{k: v for k, v in r.items() if k in keepn} for r in rows]
    return comps, rows

"""Shared base for the reference-evaluator checks (O4, DESIGN §3): tiny dataset algebra helpers, running a
script on in-memory datasets, comparing the engine's datapoints with expected ones, and the calibration gate
over expectations stored in the repository (Reference-Manual examples and the operator test directories).

The reference evaluators themselves live next to their checks (vtlmc/ref_*.py) and must share no code with the
engine: plain Python over lists of dicts, three-valued logic with None.
"""
import glob
import json
import math
import os

from vtlmc import harness

ID, ME, AT, VAT = "Identifier", "Measure", "Attribute", "ViralAttribute"


class DS:
    """a dataset value: ordered components [(name, type, role, nullable)], rows as list of dicts"""

    def __init__(self, name, comps, rows):
        self.name = name
        self.comps = [(c[0], c[1], c[2], (c[3] if len(c) > 3 else c[2] != ID)) for c in comps]
        self.rows = [dict(r) for r in rows]

    def names(self, role=None):
        return [c[0] for c in self.comps if role is None or c[2] == role]

    def ids(self):
        return self.names(ID)

    def measures(self):
        return self.names(ME)

    def structure(self):
        return {"name": self.name, "DataStructure": [{"name": n, "type": t, "role": r, "nullable": nl} for n, t, r, nl in self.comps]}

    def frame(self):
        import pandas as pd
        dt = {"Integer": "Int64", "Boolean": "boolean", "Number": "Float64"}
        data = {}
        for n, t, _, _ in self.comps:
            vals = [r.get(n) for r in self.rows]
            if t in dt:
                col = pd.array(vals, dtype=dt[t])
                data[n] = pd.Series(col).astype("float64") if t == "Number" else pd.Series(col)
            else:
                data[n] = pd.Series(vals, dtype="object")
        return pd.DataFrame(data, columns=[c[0] for c in self.comps])


def run(script, dss, scalars=None, **kw):
    """run a script on in-memory datasets -> harness.call tuple"""
    V = harness.boot()
    structs = {"datasets": [d.structure() for d in dss]}
    if scalars:
        structs["scalars"] = [{"name": n, "type": t} for n, (t, _) in scalars.items()]
        kw["scalar_values"] = {n: v for n, (_, v) in scalars.items()}
    return harness.call(V.run, script, structs, {d.name: d.frame() for d in dss}, **kw)


def semantic(script, dss):
    V = harness.boot()
    return harness.call(V.semantic_analysis, script, {"datasets": [d.structure() for d in dss]})


def result_rows(dataset):
    return harness.dataset_rows(dataset)


def val_eq(a, b, rel=1e-9):
    if isinstance(a, float) and math.isnan(a):
        a = None
    if isinstance(b, float) and math.isnan(b):
        b = None
    if isinstance(a, bool) or isinstance(b, bool):
        return a is b or (a is not None and b is not None and bool(a) == bool(b) and isinstance(a, (bool, int)) and isinstance(b, (bool, int)))
    return harness.num_eq(a, b, rel)


def compare(got_rows, exp_rows, ids, cols=None, rel=1e-9):
    """-> list of (kind, key, detail): missing-datapoint / extra-datapoint / wrong-value / duplicate-identifiers"""
    diffs = []

    def k(r):
        return tuple(harness.canon_value(r.get(i)) for i in ids)
    g, e = {}, {}
    for r in got_rows:
        if k(r) in g:
            diffs.append(("duplicate-identifiers", k(r), None))
        g[k(r)] = r
    for r in exp_rows:
        e[k(r)] = r
    for key in e:
        if key not in g:
            diffs.append(("missing-datapoint", key, e[key]))
    for key in g:
        if key not in e:
            diffs.append(("extra-datapoint", key, g[key]))
    for key in e:
        if key in g:
            cs = cols if cols is not None else [c for c in e[key] if c not in ids]
            for c in cs:
                if c not in g[key]:
                    diffs.append(("missing-column", key, c))
                elif not val_eq(harness.canon_value(g[key][c]), harness.canon_value(e[key][c]), rel):
                    diffs.append(("wrong-value", key, (c, g[key][c], e[key][c])))
    return diffs


# ---------------------------------------------------------------------------------------------------
# calibration corpus: (script, input datasets, expected outputs) triples stored in the repository
# ---------------------------------------------------------------------------------------------------

TYPE_ALIASES = {"Time": "Time", "TimeInterval": "Time", "TimePeriod": "Time_Period"}


def _load_ds(struct_path, data_path):
    import pandas as pd
    out = []
    with open(struct_path, encoding="utf-8") as f:
        st = json.load(f)
    for d in st.get("datasets", []):
        comps = [(c["name"], c.get("type", c.get("data_type")), c["role"], c.get("nullable", c["role"] != ID)) for c in d["DataStructure"]]
        rows = []
        if data_path and os.path.exists(data_path):
            df = pd.read_csv(data_path, dtype=str, keep_default_na=False, na_values=[""])
            for r in df.to_dict("records"):
                rows.append({k: (None if (isinstance(v, float) and math.isnan(v)) else v) for k, v in r.items()})
        out.append(DS(d["name"], comps, rows))
    return out


def typed(ds):
    """convert CSV text cells to Python values by component type"""
    conv = {"Integer": lambda v: int(float(v)), "Number": float, "Boolean": lambda v: str(v).strip().lower() in ("true", "1")}
    for r in ds.rows:
        for n, t, _, _ in ds.comps:
            v = r.get(n)
            if v is not None and t in conv:
                try:
                    r[n] = conv[t](v)
                except (TypeError, ValueError):
                    pass
    return ds


def reference_manual_cases(numbers=None):
    """yield (number, script, [input DS], {name: expected DS}) for the Reference-Manual examples in tests/"""
    base = os.path.join(harness.REPO, "tests", "ReferenceManual", "data")
    for vtl in sorted(glob.glob(os.path.join(base, "vtl", "RM*.vtl"))):
        num = int(os.path.basename(vtl)[2:5])
        if numbers is not None and num not in numbers:
            continue
        script = open(vtl, encoding="utf-8").read()
        ins, outs = [], {}
        for sp in sorted(glob.glob(os.path.join(base, "DataStructure", "input", "%d-*.json" % num))):
            tag = os.path.basename(sp)[:-5]
            for d in _load_ds(sp, os.path.join(base, "DataSet", "input", tag + ".csv")):
                ins.append(typed(d))
        for sp in sorted(glob.glob(os.path.join(base, "DataStructure", "output", "%d-*.json" % num))):
            tag = os.path.basename(sp)[:-5]
            for d in _load_ds(sp, os.path.join(base, "DataSet", "output", tag + ".csv")):
                outs[d.name] = typed(d)
        if ins and outs:
            yield num, script, ins, outs

"""Reference evaluator for the VTL set operators (check C05).  Written from the VTL 2.1 reference manual
(Set operators: union, intersect, setdiff, symdiff); the property statement *is* the model.  Plain Python over
lists of dicts; shares no code with the engine.

Expressions (mini-AST):
    ("ds", name)                                   an input dataset
    ("filter", expr, (component, cmp, constant))   expr[filter component cmp constant]
    ("union" | "intersect" | "setdiff" | "symdiff", [expr, ...])

Semantics (datapoints are matched on the identifier components only):
    union      one datapoint per key present in any operand, taken from the first (leftmost) operand that has it
    intersect  the datapoints of the first operand whose key is present in every other operand
    setdiff    the datapoints of the first operand whose key is absent from the second
    symdiff    the datapoints of the first operand whose key is absent from the second, and the datapoints of the
               second whose key is absent from the first
"""
import re

SETOPS = ("union", "intersect", "setdiff", "symdiff")


class Outside(Exception):
    """the script is outside the modelled subset"""


def key_of(row, ids):
    return tuple(row[i] for i in ids)


def compare_values(a, cmp, b):
    """three-valued comparison: None if an operand is null"""
    if a is None or b is None:
        return None
    if cmp == "=":
        return a == b
    if cmp == "<>":
        return a != b
    if cmp == "<":
        return a < b
    if cmp == "<=":
        return a <= b
    if cmp == ">":
        return a > b
    if cmp == ">=":
        return a >= b
    raise Outside("comparison %r" % cmp)


def evaluate(expr, env, ids):
    """env: name -> list of row dicts; ids: the identifier names (equal in all operands) -> list of row dicts"""
    tag = expr[0]
    if tag == "ds":
        return [dict(r) for r in env[expr[1]]]
    if tag == "filter":
        comp, cmp, const = expr[2]
        out = []
        for r in evaluate(expr[1], env, ids):
            if compare_values(r[comp], cmp, const) is True:          # false and null drop the datapoint
                out.append(r)
        return out
    operands = [evaluate(e, env, ids) for e in expr[1]]
    if tag == "union":
        seen, out = set(), []
        for rows in operands:
            for r in rows:
                k = key_of(r, ids)
                if k not in seen:
                    seen.add(k)
                    out.append(r)
        return out
    if tag == "intersect":
        out = []
        for r in operands[0]:
            k = key_of(r, ids)
            everywhere = True
            for other in operands[1:]:
                found = False
                for s in other:
                    if key_of(s, ids) == k:
                        found = True
                        break
                if not found:
                    everywhere = False
                    break
            if everywhere:
                out.append(r)
        return out
    if tag in ("setdiff", "symdiff"):
        if len(operands) != 2:
            raise Outside("%s takes two operands" % tag)
        first, second = operands
        k1 = set(key_of(r, ids) for r in first)
        k2 = set(key_of(r, ids) for r in second)
        out = [r for r in first if key_of(r, ids) not in k2]
        if tag == "symdiff":
            out += [r for r in second if key_of(r, ids) not in k1]
        return out
    raise Outside("operator %r" % tag)


def render(expr):
    tag = expr[0]
    if tag == "ds":
        return expr[1]
    if tag == "filter":
        comp, cmp, const = expr[2]
        lit = '"%s"' % const if isinstance(const, str) else repr(const)
        return "%s[filter %s %s %s]" % (render(expr[1]), comp, cmp, lit)
    return "%s(%s)" % (tag, ", ".join(render(e) for e in expr[1]))


def datasets_of(expr):
    if expr[0] == "ds":
        return [expr[1]]
    if expr[0] == "filter":
        return datasets_of(expr[1])
    out = []
    for e in expr[1]:
        for n in datasets_of(e):
            if n not in out:
                out.append(n)
    return out


# ------------------------------------------------------------------------------------------------------------
# a tiny parser for the stored scripts of the calibration corpus:   NAME (:=|<-) expr ;
# ------------------------------------------------------------------------------------------------------------

_TOKEN = re.compile(r"\s*(:=|<-|<>|<=|>=|[A-Za-z_][A-Za-z0-9_.]*|-?\d+\.\d+|-?\d+|\"[^\"]*\"|[()\[\],;=<>])")


def tokenize(text):
    text = re.sub(r"/\*.*?\*/", " ", text, flags=re.S)
    text = re.sub(r"//[^\n]*", " ", text)
    pos, out = 0, []
    text = text.rstrip()
    while pos < len(text):
        m = _TOKEN.match(text, pos)
        if not m:
            raise Outside("cannot tokenise at %r" % text[pos:pos + 20])
        out.append(m.group(1))
        pos = m.end()
    return out


class _Parser:
    def __init__(self, toks):
        self.t, self.i = toks, 0

    def peek(self):
        return self.t[self.i] if self.i < len(self.t) else None

    def take(self, expected=None):
        tok = self.peek()
        if tok is None or (expected is not None and tok != expected):
            raise Outside("expected %r, found %r" % (expected, tok))
        self.i += 1
        return tok

    def expr(self):
        tok = self.take()
        if tok in SETOPS and self.peek() == "(":
            self.take("(")
            args = [self.expr()]
            while self.peek() == ",":
                self.take(",")
                args.append(self.expr())
            self.take(")")
            node = (tok, args)
        elif re.match(r"[A-Za-z_]", tok):
            node = ("ds", tok)
        else:
            raise Outside("operand %r" % tok)
        while self.peek() == "[":
            self.take("[")
            if self.take() != "filter":
                raise Outside("clause other than filter")
            comp = self.take()
            cmp = self.take()
            lit = self.take()
            if cmp not in ("=", "<>", "<", "<=", ">", ">="):
                raise Outside("filter condition")
            if lit.startswith('"'):
                const = lit[1:-1]
            elif re.match(r"-?\d+$", lit):
                const = int(lit)
            elif re.match(r"-?\d+\.\d+$", lit):
                const = float(lit)
            else:
                raise Outside("filter constant %r" % lit)
            self.take("]")
            node = ("filter", node, (comp, cmp, const))
        return node


def parse_script(text):
    """-> [(target, expr)]"""
    p = _Parser(tokenize(text))
    out = []
    while p.peek() is not None:
        target = p.take()
        if p.take() not in (":=", "<-"):
            raise Outside("not an assignment")
        e = p.expr()
        if e[0] not in SETOPS:
            raise Outside("no set operator at the top of the statement")
        p.take(";") if p.peek() == ";" else None
        out.append((target, e))
    if not out:
        raise Outside("empty script")
    return out

"""Reference evaluator for the VTL clause operators (oracle O4 of DESIGN.md, properties C02 and C29).

Plain Python over lists of dicts, three-valued logic with ``None``; written from the VTL 2.1 reference manual
(sections "Filtering Data Points: filter", "Calculation of a Component: calc", "Maintaining Components: keep",
"Removal of Components: drop", "Change of Component name: rename", "Subspace: sub", "Join", and the operator pages of
the element-wise operators that the clause alphabets use).  Nothing under /repo is imported: no code is shared with
the engine.  Names are compared with ``==`` everywhere, i.e. they are case-sensitive.

The module contains
  * a tokenizer / recursive-descent parser for the subset of VTL text the checks generate and the calibration
    corpus uses (anything else raises ``NotModelled`` - the case is then outside the evaluator's subset),
  * structure rules (``clause_structure``): which clause is well-typed on which structure, and the structure it
    produces (the generator of C02 walks chains with it),
  * the evaluator (``evaluate``): script text + input datasets -> {result name: Rel}.

Subset modelled
  statements        ``name := expr;``  ``name <- expr;``  several per script, later ones may use earlier results
  dataset level     dataset name, ``expr[clause]`` (chains), ``inner_join(a [as x], b [as y])`` of operands whose
                    non-identifier names are disjoint (no ``using``, no join body), dataset (+ - * /) dataset with
                    equal measure names, dataset (+ - * /) scalar, ``union`` of datasets with one structure,
                    parentheses
  clauses           filter, calc (roles identifier / measure / attribute / viral attribute; several items, all
                    evaluated on the *input* datapoint), keep, drop, rename, sub
  component level   literals (integer, number, string, boolean, null), component names, + - * / || and unary + -,
                    = <> < <= > >=, and or xor not (Kleene), isnull, nvl, abs, if-then-else, between, parentheses
Not modelled        aggr, pivot, unpivot, apply, membership (#), join bodies / using, analytic and aggregate
                    invocations, cast, time types, user defined operators, value domains, ``in``
"""
import re

ID, ME, AT, VAT = "Identifier", "Measure", "Attribute", "ViralAttribute"
NUMERIC = ("Integer", "Number")


class NotModelled(Exception):
    """the text uses a feature outside the evaluator's subset"""


class IllTyped(Exception):
    """the construct is not well-typed on the structure it is applied to (VTL semantic error)"""


class RuntimeErr(Exception):
    """VTL defines a run-time error for this datapoint (division by zero, duplicate identifiers, ...)"""


class Rel:
    """a dataset value: comps = [[name, type, role]], rows = list of dicts"""

    def __init__(self, comps, rows):
        self.comps = [[c[0], c[1], c[2]] for c in comps]
        self.rows = rows

    def names(self):
        return [c[0] for c in self.comps]

    def ids(self):
        return [c[0] for c in self.comps if c[2] == ID]

    def comp(self, n):
        for c in self.comps:
            if c[0] == n:
                return c
        return None


# ---------------------------------------------------------------------------------------------------
# tokenizer / parser
# ---------------------------------------------------------------------------------------------------

TOKEN = re.compile(r"""
    (?P<ws>\s+|//[^\n]*|/\*.*?\*/)
  | (?P<num>\d+\.\d+(?:[eE][+-]?\d+)?|\d+)
  | (?P<str>"[^"]*")
  | (?P<qid>'[^']*')
  | (?P<id>[A-Za-z_][A-Za-z0-9_.]*)
  | (?P<op>:=|<-|<>|<=|>=|\|\||[-+*/=<>()\[\],;#{}])
""", re.X | re.S)

KEYWORDS = {"filter", "calc", "keep", "drop", "rename", "sub", "to", "and", "or", "xor", "not", "if", "then", "else",
            "true", "false", "null", "as", "identifier", "measure", "attribute", "viral", "inner_join", "left_join",
            "full_join", "cross_join", "using", "aggr", "pivot", "unpivot", "apply", "group", "by", "except", "having",
            "over", "partition", "order", "in", "not_in", "between", "isnull", "nvl", "abs", "union", "cast"}
CLAUSES = ("filter", "calc", "keep", "drop", "rename", "sub")
UNMODELLED_CLAUSES = ("aggr", "pivot", "unpivot", "apply")
CMP = ("=", "<>", "<", "<=", ">", ">=")


def tokenize(text):
    out, pos = [], 0
    while pos < len(text):
        m = TOKEN.match(text, pos)
        if not m:
            raise NotModelled("cannot tokenize at %r" % text[pos:pos + 20])
        pos = m.end()
        k = m.lastgroup
        v = m.group(k)
        if k == "ws":
            continue
        if k == "qid":
            out.append(("id", v[1:-1]))
        elif k == "id" and v in KEYWORDS:
            out.append(("kw", v))
        else:
            out.append((k, v))
    out.append(("eof", None))
    return out


class Parser:
    def __init__(self, text):
        self.t = tokenize(text)
        self.i = 0

    def peek(self, k=0):
        return self.t[min(self.i + k, len(self.t) - 1)]

    def at(self, *vals):
        k, v = self.peek()
        return k in ("op", "kw") and v in vals

    def eat(self, val=None, kind=None):
        k, v = self.peek()
        if (val is not None and (v != val or k not in ("op", "kw"))) or (kind is not None and k != kind):
            raise NotModelled("expected %s, found %r" % (val or kind, v))
        self.i += 1
        return v

    def ident(self):
        k, v = self.peek()
        if k != "id":
            raise NotModelled("expected a name, found %r" % (v,))
        self.i += 1
        return v

    # statements ---------------------------------------------------------------------------------
    def script(self):
        stmts = []
        while self.peek()[0] != "eof":
            name = self.ident()
            if self.at(":="):
                self.eat(":=")
                persistent = False
            else:
                self.eat("<-")
                persistent = True
            e = self.expr()
            self.eat(";")
            stmts.append((name, persistent, e))
        return stmts

    # expressions ----------------------------------------------------------------------------------
    def expr(self):
        if self.at("if"):
            self.eat("if")
            c = self.expr()
            self.eat("then")
            a = self.expr()
            self.eat("else")
            b = self.expr()
            return ("if", c, a, b)
        return self.p_or()

    def p_or(self):
        e = self.p_and()
        while self.at("or", "xor"):
            op = self.eat()
            e = ("bin", op, e, self.p_and())
        return e

    def p_and(self):
        e = self.p_cmp()
        while self.at("and"):
            self.eat()
            e = ("bin", "and", e, self.p_cmp())
        return e

    def p_cmp(self):
        e = self.p_add()
        while self.at(*CMP):
            op = self.eat()
            e = ("bin", op, e, self.p_add())
        if self.at("in", "not_in"):
            raise NotModelled("in / not_in")
        return e

    def p_add(self):
        e = self.p_mul()
        while self.at("+", "-", "||"):
            op = self.eat()
            e = ("bin", op, e, self.p_mul())
        return e

    def p_mul(self):
        e = self.p_un()
        while self.at("*", "/"):
            op = self.eat()
            e = ("bin", op, e, self.p_un())
        return e

    def p_un(self):
        if self.at("-", "+", "not"):
            op = self.eat()
            return ("un", op, self.p_un())
        return self.p_post()

    def p_post(self):
        e = self.p_prim()
        while True:
            if self.at("["):
                self.eat("[")
                c = self.clause()
                self.eat("]")
                e = ("clause", e, c)
            elif self.at("#"):
                raise NotModelled("membership (#)")
            else:
                return e

    def p_prim(self):
        k, v = self.peek()
        if k == "num":
            self.i += 1
            return ("lit", float(v), "Number") if ("." in v or "e" in v.lower()) else ("lit", int(v), "Integer")
        if k == "str":
            self.i += 1
            return ("lit", v[1:-1], "String")
        if k == "kw" and v in ("true", "false"):
            self.i += 1
            return ("lit", v == "true", "Boolean")
        if k == "kw" and v == "null":
            self.i += 1
            return ("lit", None, None)
        if k == "op" and v == "(":
            self.eat("(")
            e = self.expr()
            self.eat(")")
            return e
        if k == "kw" and v == "inner_join":
            return self.join()
        if k == "kw" and v in ("isnull", "abs"):
            self.i += 1
            self.eat("(")
            a = self.expr()
            self.eat(")")
            return ("call", v, [a])
        if k == "kw" and v == "nvl":
            self.i += 1
            self.eat("(")
            a = self.expr()
            self.eat(",")
            b = self.expr()
            self.eat(")")
            return ("call", "nvl", [a, b])
        if k == "kw" and v == "between":
            self.i += 1
            self.eat("(")
            a = self.expr()
            self.eat(",")
            b = self.expr()
            self.eat(",")
            c = self.expr()
            self.eat(")")
            return ("call", "between", [a, b, c])
        if k == "kw" and v == "union":
            self.i += 1
            self.eat("(")
            args = [self.expr()]
            while self.at(","):
                self.eat(",")
                args.append(self.expr())
            self.eat(")")
            return ("union", args)
        if k == "id":
            self.i += 1
            if self.at("("):
                raise NotModelled("function %s" % v)
            return ("name", v)
        raise NotModelled("unexpected %r" % (v,))

    def join(self):
        self.eat("inner_join")
        self.eat("(")
        ops = []
        while True:
            e = self.p_post()
            alias = None
            if self.at("as"):
                self.eat("as")
                alias = self.ident()
            ops.append((e, alias))
            if self.at(","):
                self.eat(",")
                continue
            break
        if not self.at(")"):
            raise NotModelled("join body / using")
        self.eat(")")
        return ("join", "inner", ops)

    # clauses ----------------------------------------------------------------------------------------
    def clause(self):
        k, v = self.peek()
        if k != "kw" or v not in CLAUSES:
            raise NotModelled("clause %r" % (v,))
        self.i += 1
        if v == "filter":
            return ("filter", self.expr())
        if v == "calc":
            items = []
            while True:
                role = None
                if self.at("identifier"):
                    self.eat()
                    role = ID
                elif self.at("measure"):
                    self.eat()
                    role = ME
                elif self.at("attribute"):
                    self.eat()
                    role = AT
                elif self.at("viral"):
                    self.eat()
                    self.eat("attribute")
                    role = VAT
                name = self.ident()
                self.eat(":=")
                items.append((role, name, self.expr()))
                if self.at(","):
                    self.eat(",")
                    continue
                return ("calc", items)
        if v in ("keep", "drop"):
            names = [self.comp_id()]
            while self.at(","):
                self.eat(",")
                names.append(self.comp_id())
            return (v, names)
        if v == "rename":
            pairs = []
            while True:
                a = self.comp_id()
                self.eat("to")
                pairs.append((a, self.ident()))
                if self.at(","):
                    self.eat(",")
                    continue
                return ("rename", pairs)
        pairs = []
        while True:
            a = self.ident()
            self.eat("=")
            neg = False
            if self.at("-"):
                self.eat("-")
                neg = True
            lit = self.p_prim()
            if lit[0] != "lit":
                raise NotModelled("sub with a non-literal value")
            if neg:
                lit = ("lit", -lit[1], lit[2])
            pairs.append((a, lit))
            if self.at(","):
                self.eat(",")
                continue
            return ("sub", pairs)

    def comp_id(self):
        n = self.ident()
        if self.at("#"):
            raise NotModelled("membership (#)")
        return n


def parse(text):
    return Parser(text).script()


def parse_clause(text):
    """'filter Me_1 > 0' -> clause AST"""
    p = Parser(text)
    c = p.clause()
    if p.peek()[0] != "eof":
        raise NotModelled("trailing text in clause")
    return c


# ---------------------------------------------------------------------------------------------------
# typing of component-level expressions
# ---------------------------------------------------------------------------------------------------

def _unify(a, b, what):
    if a is None:
        return b
    if b is None:
        return a
    if a == b:
        return a
    if a in NUMERIC and b in NUMERIC:
        return "Number"
    raise IllTyped("%s: %s vs %s" % (what, a, b))


def typeof(e, comps):
    """type of a component-level expression over a structure [[name, type, role]]; None = the null literal"""
    k = e[0]
    if k == "lit":
        return e[2]
    if k == "name":
        for c in comps:
            if c[0] == e[1]:
                return c[1]
        raise IllTyped("component %s not found" % e[1])
    if k == "un":
        t = typeof(e[2], comps)
        if e[1] == "not":
            if t not in ("Boolean", None):
                raise IllTyped("not on %s" % t)
            return "Boolean"
        if t not in NUMERIC + (None,):
            raise IllTyped("unary %s on %s" % (e[1], t))
        return t or "Number"
    if k == "if":
        if typeof(e[1], comps) not in ("Boolean", None):
            raise IllTyped("if condition")
        return _unify(typeof(e[2], comps), typeof(e[3], comps), "if branches")
    if k == "call":
        ts = [typeof(a, comps) for a in e[2]]
        if e[1] == "isnull":
            return "Boolean"
        if e[1] == "abs":
            if ts[0] not in NUMERIC + (None,):
                raise IllTyped("abs on %s" % ts[0])
            return ts[0] or "Number"
        if e[1] == "nvl":
            return _unify(ts[0], ts[1], "nvl")
        if e[1] == "between":
            _unify(_unify(ts[0], ts[1], "between"), ts[2], "between")
            return "Boolean"
    if k == "bin":
        op = e[1]
        a, b = typeof(e[2], comps), typeof(e[3], comps)
        if op in ("and", "or", "xor"):
            if a not in ("Boolean", None) or b not in ("Boolean", None):
                raise IllTyped("%s on %s, %s" % (op, a, b))
            return "Boolean"
        if op in CMP:
            _unify(a, b, op)
            return "Boolean"
        if op == "||":
            if a not in ("String", None) or b not in ("String", None):
                raise IllTyped("|| on %s, %s" % (a, b))
            return "String"
        if a not in NUMERIC + (None,) or b not in NUMERIC + (None,):
            raise IllTyped("%s on %s, %s" % (op, a, b))
        if op == "/":
            return "Number"
        return _unify(a, b, op) or "Number"
    raise NotModelled("expression %r at component level" % (k,))


def refs_of(e, out=None):
    out = set() if out is None else out
    if e[0] == "name":
        out.add(e[1])
    elif e[0] == "un":
        refs_of(e[2], out)
    elif e[0] == "bin":
        refs_of(e[2], out)
        refs_of(e[3], out)
    elif e[0] == "if":
        for x in e[1:]:
            refs_of(x, out)
    elif e[0] == "call":
        for x in e[2]:
            refs_of(x, out)
    return out


# ---------------------------------------------------------------------------------------------------
# structure rules of the clauses
# ---------------------------------------------------------------------------------------------------

def clause_structure(comps, c, strict=False):
    """structure produced by clause ``c`` on structure ``comps`` ([[name, type, role]]); IllTyped if VTL rejects it.

    strict=True additionally rejects what the manual leaves open or the engine documents as a restriction (used by
    the chain generator so that only crisp cases are produced):
      * ``calc`` that overwrites a non-measure without naming its role,
      * ``calc identifier`` from an expression that refers to a nullable (non-identifier) component or is null.
    """
    comps = [list(x) for x in comps]
    by = {x[0]: x for x in comps}
    if len(by) != len(comps):
        raise IllTyped("duplicate component names")
    kind = c[0]
    if kind == "filter":
        if typeof(c[1], comps) not in ("Boolean",):
            raise IllTyped("filter condition is not Boolean")
        return comps
    if kind == "calc":
        seen = set()
        out = [list(x) for x in comps]
        for role, name, e in c[1]:
            if name in seen:
                raise IllTyped("calc assigns %s twice" % name)
            seen.add(name)
            t = typeof(e, comps)
            if name in by:
                old = by[name]
                if old[2] == ID:
                    raise IllTyped("calc cannot overwrite identifier %s" % name)
                if role == ID:
                    raise IllTyped("calc cannot turn %s into an identifier" % name)
                if strict and role is None and old[2] != ME:
                    raise IllTyped("not crisp: role of an overwritten %s without role keyword" % old[2])
                for x in out:
                    if x[0] == name:
                        x[1] = t or old[1]
                        x[2] = role or ME
            else:
                if t is None and strict:
                    raise IllTyped("not crisp: type of a null constant component")
                if role == ID and strict:
                    if t is None or any(by[r][2] != ID for r in refs_of(e) if r in by):
                        raise IllTyped("not crisp: identifier computed from a nullable component")
                out.append([name, t or "Number", role or ME])
        return out
    if kind in ("keep", "drop"):
        if len(set(c[1])) != len(c[1]):
            raise IllTyped("%s names a component twice" % kind)
        for n in c[1]:
            if n not in by:
                raise IllTyped("%s: component %s not found" % (kind, n))
            if by[n][2] == ID:
                raise IllTyped("%s: %s is an identifier" % (kind, n))
        if kind == "keep":
            return [x for x in comps if x[2] == ID or x[0] in c[1]]
        return [x for x in comps if x[0] not in c[1]]
    if kind == "rename":
        olds = [a for a, _ in c[1]]
        if len(set(olds)) != len(olds):
            raise IllTyped("rename names a component twice")
        for a in olds:
            if a not in by:
                raise IllTyped("rename: component %s not found" % a)
        m = dict(c[1])
        out = [[m.get(x[0], x[0]), x[1], x[2]] for x in comps]
        if len({x[0] for x in out}) != len(out):
            raise IllTyped("rename produces duplicate names")
        return out
    if kind == "sub":
        names = [a for a, _ in c[1]]
        if len(set(names)) != len(names):
            raise IllTyped("sub names an identifier twice")
        for a, lit in c[1]:
            if a not in by or by[a][2] != ID:
                raise IllTyped("sub: %s is not an identifier" % a)
            _unify(by[a][1], lit[2], "sub value")
            if lit[1] is None:
                raise IllTyped("sub with null")
        return [x for x in comps if x[0] not in names]
    raise NotModelled("clause %s" % kind)


# ---------------------------------------------------------------------------------------------------
# evaluation of component-level expressions on one datapoint (three-valued logic with None)
# ---------------------------------------------------------------------------------------------------

def _num(v):
    return isinstance(v, (int, float)) and not isinstance(v, bool)


def _and(a, b):
    if a is False or b is False:
        return False
    if a is None or b is None:
        return None
    return True


def _or(a, b):
    if a is True or b is True:
        return True
    if a is None or b is None:
        return None
    return False


def ev(e, row):
    k = e[0]
    if k == "lit":
        return e[1]
    if k == "name":
        return row[e[1]]
    if k == "un":
        v = ev(e[2], row)
        if v is None:
            return None
        if e[1] == "not":
            return not v
        return -v if e[1] == "-" else v
    if k == "if":
        c = ev(e[1], row)
        return ev(e[2], row) if c is True else ev(e[3], row)
    if k == "call":
        vs = [ev(a, row) for a in e[2]]
        if e[1] == "isnull":
            return vs[0] is None
        if e[1] == "abs":
            return None if vs[0] is None else abs(vs[0])
        if e[1] == "nvl":
            return vs[1] if vs[0] is None else vs[0]
        if e[1] == "between":
            if any(v is None for v in vs):
                return None
            return vs[1] <= vs[0] <= vs[2]
    if k == "bin":
        op = e[1]
        a, b = ev(e[2], row), ev(e[3], row)
        if op == "and":
            return _and(a, b)
        if op == "or":
            return _or(a, b)
        if op == "xor":
            return None if a is None or b is None else (a != b)
        if a is None or b is None:
            return None
        if op in CMP:
            if _num(a) != _num(b) or (not _num(a) and type(a) is not type(b)):
                raise IllTyped("comparison of %r and %r" % (a, b))
            return {"=": a == b, "<>": a != b, "<": a < b, "<=": a <= b, ">": a > b, ">=": a >= b}[op]
        if op == "||":
            return a + b
        if op == "+":
            return a + b
        if op == "-":
            return a - b
        if op == "*":
            return a * b
        if op == "/":
            if b == 0:
                raise RuntimeErr("division by zero")
            return a / b
    raise NotModelled("expression %r" % (k,))


# ---------------------------------------------------------------------------------------------------
# clauses on data
# ---------------------------------------------------------------------------------------------------

def apply_clause(rel, c, strict=False):
    out_comps = clause_structure(rel.comps, c, strict)
    kind = c[0]
    if kind == "filter":
        return Rel(out_comps, [dict(r) for r in rel.rows if ev(c[1], r) is True])
    if kind == "calc":
        rows = []
        for r in rel.rows:
            new = dict(r)
            vals = [(name, ev(e, r)) for _, name, e in c[1]]      # every expression sees the *input* datapoint
            for name, v in vals:
                new[name] = v
            rows.append(new)
        out = Rel(out_comps, rows)
        for role, name, _ in c[1]:
            if role == ID:
                for r in rows:
                    if r[name] is None:
                        raise RuntimeErr("null in calculated identifier %s" % name)
        return out
    if kind in ("keep", "drop"):
        names = [x[0] for x in out_comps]
        return Rel(out_comps, [{n: r[n] for n in names} for r in rel.rows])
    if kind == "rename":
        m = dict(c[1])
        return Rel(out_comps, [{m.get(n, n): v for n, v in r.items()} for r in rel.rows])
    if kind == "sub":
        names = [x[0] for x in out_comps]
        rows = []
        for r in rel.rows:
            if all(r[a] == lit[1] for a, lit in c[1]):
                rows.append({n: r[n] for n in names})
        return Rel(out_comps, rows)
    raise NotModelled("clause %s" % kind)


def check_unique(rel, what):
    ids = rel.ids()
    seen = set()
    for r in rel.rows:
        k = tuple(r[i] for i in ids)
        if k in seen:
            raise RuntimeErr("duplicate identifiers in %s: %r" % (what, k))
        seen.add(k)


# ---------------------------------------------------------------------------------------------------
# dataset level
# ---------------------------------------------------------------------------------------------------

def inner_join(operands):
    """operands = [(Rel, alias)]; 2..n-way inner join on the identifiers, operands must not share other names"""
    base = operands[0][0]
    for rel, _ in operands[1:]:
        a, b = set(base.ids()), set(rel.ids())
        if not (a <= b or b <= a):
            raise IllTyped("join: identifiers of one operand must contain those of the other")
        clash = (set(base.names()) - a) & (set(rel.names()) - b)
        if clash or ((set(base.names()) - a) & b) or ((set(rel.names()) - b) & a):
            raise NotModelled("join of operands that share non-identifier names %s" % sorted(clash))
        common = [i for i in base.ids() if i in b]
        for i in common:
            _unify(base.comp(i)[1], rel.comp(i)[1], "join identifier " + i)
        comps = [x for x in base.comps if x[2] == ID] + [x for x in rel.comps if x[2] == ID and x[0] not in a] + \
                [x for x in base.comps if x[2] != ID] + [x for x in rel.comps if x[2] != ID]
        rows = []
        index = {}                              # datapoints of the right operand by the values of the common identifiers
        for r2 in rel.rows:
            index.setdefault(tuple(r2[i] for i in common), []).append(r2)
        for r1 in base.rows:
            for r2 in index.get(tuple(r1[i] for i in common), ()):
                row = dict(r2)
                row.update(r1)
                rows.append(row)
        base = Rel(comps, rows)
    return base


def ds_binary(op, a, b):
    """dataset op dataset / dataset op scalar for + - * / (measures matched by name, attributes not propagated)"""
    if op not in ("+", "-", "*", "/"):
        raise NotModelled("dataset-level %s" % op)
    if isinstance(a, Rel) and isinstance(b, Rel):
        ma = [x for x in a.comps if x[2] == ME]
        mb = [x for x in b.comps if x[2] == ME]
        if sorted(x[0] for x in ma) != sorted(x[0] for x in mb) or not ma:
            raise IllTyped("dataset %s dataset: measures differ" % op)
        ia, ib = set(a.ids()), set(b.ids())
        if not (ia <= ib or ib <= ia):
            raise IllTyped("dataset %s dataset: identifiers" % op)
        big = a if len(ia) >= len(ib) else b
        common = [i for i in a.ids() if i in ib]
        comps = [x for x in big.comps if x[2] == ID]
        for x in ma:
            y = b.comp(x[0])
            t = typeof(("bin", op, ("name", "l"), ("name", "r")), [["l", x[1], ME], ["r", y[1], ME]])
            comps.append([x[0], t, ME])
        rows = []
        index = {}
        for r2 in b.rows:
            index.setdefault(tuple(r2[i] for i in common), []).append(r2)
        for r1 in a.rows:
            for r2 in index.get(tuple(r1[i] for i in common), ()):
                src = r1 if big is a else r2
                row = {i: src[i] for i in big.ids()}
                for x in ma:
                    row[x[0]] = ev(("bin", op, ("lit", r1[x[0]], None), ("lit", r2[x[0]], None)), {})
                rows.append(row)
        return Rel(comps, rows)
    ds, left = (a, True) if isinstance(a, Rel) else (b, False)
    sc = b if left else a
    ms = [x for x in ds.comps if x[2] == ME]
    if not ms:
        raise IllTyped("dataset %s scalar: no measure" % op)
    comps = [x for x in ds.comps if x[2] == ID]
    for x in ms:
        lr = [["l", x[1], ME], ["r", sc[1], ME]] if left else [["l", sc[1], ME], ["r", x[1], ME]]
        comps.append([x[0], typeof(("bin", op, ("name", "l"), ("name", "r")), lr), ME])
    rows = []
    for r1 in ds.rows:
        row = {i: r1[i] for i in ds.ids()}
        for x in ms:
            l, r = (r1[x[0]], sc[0]) if left else (sc[0], r1[x[0]])
            row[x[0]] = ev(("bin", op, ("lit", l, None), ("lit", r, None)), {})
        rows.append(row)
    return Rel(comps, rows)


def union(rels):
    """union of datasets with the same structure; for datapoints with equal identifiers the leftmost one wins"""
    first = rels[0]
    sig = sorted((x[0], x[2]) for x in first.comps)
    seen, rows = set(), []
    ids = first.ids()
    for r in rels:
        if sorted((x[0], x[2]) for x in r.comps) != sig:
            raise IllTyped("union of datasets with different structures")
        for row in r.rows:
            k = tuple(row[i] for i in ids)
            if k not in seen:
                seen.add(k)
                rows.append(dict(row))
    return Rel(first.comps, rows)


def eval_expr(e, env, strict=False):
    """dataset-level evaluation -> Rel or (value, type) for a scalar"""
    k = e[0]
    if k == "name":
        if e[1] not in env:
            raise IllTyped("dataset %s not found" % e[1])
        v = env[e[1]]
        return Rel(v.comps, [dict(r) for r in v.rows]) if isinstance(v, Rel) else v
    if k == "lit":
        return (e[1], e[2])
    if k == "clause":
        sub = eval_expr(e[1], env, strict)
        if not isinstance(sub, Rel):
            raise IllTyped("clause on a scalar")
        out = apply_clause(sub, e[2], strict)
        check_unique(out, e[2][0])
        return out
    if k == "join":
        ops = []
        for x, alias in e[2]:
            r = eval_expr(x, env, strict)
            if not isinstance(r, Rel):
                raise IllTyped("join of a scalar")
            ops.append((r, alias))
        return inner_join(ops)
    if k == "union":
        return union([eval_expr(x, env, strict) for x in e[1]])
    if k == "bin":
        a, b = eval_expr(e[2], env, strict), eval_expr(e[3], env, strict)
        if isinstance(a, Rel) or isinstance(b, Rel):
            return ds_binary(e[1], a, b)
        t = typeof(("bin", e[1], ("name", "l"), ("name", "r")), [["l", a[1], ME], ["r", b[1], ME]])
        return (ev(("bin", e[1], ("lit", a[0], None), ("lit", b[0], None)), {}), t)
    if k == "un" and e[1] in ("-", "+"):
        a = eval_expr(e[2], env, strict)
        if isinstance(a, Rel):
            raise NotModelled("unary operator on a dataset")
        return (None if a[0] is None else (-a[0] if e[1] == "-" else a[0]), a[1])
    raise NotModelled("dataset-level %s" % k)


def evaluate(script, inputs, strict=False):
    """script text, inputs {name: Rel} -> ({name: Rel or (value, type)} of every statement, [persistent names])"""
    env = dict(inputs)
    results, persistent = {}, []
    for name, pers, e in parse(script):
        if name in env:
            raise IllTyped("%s assigned twice / is an input" % name)
        v = eval_expr(e, env, strict)
        env[name] = v
        results[name] = v
        if pers:
            persistent.append(name)
    return results, persistent

"""C22 space: the axes, the enumeration per tier and the construction of the caller-side arguments.

A *case* is a JSON-able dict
    {fn, script_kind, outcome, ds, dp, fv, vd, er, sv, mp}
(axes that do not apply to a function are "-").  `build(case, workdir)` creates **fresh** caller objects for
it (dicts, lists, DataFrames, files below `workdir`, pysdmx objects) and returns the call together with the
table of caller-owned objects to snapshot.
"""
import itertools
import json
import os
from pathlib import Path

FUNCS = ("run", "run_sdmx", "semantic_analysis", "validate_dataset", "prettify", "generate_sdmx")
OUTCOMES = ("success", "syntax-error", "semantic-error", "load-error", "runtime-error", "success-output-folder")
SCRIPT_KINDS = ("str", "vtl-path", "transformation-scheme")
DS_KINDS = ("dict", "list-of-dicts", "json-path", "list-dict+path", "schema-list")
# frame variants of the caller's DS_1 DataFrame: one deviation from "native-default" each
FRAME_VARIANTS = ("native-default", "nondefault-index", "bom-column", "missing-nullable-column", "extra-column",
                  "categorical", "object-dtype", "empty-string-in-non-string-column", "arrow-string", "readonly-numpy", "slice-view")
CSV_VARIANTS = ("native-default", "bom-column", "missing-nullable-column", "extra-column")
DP_FRAME_KINDS = ("dict-frames", "dict-frame+csv", "dict-frame+url")
DP_PATH_KINDS = ("dict-csv-paths", "dict-csv+url", "list-csv-paths", "single-csv-path")
LIB_SHAPES = ("none", "dict", "list-of-dicts", "json-path")
SV_KINDS = ("none", "dict")
MAPPINGS = ("none", "dict", "vtl-dataflow-mapping")

URL_BASE = "https://c22.invalid/data/"
BOM = "\ufeff"

DS1_COMPS = [("Id_1", "Integer", "Identifier"), ("Me_1", "Number", "Measure"), ("Me_2", "Number", "Measure"),
             ("At_1", "String", "Attribute")]
DS2_COMPS = [("Id_1", "Integer", "Identifier"), ("Me_1", "Number", "Measure")]

DS1_COLS = {"Id_1": [1, 2, 3], "Me_1": [1.5, 0.0, None], "Me_2": [10.0, 20.0, 30.0], "At_1": ["a", "b", None]}
DS1_DUP = {"Id_1": 1, "Me_1": 7.0, "Me_2": 70.0, "At_1": "c"}       # appended when DS_1 itself must fail to load
DS2_COLS = {"Id_1": [1, 2], "Me_1": [1.0, 2.0]}
DS2_DUP_COLS = {"Id_1": [1, 1], "Me_1": [1.0, 2.0]}

VD = {"name": "VD_1", "type": "String", "setlist": ["a", "b", "c"]}
VD2 = {"name": "VD_2", "type": "Integer", "setlist": [1, 2, 3]}
ER = {"name": "SQL_1", "query": "SELECT Id_1, Me_1 FROM DS_1 WHERE Me_1 > 0"}
ER2 = {"name": "SQL_2", "query": "SELECT Id_1, Me_2 FROM DS_1"}


# ------------------------------------------------------------------------------------------------
# scripts: the outcome class is forced by the script (load-error additionally needs the poisoned data)
# ------------------------------------------------------------------------------------------------

def script_text(outcome, scalars, vd, er):
    sc = " + sc_1" if scalars else ""
    ok = "DS_r <- DS_1[calc Me_3 := Me_1 * 2%s];" % sc
    if vd:
        ok += "\nDS_v <- DS_1[filter At_1 in VD_1];"
    if er:
        ok += ('\nDS_e <- eval(SQL_1(DS_1) language "SQL" returns dataset '
               "{identifier<integer> Id_1, measure<number> Me_1});")
    if outcome in ("success", "success-output-folder"):
        return ok
    if outcome == "syntax-error":
        return "DS_r <- DS_1 * ;"
    if outcome == "semantic-error":
        return ok + "\nDS_s <- DS_1[calc Me_9 := Me_404 + 1];"
    if outcome == "load-error":
        return ok + "\nDS_l <- DS_2 * 2;"
    if outcome == "runtime-error":
        return ok + "\nDS_z <- DS_1[calc Me_8 := Me_2 / Me_1];"
    raise ValueError(outcome)


# ------------------------------------------------------------------------------------------------
# enumeration
# ------------------------------------------------------------------------------------------------

def _case(fn, **k):
    c = {"fn": fn, "script_kind": "-", "outcome": "-", "ds": "-", "dp": "-", "fv": "-", "vd": "-", "er": "-",
         "sv": "-", "mp": "-"}
    c.update(k)
    return c


def dp_fv_pairs(with_none=False):
    out = [(dp, fv) for dp in DP_FRAME_KINDS for fv in FRAME_VARIANTS]
    out += [(dp, fv) for dp in DP_PATH_KINDS for fv in CSV_VARIANTS]
    if with_none:
        out.append(("none", "-"))
    return out


def full_space():
    """the complete cartesian space (only combinations that exist for the function)"""
    for sk, ds, (dp, fv), vd, er, sv, oc in itertools.product(SCRIPT_KINDS, DS_KINDS, dp_fv_pairs(), LIB_SHAPES, LIB_SHAPES,
                                                            SV_KINDS, OUTCOMES):
        yield _case("run", script_kind=sk, ds=ds, dp=dp, fv=fv, vd=vd, er=er, sv=sv, outcome=oc)
    for sk, mp, fv, vd, er, oc in itertools.product(SCRIPT_KINDS, MAPPINGS, FRAME_VARIANTS, LIB_SHAPES, LIB_SHAPES, OUTCOMES):
        yield _case("run_sdmx", script_kind=sk, mp=mp, fv=fv, vd=vd, er=er, outcome=oc)
    for sk, ds, vd, er, oc in itertools.product(SCRIPT_KINDS, DS_KINDS, LIB_SHAPES, LIB_SHAPES,
                                                ("success", "syntax-error", "semantic-error")):
        yield _case("semantic_analysis", script_kind=sk, ds=ds, vd=vd, er=er, outcome=oc)
    for ds, (dp, fv), sv, oc in itertools.product(DS_KINDS, dp_fv_pairs(with_none=True), SV_KINDS, ("success", "load-error")):
        yield _case("validate_dataset", ds=ds, dp=dp, fv=fv, sv=sv, outcome=oc)
    # prettify / generate_sdmx only take a script; every outcome script is a different text (all but the syntax
    # error are valid programs for these two functions)
    for sk, oc in itertools.product(SCRIPT_KINDS, OUTCOMES):
        yield _case("prettify", script_kind=sk, outcome=oc)
    for sk, oc in itertools.product(("str", "vtl-path"), OUTCOMES):
        yield _case("generate_sdmx", script_kind=sk, outcome=oc)


QUICK_RULE = ("quick = a sub-lattice of the full space: semantic_analysis, validate_dataset, prettify and generate_sdmx are "
              "complete; run = [every (datapoints kind, frame variant) x every outcome x data_structures in {dict, json-path} "
              "with str script, no libraries, no scalar values] + [every data_structures kind x libraries in the same shape "
              "(none/dict/list/path) x scalar_values x every outcome on the base datapoints (dict of native-default frames)] "
              "+ [script kinds vtl-path and transformation-scheme x every data_structures kind x every outcome on the base]; "
              "run_sdmx = [every frame variant x mappings kind x outcome, str script, no libraries] + [every script kind x "
              "mappings kind x same-shape libraries x outcome on the native-default frame]. thorough = the full product; "
              "the quick sub-lattice is executed first and always completely, then the corpus calls and the remainder under a wall-clock budget "
              "(VTLMC_C22_BUDGET_S, default 1500 s; 0 = no limit) - cases skipped because of the budget are counted and "
              "make the run non-exhaustive")


def in_quick(c):
    fn = c["fn"]
    if fn in ("validate_dataset", "prettify", "generate_sdmx", "semantic_analysis"):
        return True
    nolib = c["vd"] == "none" and c["er"] == "none"
    if fn == "run":
        base_dp = c["dp"] == "dict-frames" and c["fv"] == "native-default"
        if c["script_kind"] == "str":
            if nolib and c["sv"] == "none" and c["ds"] in ("dict", "json-path"):
                return True
            return base_dp and c["vd"] == c["er"]
        return base_dp and nolib and c["sv"] == "none"
    if fn == "run_sdmx":
        if c["script_kind"] == "str" and nolib:
            return True
        return c["fv"] == "native-default" and c["vd"] == c["er"]
    raise ValueError(fn)


def space(tier):
    """-> (cases that are always executed, cases executed under the budget)"""
    cases = list(full_space())
    first = [c for c in cases if in_quick(c)]
    if tier == "quick":
        return first, []
    return first, [c for c in cases if not in_quick(c)]


def case_id(c):
    return "|".join("%s=%s" % (k, c[k]) for k in ("fn", "script_kind", "outcome", "ds", "dp", "fv", "vd", "er", "sv", "mp"))


# ------------------------------------------------------------------------------------------------
# construction of the caller's objects
# ------------------------------------------------------------------------------------------------

def _comp(name, type_, role):
    return {"name": name, "type": type_, "role": role, "nullable": role != "Identifier"}


def ds1_struct():
    return {"name": "DS_1", "DataStructure": [_comp(*c) for c in DS1_COMPS]}


def ds2_struct():
    return {"name": "DS_2", "DataStructure": [_comp(*c) for c in DS2_COMPS]}


def scalars_struct():
    return [{"name": "sc_1", "type": "Integer"}]


def _cols(base, dup_row):
    cols = {k: list(v) for k, v in base.items()}
    if dup_row:
        for k in cols:
            cols[k].append(dup_row[k])
    return cols


def make_frame(variant, poisoned=False):
    """-> (DataFrame, extras) where extras are further caller-owned objects the frame was built from"""
    import numpy as np
    import pandas as pd
    cols = _cols(DS1_COLS, DS1_DUP if poisoned else None)
    n = len(cols["Id_1"])
    extras = {}
    if variant == "native-default":
        df = pd.DataFrame(cols)
    elif variant == "nondefault-index":
        df = pd.DataFrame(cols, index=pd.Index(["r%d" % (i * 10) for i in range(n)], name="row"))
    elif variant == "bom-column":
        df = pd.DataFrame({(BOM + k if k == "Id_1" else k): v for k, v in cols.items()})
    elif variant == "missing-nullable-column":
        df = pd.DataFrame({k: v for k, v in cols.items() if k != "Me_2"})
    elif variant == "extra-column":
        cols["Extra_1"] = ["x%d" % i for i in range(n)]
        df = pd.DataFrame(cols)
    elif variant == "categorical":
        df = pd.DataFrame(cols)
        df["At_1"] = df["At_1"].astype("category")
        df["Id_1"] = df["Id_1"].astype("category")
    elif variant == "object-dtype":
        df = pd.DataFrame({k: pd.Series(v, dtype="object") for k, v in cols.items()})
    elif variant == "empty-string-in-non-string-column":
        cols["Me_2"][1] = ""          # a non-String column carrying an empty string (what a hand-read CSV gives)
        df = pd.DataFrame({k: pd.Series(v, dtype="object") for k, v in cols.items()})
    elif variant == "arrow-string":
        df = pd.DataFrame({k: pd.Series([None if x is None else str(x) for x in v], dtype="string[pyarrow]")
                           for k, v in cols.items()})
    elif variant == "readonly-numpy":
        arrs = {"Id_1": np.array(cols["Id_1"], dtype="int64"),
                "Me_1": np.array([np.nan if x is None else x for x in cols["Me_1"]], dtype="float64"),
                "Me_2": np.array(cols["Me_2"], dtype="float64"),
                "At_1": np.array(cols["At_1"], dtype=object)}
        for a in arrs.values():
            a.flags.writeable = False
        df = pd.DataFrame(arrs, copy=False)
        for k, a in arrs.items():
            extras["backing-array:" + k] = a
    elif variant == "slice-view":
        pad = {"Id_1": 90, "Me_1": 9.0, "Me_2": 9.0, "At_1": "z"}
        parent = pd.DataFrame({k: [pad[k]] + v + [pad[k]] for k, v in cols.items()})
        df = parent.iloc[1:n + 1]
        extras["parent-frame"] = parent
    else:
        raise ValueError(variant)
    return df, extras


def make_ds2_frame(poisoned):
    import pandas as pd
    return pd.DataFrame({k: list(v) for k, v in (DS2_DUP_COLS if poisoned else DS2_COLS).items()})


def write_csv(path, variant, poisoned=False):
    import pandas as pd
    cols = _cols(DS1_COLS, DS1_DUP if poisoned else None)
    if variant == "missing-nullable-column":
        cols.pop("Me_2")
    if variant == "extra-column":
        cols["Extra_1"] = ["x%d" % i for i in range(len(cols["Id_1"]))]
    text = pd.DataFrame(cols).to_csv(index=False)
    with open(path, "w", encoding="utf-8", newline="") as f:
        f.write((BOM if variant == "bom-column" else "") + text)


def write_ds2_csv(path, poisoned):
    make_ds2_frame(poisoned).to_csv(path, index=False)


def _dump(path, obj):
    with open(path, "w", encoding="utf-8") as f:
        json.dump(obj, f)
    return Path(path)


def make_schema(name, comps, context="datastructure", sid=None):
    from pysdmx.model import Concept
    from pysdmx.model.dataflow import Component, Components, DataType, Role, Schema
    tmap = {"Integer": DataType.INTEGER, "Number": DataType.DOUBLE, "String": DataType.STRING}
    rmap = {"Identifier": Role.DIMENSION, "Measure": Role.MEASURE, "Attribute": Role.ATTRIBUTE}
    cl = []
    for n, t, r in comps:
        kw = {"attachment_level": "O"} if r == "Attribute" else {}
        cl.append(Component(id=n, required=r == "Identifier", role=rmap[r], concept=Concept(id=n), local_dtype=tmap[t], **kw))
    return Schema(id=sid or name, components=Components(cl), agency="MD", context=context, version="1.0")


def make_lib(shape, one, two, workdir, stem):
    """value_domains / external_routines in the given shape (for json-path the file stem is the routine name)"""
    import copy
    if shape == "none":
        return None
    if shape == "dict":
        return copy.deepcopy(one)
    if shape == "list-of-dicts":
        return [copy.deepcopy(one), copy.deepcopy(two)]
    if shape == "json-path":
        return _dump(os.path.join(workdir, stem + ".json"), one)
    raise ValueError(shape)


def has_scalars(c):
    return c["fn"] in ("run", "semantic_analysis", "validate_dataset") and c["ds"] != "schema-list"


def make_script(c, workdir):
    oc = c["outcome"]
    if c["fn"] == "run_sdmx" and oc == "load-error":
        oc = "success"      # a single PandasDataset: its own frame carries the duplicate identifier
    text = script_text(oc, has_scalars(c) if c["fn"] in ("run", "semantic_analysis") else False,
                       c["vd"] not in ("none", "-"), c["er"] not in ("none", "-"))
    sk = c["script_kind"]
    if sk == "str":
        return text, text
    if sk == "vtl-path":
        p = os.path.join(workdir, "script.vtl")
        with open(p, "w", encoding="utf-8") as f:
            f.write(text)
        return Path(p), text
    if sk == "transformation-scheme":
        return make_ts(text), text
    raise ValueError(sk)


def make_ts(text):
    """a TransformationScheme holding the statements of `text` (built by hand: generate_sdmx cannot take the
    syntactically wrong script)"""
    from pysdmx.model.vtl import Transformation, TransformationScheme
    items = []
    for i, st in enumerate([s.strip() for s in text.split(";") if s.strip()]):
        left, right = st.split("<-", 1)
        items.append(Transformation(id="T%d" % (i + 1), expression=right.strip(), is_persistent=True, result=left.strip(),
                                    name="Transformation " + left.strip()))
    return TransformationScheme(items=items, agency="MD", id="TS1", vtl_version="2.1", version="1.0", name="TS C22")


def make_data_structures(kind, workdir):
    if kind == "dict":
        return {"datasets": [ds1_struct(), ds2_struct()], "scalars": scalars_struct()}
    if kind == "list-of-dicts":
        return [{"datasets": [ds1_struct()], "scalars": scalars_struct()}, {"datasets": [ds2_struct()]}]
    if kind == "json-path":
        return _dump(os.path.join(workdir, "structures.json"), {"datasets": [ds1_struct(), ds2_struct()], "scalars": scalars_struct()})
    if kind == "list-dict+path":
        return [{"datasets": [ds1_struct()], "scalars": scalars_struct()},
                _dump(os.path.join(workdir, "structure_DS_2.json"), {"datasets": [ds2_struct()]})]
    if kind == "schema-list":
        return [make_schema("DS_1", DS1_COMPS), make_schema("DS_2", DS2_COMPS)]
    raise ValueError(kind)


def ds2_url(poisoned):
    return URL_BASE + ("DS_2_duplicates" if poisoned else "DS_2")


def make_datapoints(dp, fv, poison2, workdir):
    """-> (datapoints, registry {id(obj): (argument kind, input class)}, extras {label: object})"""
    reg, extras = {}, {}
    ddir = os.path.join(workdir, "data")
    os.makedirs(ddir, exist_ok=True)
    p1, p2 = Path(os.path.join(ddir, "DS_1.csv")), Path(os.path.join(ddir, "DS_2.csv"))
    if dp == "none":
        return None, reg, extras
    if dp in DP_FRAME_KINDS:
        df, ex = make_frame(fv)
        reg[id(df)] = ("dataframe", fv)
        for k, v in ex.items():
            extras[k] = v
            reg[id(v)] = ("dataframe-" + k.split(":")[0], fv)
        if dp == "dict-frames":
            df2 = make_ds2_frame(poison2)
            reg[id(df2)] = ("dataframe", "duplicate-identifiers" if poison2 else "native-default")
            return {"DS_1": df, "DS_2": df2}, reg, extras
        if dp == "dict-frame+csv":
            write_ds2_csv(p2, poison2)
            return {"DS_1": df, "DS_2": p2}, reg, extras
        return {"DS_1": df, "DS_2": ds2_url(poison2)}, reg, extras
    write_csv(p1, fv)
    if dp == "single-csv-path":
        return p1, reg, extras
    if dp == "dict-csv+url":
        return {"DS_1": p1, "DS_2": ds2_url(poison2)}, reg, extras
    write_ds2_csv(p2, poison2)
    if dp == "dict-csv-paths":
        return {"DS_1": p1, "DS_2": p2}, reg, extras
    if dp == "list-csv-paths":
        return [p1, p2], reg, extras
    raise ValueError(dp)


def build(c, workdir):
    """-> dict(fn=<name>, args=[...], kwargs={...}, owned={label: object}, registry={id: (argkind, class)})"""
    fn = c["fn"]
    os.makedirs(workdir, exist_ok=True)
    owned, reg = {}, {}
    kwargs = {}
    args = []
    poison = c["outcome"] == "load-error"
    if fn != "validate_dataset":
        script, text = make_script(c, workdir)
        owned["script"] = script
        args.append(script)
    if fn == "prettify":
        return {"args": args, "kwargs": kwargs, "owned": owned, "registry": reg}
    if fn == "generate_sdmx":
        args += ["MD", "TS_C22"]
        kwargs["version"] = "1.0"
        return {"args": args, "kwargs": kwargs, "owned": owned, "registry": reg}
    if fn in ("run", "semantic_analysis", "validate_dataset"):
        ds = make_data_structures(c["ds"], workdir)
        owned["data_structures"] = ds
        args.append(ds)
    if fn in ("run", "validate_dataset"):
        dpv, r, ex = make_datapoints(c["dp"], c["fv"], poison, workdir)
        reg.update(r)
        owned["datapoints"] = dpv
        for k, v in ex.items():
            owned["datapoints/" + k] = v
        if fn == "run":
            args.append(dpv)
        else:
            kwargs["datapoints"] = dpv
    if fn == "run_sdmx":
        from pysdmx.io.pd import PandasDataset
        df, ex = make_frame(c["fv"], poisoned=poison)
        reg[id(df)] = ("dataframe", c["fv"])
        for k, v in ex.items():
            owned["datasets/" + k] = v
            reg[id(v)] = ("dataframe-" + k.split(":")[0], c["fv"])
        if c["mp"] == "none":
            schema = make_schema("DS_1", DS1_COMPS)
            mp = None
        else:
            schema = make_schema("DS_1", DS1_COMPS, context="dataflow", sid="DF_1")
            if c["mp"] == "dict":
                mp = {schema.short_urn: "DS_1"}
            else:
                from pysdmx.model import Reference
                from pysdmx.model.vtl import VtlDataflowMapping
                mp = VtlDataflowMapping(dataflow=Reference(sdmx_type="Dataflow", agency="MD", id="DF_1", version="1.0"),
                                        dataflow_alias="DS_1", id="VTL_MAP_1")
        datasets = [PandasDataset(structure=schema, data=df)]
        owned["datasets"] = datasets
        owned["mappings"] = mp
        args.append(datasets)
        kwargs["mappings"] = mp
    if fn in ("run", "run_sdmx", "semantic_analysis"):
        vd = make_lib(c["vd"], VD, VD2, workdir, "VD_1")
        er = make_lib(c["er"], ER, ER2, workdir, "SQL_1")
        owned["value_domains"] = vd
        owned["external_routines"] = er
        kwargs["value_domains"] = vd
        kwargs["external_routines"] = er
    if fn in ("run", "validate_dataset"):
        sv = {"sc_1": 5} if c["sv"] == "dict" else None
        owned["scalar_values"] = sv
        kwargs["scalar_values"] = sv
    if fn in ("run", "run_sdmx"):
        kwargs["return_only_persistent"] = False
        if c["outcome"] == "success-output-folder":
            out = Path(os.path.join(workdir, "out"))
            os.makedirs(out, exist_ok=True)
            kwargs["output_folder"] = out
    return {"args": args, "kwargs": kwargs, "owned": owned, "registry": reg}


# ------------------------------------------------------------------------------------------------
# the "network": local stand-in for vtlengine.API._InternalApi._handle_url_datapoints
# ------------------------------------------------------------------------------------------------

STUB_CALLS = {"n": 0}


def url_stub(url_datapoints, sdmx_structure, sdmx_mappings=None):
    """same contract as the real function: ({name: Dataset}, {}, {name: DataFrame}) for the requested names"""
    from vtlengine.API._InternalApi import _load_dataset_from_structure
    from vtlengine.Exceptions import DataLoadError
    datasets, frames = {}, {}
    for name, url in url_datapoints.items():
        if not url.startswith(URL_BASE):
            raise DataLoadError(code="0-3-1-13", url=url, error="unknown host (C22 stub)")
        STUB_CALLS["n"] += 1
        st = ds2_struct()
        st["name"] = name
        d, _ = _load_dataset_from_structure({"datasets": [st]})
        datasets.update(d)
        frames[name] = make_ds2_frame(url.endswith("_duplicates"))
    return datasets, {}, frames


def install_stub():
    import vtlengine.API as A
    import vtlengine.API._InternalApi as I
    A._handle_url_datapoints = url_stub
    I._handle_url_datapoints = url_stub


# ------------------------------------------------------------------------------------------------
# corpus cases: the recorded public-API calls of the upstream suite, re-executed with a snapshot around them
# ------------------------------------------------------------------------------------------------

_CORPUS = {}


def _corpus():
    if not _CORPUS:
        from vtlmc import corpus
        for r in corpus.load():
            if r["fn"] in FUNCS:
                _CORPUS[r["id"]] = r
    return _CORPUS


def _kw_names(r):
    k = r["kwargs"]
    return [kv[0] for kv in k["$dict"]] if isinstance(k, dict) and "$dict" in k else list(k)


def _writes_output(r):
    """calls with an output folder are left out: the recorded folders live under /repo/tests"""
    from vtlmc import corpus
    a, k = corpus.materialise(r)
    if k.get("output_folder") is not None:
        return True
    return r["fn"] == "run" and len(a) > 7 and a[7] is not None


def corpus_cases():
    out = []
    for rid, r in sorted(_corpus().items()):
        if _writes_output(r):
            continue
        out.append({"fn": r["fn"], "corpus": rid, "test": r.get("test", "")})
    return out


_PARAMS = {
    "run": ["script", "data_structures", "datapoints", "value_domains", "external_routines", "time_period_output_format",
            "return_only_persistent", "output_folder", "scalar_values", "sdmx_mappings", "output_format"],
    "run_sdmx": ["script", "datasets", "mappings", "value_domains", "external_routines"],
    "semantic_analysis": ["script", "data_structures", "value_domains", "external_routines", "sdmx_mappings"],
    "validate_dataset": ["data_structures", "datapoints", "scalar_values"],
    "prettify": ["script"],
    "generate_sdmx": ["script", "agency_id", "id", "version"],
}


def _components_of(data_structures, name):
    """the component dicts of dataset `name` when data_structures is given in memory (else None)"""
    items = data_structures if isinstance(data_structures, list) else [data_structures]
    for it in items:
        if isinstance(it, dict):
            for d in it.get("datasets", []):
                if isinstance(d, dict) and d.get("name") == name and "DataStructure" in d:
                    return d["DataStructure"]
    return None


def frame_class(df, comps):
    """the equivalence class of a frame that was not built by make_frame (same vocabulary)"""
    labels = [str(x) for x in df.columns]
    if any(x.startswith(BOM) for x in labels):
        return "bom-column"
    if comps:
        names = [x["name"] for x in comps]
        missing = [x for x in comps if x["name"] not in labels]
        if missing:
            nullable = all(x.get("nullable", x.get("role") != "Identifier") for x in missing)
            return "missing-nullable-column" if nullable else "missing-non-nullable-column"
        if any(x not in names for x in labels):
            return "extra-column"
        for x in comps:
            if x.get("type", x.get("data_type")) != "String":
                col = df[x["name"]]
                if col.dtype == object or str(col.dtype).startswith(("str", "string")):
                    if any(isinstance(v, str) and v == "" for v in col.tolist()):
                        return "empty-string-in-non-string-column"
    return "corpus-frame"


def build_corpus(c, workdir):
    import pandas as pd
    from vtlmc import corpus
    r = _corpus()[c["corpus"]]
    args, kwargs = corpus.materialise(r)
    names = _PARAMS[c["fn"]]
    owned, reg = {}, {}
    for n, v in list(zip(names, args)) + list(kwargs.items()):
        if n in ("script", "data_structures", "datapoints", "value_domains", "external_routines", "scalar_values",
                 "sdmx_mappings", "datasets", "mappings"):
            owned[n] = v
    dsx = owned.get("data_structures")
    dpv = owned.get("datapoints")
    if isinstance(dpv, dict):
        for k, v in dpv.items():
            if isinstance(v, pd.DataFrame):
                reg[id(v)] = ("dataframe", frame_class(v, _components_of(dsx, k) if dsx is not None else None))
    return {"args": args, "kwargs": kwargs, "owned": owned, "registry": reg, "env": r.get("env") or {}}

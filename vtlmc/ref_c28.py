"""Reference model of viral-attribute propagation for property C28 (oracle O4 of DESIGN.md §3).

Plain Python over lists of dicts; nothing from /repo is imported.  Written from the property statement:

* result datapoints that COMBINE operand datapoints (dataset-dataset operators, nvl/if of two datasets, joins,
  aggregations, analytic partitions, hierarchy nodes) carry the declared rule applied over the viral values of
  the datapoints combined into them;
* ROW-PRESERVING dataset-level operators (unary, dataset-scalar, unpivot, check_datapoint) apply an enumerated rule
  per datapoint and an aggregate rule over the whole operand;
* clauses, plain assignment and set operators leave the values UNCHANGED.

An enumerated rule is an ordered list of clauses ``when v1 [and v2] then r`` plus an optional default.  A pair of
values (a, b) matches a two-value clause when both clause values occur in the pair, a one-value clause when the
value occurs in the pair (the clause value ``null`` occurs when a or b is null).  Two-value clauses are looked
at before one-value clauses (the engine's documented convention; pinned by tests/ViralAttributes 1-2, 4-7); a rule
that DECLARES a one-value clause before a two-value clause is also allowed to be read in declaration order
(nothing in the repository pins that case) -- every function below therefore returns the SET of acceptable values.

Decisions about points the repository does not pin (written down once, see Check.ASSUMPTIONS in checks/C28.py):
  D1 declaration-order reading accepted next to two-value-first (only when a one-value clause precedes a two-value one)
  D2 a group / partition / join result built from ONE datapoint may carry the raw value or the per-datapoint mapping
  D3 an operand without a matching datapoint (left/full join) may count as null or may be left out
  D4 ``aggregate sum|avg`` over MORE than two values with some null: null-ignoring (VTL aggregate) or null result;
     over exactly two values (binary operator, two-operand join) null if either is null (pinned by 1-8)
  D5 min / max ignore nulls (pinned by 1-7, 4-12)
  D6 a non-associative enumerated rule over >= 3 values: any fold order is acceptable (the check separately demands
     that the engine's choice does not depend on the physical order of the input rows)
"""
import itertools
import re

ABSENT = "<absent>"
VIRAL_ROLES = ("ViralAttribute", "Viral Attribute")


def is_viral(role):
    return str(role).replace(" ", "") == "ViralAttribute"


# ---------------------------------------------------------------------------------------------------------
# rules
# ---------------------------------------------------------------------------------------------------------

def _lit(v):
    if v is None:
        return "null"
    if isinstance(v, str):
        return '"%s"' % v
    return repr(v)


class Rule:
    def __init__(self, var, clauses=None, default=None, has_default=False, fn=None, name=None, labels=False):
        self.var = var
        self.clauses = [(tuple(c), r) for c, r in (clauses or [])]
        self.default = default if has_default else None
        self.has_default = bool(has_default)
        self.fn = fn
        self.name = name or ("VP_" + var)
        self.labels = labels

    # -- (de)serialisation ---------------------------------------------------------------------------
    def spec(self):
        return {"var": self.var, "clauses": [[list(c), r] for c, r in self.clauses], "default": self.default,
                "has_default": self.has_default, "fn": self.fn, "name": self.name, "labels": self.labels}

    @staticmethod
    def from_spec(s):
        return Rule(s["var"], s.get("clauses"), s.get("default"), s.get("has_default"), s.get("fn"), s.get("name"),
                    s.get("labels", False))

    @property
    def kind(self):
        return "aggregate" if self.fn else "enumerated"

    def kind_key(self):
        return "aggregate-%s" % self.fn if self.fn else "enumerated"

    def shape(self):
        if self.fn:
            return "agg:" + self.fn
        s = "".join("B" if len(c) == 2 else "U" for c, _ in self.clauses)
        return s + ("+else" if self.has_default else "")

    def vtl(self):
        if self.fn:
            body = "aggregate %s" % self.fn
        else:
            parts = []
            for i, (c, r) in enumerate(self.clauses):
                lab = "r%d: " % (i + 1) if self.labels else ""
                parts.append("%swhen %s then %s" % (lab, " and ".join(_lit(v) for v in c), _lit(r)))
            if self.has_default:
                parts.append("else %s" % _lit(self.default))
            body = "; ".join(parts)
        return "define viral propagation %s (variable %s) is %s end viral propagation;" % (self.name, self.var, body)

    # -- enumerated ------------------------------------------------------------------------------------
    def readings(self):
        # the engine's propagation model is explicit (ViralPropagation/sql.py, _enumerated_case: "binary clauses first,
        # then unary, then default"): a two-value clause wins over a one-value clause whatever the declaration order.
        # (An earlier version of this model also accepted the declaration-order reading; that was looser than the
        # property, which refers to the engine's model, and hid a seeded change of exactly this precedence.)
        return ("two-first",)

    @staticmethod
    def _occurs(v, a, b):
        if v is None:
            return a is None or b is None
        return (a is not None and a == v) or (b is not None and b == v)

    def _pair1(self, a, b, reading):
        order = list(self.clauses)
        if reading == "two-first":
            order = [c for c in order if len(c[0]) == 2] + [c for c in order if len(c[0]) == 1]
        for cond, res in order:
            if all(self._occurs(v, a, b) for v in cond):
                return res
        return self.default

    def _single1(self, a, reading):
        for cond, res in self.clauses:
            if len(cond) == 1 and ((cond[0] is None and a is None) or (cond[0] is not None and cond[0] == a)):
                return res
        return self.default

    # -- aggregate ---------------------------------------------------------------------------------------
    def _agg(self, values):
        nn = [v for v in values if v is not None]
        if not nn:
            return None
        if self.fn == "min":
            return min(nn)
        if self.fn == "max":
            return max(nn)
        if self.fn == "sum":
            return sum(nn)
        return sum(nn) / float(len(nn))

    # -- acceptable sets ---------------------------------------------------------------------------------
    def pair(self, a, b):
        """two datapoints combined by a dataset-dataset operator"""
        if self.fn:
            if self.fn in ("min", "max"):
                return {self._agg([a, b])}
            if a is None or b is None:
                return {None}                                                        # D4 (pinned by 1-8)
            return {self._agg([a, b])}
        return {self._pair1(a, b, r) for r in self.readings()}

    def pair_sets(self, sa, sb):
        out = set()
        for a in sa:
            for b in sb:
                out |= self.pair(a, b)
        return out

    def single(self, a):
        """one datapoint of a row-preserving operator under an enumerated rule"""
        return {self._single1(a, r) for r in self.readings()}

    def whole(self, values):
        """aggregate rule over the whole operand of a row-preserving operator"""
        values = list(values)
        out = {self._agg(values)}
        if self.fn in ("sum", "avg") and any(v is None for v in values) and len(values) > 1:
            out.add(None)                                                                # D4
        return out

    def folds(self, values):
        """enumerated rule: results of folding the pair function over every order of the values (D6)"""
        values = list(values)
        out = set()
        for reading in self.readings():
            for perm in set(itertools.permutations(values)):
                acc = perm[0]
                for v in perm[1:]:
                    acc = self._pair1(acc, v, reading)
                out.add(acc)
        return out

    def fold_in_order(self, values):
        out = set()
        for reading in self.readings():
            acc = values[0]
            for v in values[1:]:
                acc = self._pair1(acc, v, reading)
            out.add(acc)
        return out

    def order_sensitive(self, values):
        """True when folding this multiset in different orders gives different values (non-associative on it)"""
        if self.fn or len(values) < 3:
            return False
        for reading in self.readings():
            res = set()
            for perm in set(itertools.permutations(values)):
                acc = perm[0]
                for v in perm[1:]:
                    acc = self._pair1(acc, v, reading)
                res.add(acc)
            if len(res) > 1:
                return True
        return False

    def combine(self, values, mode="group"):
        """n >= 1 datapoints combined into one.  mode "group": aggregation group, analytic partition, hierarchy node;
        mode "join": one datapoint per join operand, entries may be ABSENT (outer join without a matching datapoint)"""
        values = list(values)
        present = [v for v in values if v is not ABSENT]
        if not present:
            return {None}
        variants = [present]
        if len(present) != len(values):
            variants.append([None if v is ABSENT else v for v in values])                  # D3
        out = set()
        for vs in variants:
            if self.fn:
                if len(vs) == 1:
                    out.add(vs[0])
                elif len(vs) == 2 and mode == "join":
                    out |= self.pair(vs[0], vs[1])
                else:
                    out |= self.whole(vs)
            elif len(vs) == 1:
                out.add(vs[0])                                                               # D2
                out |= self.single(vs[0])
            elif mode == "join":
                # the operands of a join are an ordered list and the engine's model folds the pair rule across that
                # ordered list (ViralPropagation/sql.py, vp_reduce_refs): ((v1 . v2) . v3); only groups of datapoints,
                # which have no order, may be folded in any order (D6)
                out |= self.fold_ordered(vs)
            else:
                out |= self.folds(vs)
        return out

    def fold_ordered(self, values):
        out = set()
        for reading in self.readings():
            acc = values[0]
            for v in values[1:]:
                acc = self._pair1(acc, v, reading)
            out.add(acc)
        return out

    def rowwise(self, value, all_values):
        """a datapoint of a row-preserving dataset-level operator"""
        if self.fn:
            return self.whole(all_values)
        return self.single(value)


# ---------------------------------------------------------------------------------------------------------
# parsing ``define viral propagation`` out of a script (only used by the calibration gate)
# ---------------------------------------------------------------------------------------------------------

_DEF = re.compile(r"define\s+viral\s+propagation\s+(\w+)\s*\(\s*(variable|valuedomain)\s+(\w+)\s*\)\s+is\s+(.*?)\s+end\s+viral\s+propagation\s*;?",
                  re.S | re.I)


def _const(tok):
    tok = tok.strip()
    if tok.lower() == "null":
        return None
    if tok.startswith('"') and tok.endswith('"'):
        return tok[1:-1]
    try:
        return int(tok)
    except ValueError:
        return float(tok)


def parse_rules(script):
    """-> ({variable: Rule}, script without the definitions); value-domain rules are returned under '@vd:<name>'"""
    rules = {}
    for m in _DEF.finditer(script):
        name, sig, target, body = m.group(1), m.group(2).lower(), m.group(3), m.group(4).strip()
        key = target if sig == "variable" else "@vd:" + target
        ma = re.match(r"aggregate\s+(min|max|sum|avg)\s*$", body, re.I)
        if ma:
            rules[key] = Rule(target, fn=ma.group(1).lower(), name=name)
            continue
        clauses, default, has_default = [], None, False
        for part in [p.strip() for p in body.split(";") if p.strip()]:
            part = re.sub(r"^\w+\s*:\s*", "", part)
            me = re.match(r"else\s+(.+)$", part, re.S | re.I)
            if me:
                default, has_default = _const(me.group(1)), True
                continue
            mw = re.match(r"when\s+(.+?)\s+then\s+(.+)$", part, re.S | re.I)
            if not mw:
                raise ValueError("cannot parse viral clause %r" % part)
            conds = [_const(x) for x in re.split(r"\s+and\s+", mw.group(1))]
            clauses.append((conds, _const(mw.group(2))))
        rules[key] = Rule(target, clauses, default, has_default, name=name)
    return rules, _DEF.sub("", script)


# ---------------------------------------------------------------------------------------------------------
# datasets (duck-typed: .comps = [(name, type, role, nullable)], .rows = [dict])
# ---------------------------------------------------------------------------------------------------------

def ids_of(ds):
    return [c[0] for c in ds.comps if c[2] == "Identifier"]


def virals_of(ds):
    return [c[0] for c in ds.comps if is_viral(c[2])]


def _key(row, ids):
    return tuple(row.get(i) for i in ids)


def _index(ds, ids):
    return {_key(r, ids): r for r in ds.rows}


def _cmp(a, op, b):
    if a is None or b is None:
        return None
    return {">": a > b, "<": a < b, ">=": a >= b, "<=": a <= b, "=": a == b, "<>": a != b}[op]


class Acc(set):
    """set of acceptable values of one viral attribute of one result datapoint + the input values combined into it"""

    def __init__(self, values, inputs):
        set.__init__(self, values)
        self.inputs = list(inputs)


class Expected:
    """ids: identifier names of the result in key order; rows: {key: {viral name: Acc}};
    exact: the key set of the result must equal rows' keys (else: every result key must be in rows)"""

    def __init__(self, ids, rows, exact=True, info=None):
        self.ids, self.rows, self.exact, self.info = ids, rows, exact, info or {}


def _pair_tree(tree, data, rules):
    """nested dataset-dataset operator: tree = name | [tree, tree] -> (ids, {key: {var: Acc}}, viral names)"""
    if isinstance(tree, str):
        ds = data[tree]
        ids = ids_of(ds)
        vs = virals_of(ds)
        return ids, {_key(r, ids): {v: Acc({r.get(v)}, [r.get(v)]) for v in vs} for r in ds.rows}, vs
    (lids, lrows, lv), (rids, rrows, rv) = _pair_tree(tree[0], data, rules), _pair_tree(tree[1], data, rules)
    if lids != rids:
        raise ValueError("pair model needs equal identifiers")
    out = {}
    for k, lvals in lrows.items():
        if k not in rrows:
            continue
        vals = {}
        for v in lv:
            # a viral attribute present in one operand only: not modelled (left out of the comparison)
            if v in rv and v in rules and v in lvals and v in rrows[k]:
                vals[v] = Acc(rules[v].pair_sets(lvals[v], rrows[k][v]), lvals[v].inputs + rrows[k][v].inputs)
        out[k] = vals
    return lids, out, [v for v in lv if v in rv]


def _raw(r, vs):
    return {v: Acc({r.get(v)}, [r.get(v)]) for v in vs}


def expect(stmt, rules, data):
    """stmt: descriptor dict (see checks/C28.py); rules: {viral variable: Rule}; data: {dataset name: DS}"""
    ctx = stmt["ctx"]
    if ctx == "pair":
        ids, rows, _ = _pair_tree(stmt["ops"], data, rules)
        return Expected(ids, rows)

    if ctx == "if":
        # the repository pins neither "combine the then- and the else-datapoint" nor "take the chosen branch": both accepted
        cond, then, els = data[stmt["ops"][0]], data[stmt["ops"][1]], data[stmt["ops"][2]]
        ids = ids_of(then)
        ci, ti, ei = _index(cond, ids), _index(then, ids), _index(els, ids)
        shared = [v for v in virals_of(then) if v in virals_of(els) and v in rules]
        rows = {}
        for k in ci:
            if k not in ti and k not in ei:
                continue
            vals = {}
            for v in shared:
                t = ti[k].get(v) if k in ti else ABSENT
                e = ei[k].get(v) if k in ei else ABSENT
                acc = set(rules[v].combine([t, e], "join"))
                for x in (t, e):
                    if x is not ABSENT:
                        acc |= rules[v].combine([x], "join")
                vals[v] = Acc(acc, [t, e])
            rows[k] = vals
        return Expected(ids, rows, exact=False)

    if ctx == "row" and isinstance(stmt["ops"][0], list):
        # row-preserving operator applied to a nested dataset-dataset expression
        ids, prow, _ = _pair_tree(stmt["ops"][0], data, rules)
        rows = {}
        for k, vals in prow.items():
            o = {}
            for v, s in vals.items():
                if rules[v].fn:
                    combos = itertools.product(*[sorted(prow[kk][v], key=repr) for kk in prow if v in prow[kk]])
                    acc = set()
                    for n, combo in enumerate(combos):
                        acc |= rules[v].whole(list(combo))
                        if n > 64:
                            break
                    o[v] = Acc(acc, s.inputs)
                else:
                    acc = set()
                    for x in s:
                        acc |= rules[v].single(x)
                    o[v] = Acc(acc, s.inputs)
            rows[k] = o
        return Expected(ids, rows)

    if ctx in ("row", "unpivot", "check_dp"):
        ds = data[stmt["ops"][0]]
        ids = ids_of(ds)
        vs = [v for v in virals_of(ds) if v in rules]
        allv = {v: [r.get(v) for r in ds.rows] for v in vs}
        rows = {}
        for r in ds.rows:
            vals = {v: Acc(rules[v].rowwise(r.get(v), allv[v]), allv[v] if rules[v].fn else [r.get(v)]) for v in vs}
            if ctx == "row":
                rows[_key(r, ids)] = vals
            elif ctx == "unpivot":
                for m in stmt["measures"]:
                    if not (m in r and r[m] is None):         # unpivot drops null measure values; computed measures are non-null here
                        rows[_key(r, ids) + (m,)] = vals
            else:
                for rid in stmt["rule_ids"]:
                    rows[_key(r, ids) + (rid,)] = vals
        if ctx == "unpivot":
            return Expected(ids + [stmt["new_id"]], rows)
        if ctx == "check_dp":
            return Expected(ids + ["ruleid"], rows, exact=stmt.get("output") in ("all", "all_measures"))
        return Expected(ids, rows)

    if ctx == "same":
        ds = data[stmt["ops"][0]]
        ids = ids_of(ds)
        rows = {}
        for r in ds.rows:
            f = stmt.get("filter")
            if f and _cmp(r.get(f[0]), f[1], f[2]) is not True:
                continue
            rows[_key(r, ids)] = _raw(r, virals_of(ds))
        return Expected(ids, rows)

    if ctx in ("union", "intersect", "setdiff", "symdiff"):
        dss = [data[n] for n in stmt["ops"]]
        ids = ids_of(dss[0])
        idx = [_index(d, ids) for d in dss]
        vs = virals_of(dss[0])
        rows = {}
        if ctx == "union":
            for ix in idx:
                for k, r in ix.items():
                    if k not in rows:
                        rows[k] = _raw(r, vs)
        elif ctx == "intersect":
            for k, r in idx[0].items():
                if all(k in ix for ix in idx[1:]):
                    rows[k] = _raw(r, vs)
        elif ctx == "setdiff":
            for k, r in idx[0].items():
                if k not in idx[1]:
                    rows[k] = _raw(r, vs)
        else:
            for a, b in ((idx[0], idx[1]), (idx[1], idx[0])):
                for k, r in a.items():
                    if k not in b:
                        rows[k] = _raw(r, vs)
        return Expected(ids, rows)

    if ctx == "join":
        dss = [data[n] for n in stmt["ops"]]
        kind = stmt["kind"]
        shared = [v for v in virals_of(dss[0]) if all(v in virals_of(d) for d in dss[1:]) and v in rules]
        only_first = [v for v in virals_of(dss[0]) if not any(v in virals_of(d) for d in dss[1:])]
        if kind == "cross":
            idl = [ids_of(d) for d in dss]
            ids = [i for l in idl for i in l]
            rows = {}
            for combo in itertools.product(*[d.rows for d in dss]):
                k = tuple(x for r, l in zip(combo, idl) for x in _key(r, l))
                rows[k] = {v: Acc(rules[v].combine([r.get(v) for r in combo], "join"), [r.get(v) for r in combo]) for v in shared}
            return Expected(ids, rows)
        ids = ids_of(dss[0])
        idx = [_index(d, ids) for d in dss]
        if kind == "inner":
            keys = [k for k in idx[0] if all(k in ix for ix in idx[1:])]
        elif kind == "left":
            keys = list(idx[0])
        else:
            keys = []
            for ix in idx:
                keys += [k for k in ix if k not in keys]
        rows = {}
        for k in keys:
            f = stmt.get("filter")
            if f:
                src = next((ix[k] for ix in idx if k in ix and f[0] in ix[k]), None)
                if src is None or _cmp(src.get(f[0]), f[1], f[2]) is not True:
                    continue
            vals = {}
            for v in shared:
                ins = [ix[k].get(v) if k in ix else ABSENT for ix in idx]
                vals[v] = Acc(rules[v].combine(ins, "join"), ins)
            for v in only_first:
                if k in idx[0]:
                    vals[v] = Acc({idx[0][k].get(v)}, [idx[0][k].get(v)])
            rows[k] = vals
        return Expected(ids, rows)

    if ctx in ("group", "analytic"):
        ds = data[stmt["ops"][0]]
        by = stmt["by"]
        ids = ids_of(ds)
        vs = [v for v in virals_of(ds) if v in rules]
        groups = {}
        for r in ds.rows:
            groups.setdefault(_key(r, by), []).append(r)
        rows = {}
        for gk, rs in groups.items():
            vals = {v: Acc(rules[v].combine([r.get(v) for r in rs]), [r.get(v) for r in rs]) for v in vs}
            if ctx == "group":
                rows[gk] = vals
            else:
                for r in rs:
                    rows[_key(r, ids)] = vals
        return Expected(list(by) if ctx == "group" else ids, rows)

    if ctx == "hier":
        ds = data[stmt["ops"][0]]
        comp = stmt["comp"]
        ids = ids_of(ds)
        other = [i for i in ids if i != comp]
        vs = [v for v in virals_of(ds) if v in rules]
        groups = {}
        for r in ds.rows:
            groups.setdefault(_key(r, other), {})[r.get(comp)] = r
        rows = {}
        for gk, items in groups.items():
            node = {}                                   # computed code item -> {var: Acc}
            for parent, children in stmt["rules"]:
                vals = {}
                for v in vs:
                    # every child that contributes a value: leaves present in the data, nodes computed before
                    opts, ins = [], []
                    for c in children:
                        if c in node:
                            opts.append(node[c][v])
                            ins += node[c][v].inputs
                        elif c in items:
                            opts.append({items[c].get(v)})
                            ins.append(items[c].get(v))
                    if not opts:
                        vals = None
                        break
                    acc = set()
                    for combo in itertools.product(*opts):
                        acc |= rules[v].combine(list(combo))
                    vals[v] = Acc(acc, ins)
                if vals is not None:
                    node[parent] = vals
            for parent, vals in node.items():
                rows[_full_key(ids, other, gk, comp, parent)] = vals
            if stmt.get("output") == "all":
                for code, r in items.items():
                    if code not in node:
                        rows[_full_key(ids, other, gk, comp, code)] = {
                            v: Acc({r.get(v)} | (set() if rules[v].fn else rules[v].single(r.get(v))), [r.get(v)]) for v in vs}
        return Expected(ids, rows, exact=False)

    if ctx == "check_hier":
        ds = data[stmt["ops"][0]]
        comp = stmt["comp"]
        ids = ids_of(ds)
        vs = [v for v in virals_of(ds) if v in rules]
        parents = [p for p, _ in stmt["rules"]]
        validated = [r for r in ds.rows if r.get(comp) in parents]
        rows = {}
        for r in validated:
            vals = {}
            for v in vs:
                if rules[v].fn:
                    vals[v] = Acc(rules[v].whole([x.get(v) for x in validated]) | rules[v].whole([x.get(v) for x in ds.rows]),
                                  [x.get(v) for x in ds.rows])
                else:
                    vals[v] = Acc(rules[v].single(r.get(v)) | {r.get(v)}, [r.get(v)])
            for rid in stmt["rule_ids"]:
                rows[_key(r, ids) + (rid,)] = vals
        return Expected(ids + ["ruleid"], rows, exact=False)

    if ctx == "check":
        ids, rows, shared = _pair_tree(stmt["ops"], data, rules)
        out = {}
        for k, vals in rows.items():
            o = {}
            for v, s in vals.items():
                if v not in rules:
                    continue
                if rules[v].fn:
                    allv = [x for kk in rows for x in rows[kk].get(v, ())]
                    o[v] = Acc(set(s) | rules[v].whole(allv), s.inputs)
                else:
                    acc = set(s)
                    for x in s:
                        acc |= rules[v].single(x)
                    o[v] = Acc(acc, s.inputs)
            out[k] = o
        return Expected(ids, out, exact=not stmt.get("invalid"))

    raise ValueError("context %r not modelled" % ctx)


def _full_key(ids, other, gk, comp, code):
    d = dict(zip(other, gk))
    d[comp] = code
    return tuple(d[i] for i in ids)


def eq_class(rule, inputs):
    """equivalence class of the values combined into a result datapoint (domain vocabulary, no raw values)"""
    present = [v for v in inputs if v is not ABSENT]
    nulls = sum(1 for v in present if v is None)
    s = "%d-value%s" % (len(present), "" if len(present) == 1 else "s")
    if nulls == len(present):
        s += ":all-null"
    elif nulls:
        s += ":some-null"
    else:
        s += ":no-null"
    if len(present) != len(inputs):
        s += ":unmatched-operand"
    if rule is not None and not rule.fn and rule.order_sensitive(present):
        s += ":order-sensitive-rule"
    return s

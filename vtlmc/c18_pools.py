"""Shared input space of C18 / C19 / C20: cell pools, the documentation-driven spelling generator,
the reference calendar (O3), table builders and the materialisers of one table in every input form.

Vocabulary
----------
cell    {"t": text or None (= null), "cls": equivalence class in domain vocabulary, "exp": "valid" |
        "invalid" | "silent" (documentation says nothing: no expectation), "val": expected value spec}
spec    a table: {"comps": [[name, type, role, nullable]...], "cols": [...], "rows": [[text|None...]...],
        "cellcol": name of the column under test or None}
form    csv | df (what pandas infers from python str) | df-object | df-str | df-string | df-native |
        pq-str | pq-native

Nothing here decides a verdict; the oracles are in the checks.  The expectations ("exp"/"val") are written
from docs/data_types.rst (parsed at run time by ``parse_docs``) and the calendar below, never from the code.
"""
import datetime as _dt
import itertools
import os
import re

from vtlmc import harness

TYPES = ("Integer", "Number", "Boolean", "String", "Date", "Time_Period", "Time", "Duration")
ROLES = {"id": ("Identifier", False), "nm": ("Measure", True), "nn": ("Measure", False)}
SCRIPT = "DS_r <- DS_1;"
INPUT_ERRORS = ("DataLoadError", "InputValidationException")
YEARS = (1799, 1800, 1999, 2020, 2021, 9999, 10000)


def cell(t, cls, exp="silent", val=None, **kw):
    d = {"t": t, "cls": cls, "exp": exp, "val": val}
    d.update(kw)
    return d


# ------------------------------------------------------------------------------------------------
# O3: reference calendar (python datetime only; shares nothing with vtlengine)
# ------------------------------------------------------------------------------------------------

def is_leap(y):
    return y % 4 == 0 and (y % 100 != 0 or y % 400 == 0)


def days_in_year(y):
    return 366 if is_leap(y) else 365


def weeks_in_year(y):
    """number of ISO-8601 weeks of year y (28 December is always in the last week)"""
    return _dt.date(y, 12, 28).isocalendar()[1]


def valid_date(y, m, d):
    if not (1 <= y <= 9999):
        return False
    try:
        _dt.date(y, m, d)
        return True
    except ValueError:
        return False


def day_of_year(y, m, d):
    return (_dt.date(y, m, d) - _dt.date(y, 1, 1)).days + 1


def last_day_of_month(y, m):
    for d in (31, 30, 29, 28):
        if valid_date(y, m, d):
            return d
    raise ValueError((y, m))


def max_period(ind, y):
    return {"A": 1, "S": 2, "Q": 4, "M": 12, "W": weeks_in_year(y) if 1 <= y <= 9999 else 53,
            "D": days_in_year(y)}[ind]


# ------------------------------------------------------------------------------------------------
# O2: docs/data_types.rst parsed at run time
# ------------------------------------------------------------------------------------------------

def _rst_tables(lines):
    """-> list of (line index of '.. list-table::', rows) ; rows = list of list of cell text"""
    out = []
    i = 0
    while i < len(lines):
        if lines[i].strip().startswith(".. list-table::"):
            start = i
            i += 1
            rows, cur = [], None
            while i < len(lines) and (not lines[i].strip() or lines[i].startswith(" ")):
                s = lines[i].strip()
                if s.startswith("* - "):
                    cur = [s[4:].strip()]
                    rows.append(cur)
                elif s.startswith("- ") and cur is not None:
                    cur.append(s[2:].strip())
                elif s and not s.startswith(":") and cur is not None:
                    cur[-1] += " " + s
                i += 1
            out.append((start, rows))
        else:
            i += 1
    return out


def _literals(text):
    return [x.strip('"') for x in re.findall(r"``([^`]+)``", text)]


def parse_docs(path=None):
    """the documented input / output formats; raises ValueError when a table cannot be found"""
    path = path or os.path.join(harness.REPO, "docs", "data_types.rst")
    lines = open(path, encoding="utf-8").read().split("\n")
    tables = _rst_tables(lines)

    def first_table_after(pred):
        for n, ln in enumerate(lines):
            if pred(n, ln):
                for start, rows in tables:
                    if start > n:
                        return rows
        raise ValueError("docs: table not found")

    def section(title):
        def pred(n, ln):
            return ln.strip() == title and n + 1 < len(lines) and set(lines[n + 1].strip()) == {"="}
        rows = first_table_after(pred)
        return {re.sub(r"[*]", "", r[0]).strip(): r[1] for r in rows if len(r) >= 2}

    d = {}
    sec = {t: section(t) for t in ("String", "Integer", "Number", "Boolean", "Date", "Time_Period",
                                   "Time (TimeInterval)", "Duration")}
    d["sections"] = sec
    # Date
    date_in = sec["Date"]["Input (CSV)"]
    m = re.search(r"Year range:\s*(\d{4})\s*[–-]\s*(\d{4})", date_in)
    if not m:
        raise ValueError("docs: Date year range not found")
    d["date_years"] = (int(m.group(1)), int(m.group(2)))
    d["date_examples"] = [x for x in _literals(date_in) if re.match(r"\d{4}-", x)]
    d["date_output"] = [x for x in _literals(sec["Date"]["Output format"]) if x.startswith("YYYY")]
    # Boolean
    b = sec["Boolean"]["Input (CSV)"]
    d["bool_literals"] = [x for x in _literals(b)]
    d["bool_case_insensitive"] = "case-insensitive" in b
    # Duration
    du = sec["Duration"]["Input (CSV/DataFrame)"]
    d["duration_letters"] = re.findall(r'``"([A-Za-z])"``\s*\(', du)
    # Time
    ti = sec["Time (TimeInterval)"]["Input (CSV/DataFrame)"]
    d["time_literals"] = _literals(ti)
    d["time_internal"] = _literals(sec["Time (TimeInterval)"]["Internal representation"])
    # Time_Period accepted input formats
    rows = first_table_after(lambda n, ln: ln.strip().startswith("**Accepted input formats"))
    d["tp_formats"] = [(r[0], _literals(r[1]), _literals(r[2])) for r in rows[1:] if len(r) >= 3]
    # Time_Period output formats: header row + one row per representation
    rows = first_table_after(lambda n, ln: ln.strip().startswith("**Output formats**"))
    header = [h.strip() for h in rows[0]]
    d["tp_output"] = {}
    for r in rows[1:]:
        name = _literals(r[0])[0]
        d["tp_output"][name] = {header[k]: (_literals(r[k]) or [None])[0] for k in range(1, len(r))}
    if not d["tp_formats"] or "vtl" not in d["tp_output"] or len(d["duration_letters"]) < 2:
        raise ValueError("docs: tables incomplete")
    return d


_PERIOD_ROW_IND = {"Annual": "A", "Semester": "S", "Quarter": "Q", "Monthly": "M", "Weekly": "W", "Daily": "D"}
_OUT_COL = {"A": "Annual", "S": "Semester", "Q": "Quarter", "M": "Month", "W": "Week", "D": "Day"}


def interpret_tp_format(fmt):
    """a pattern of the 'Formats' column -> dict(kind, hyphen, ind, widths) or None if not understood

    kinds: year | ind-bare (YYYYA) | ind-literal (YYYY-A1) | ind-num | iso-month | iso-date
    """
    if not fmt.startswith("YYYY"):
        return None
    rest = fmt[4:]
    if rest == "":
        return {"kind": "year", "hyphen": False, "ind": "A", "widths": ()}
    hyphen = rest.startswith("-")
    if hyphen:
        rest = rest[1:]
    if hyphen and rest in ("M", "MM"):
        return {"kind": "iso-month", "hyphen": True, "ind": "M", "widths": (len(rest),)}
    if hyphen and rest == "MM-DD":
        return {"kind": "iso-date", "hyphen": True, "ind": "D", "widths": ()}
    if not rest or rest[0] not in "ASQMWD":
        return None
    ind, ph = rest[0], rest[1:]
    if ph == "":
        return {"kind": "ind-bare", "hyphen": hyphen, "ind": ind, "widths": ()}
    if ph.isdigit():
        return {"kind": "ind-literal", "hyphen": hyphen, "ind": ind, "widths": (len(ph),), "literal": int(ph)}
    m = re.fullmatch(r"(?:\[([a-z]+)\])?([a-z]+)", ph)
    if not m:
        return None
    opt, req = len(m.group(1) or ""), len(m.group(2))
    return {"kind": "ind-num", "hyphen": hyphen, "ind": ind, "widths": tuple(range(req, req + opt + 1))}


def tp_output_forms(docs, ind, year, n, representation="vtl"):
    """every rendering of period (ind, year, n) compatible with the example of the output-format table"""
    ex = docs["tp_output"][representation][_OUT_COL[ind]]
    if ex is None or not re.match(r"\d{4}", ex):
        return None
    body = ex[4:]
    if ind == "A":
        return ["%04d%s" % (year, body)]
    m = re.fullmatch(r"(-?)([A-Z])(\d+)", body)
    if not m:
        return None
    lo, hi = len(str(n)), max(len(str(n)), len(m.group(3)))
    if m.group(3).startswith("0") or len(m.group(3)) == 1:
        lo = hi = max(len(str(n)), len(m.group(3)))      # the example itself fixes the padding
    return ["%04d%s%s%s" % (year, m.group(1), m.group(2), str(n).zfill(w)) for w in range(lo, hi + 1)]


def _range_class(ind, year, n):
    """equivalence class of a period number, domain vocabulary: inside the calendar of the year, outside the
    absolute range of the indicator (0, 13th month, 54th week, 367th day...), or only outside this year's calendar"""
    if year > 9999 or year < 0:
        return "five-digit-year"
    if 1 <= n <= max_period(ind, year):
        return "in-range"
    if ind == "W" and n == 53:
        return "week-53-of-52-week-year"
    if ind == "D" and n == 366:
        return "day-366-of-common-year"
    return "number-0" if n == 0 else "number-above-maximum"


def c19_time_period(docs, years, light=()):
    """every documented spelling x period numbers 0..max+1 x years (+ undocumented widths as 'silent')"""
    out, seen = [], set()

    def add(t, cls, exp, val=None, **kw):
        if t in seen:
            return
        seen.add(t)
        out.append(cell(t, cls, exp, val, **kw))

    formats = []
    for period, fmts, examples in docs["tp_formats"]:
        for f in fmts:
            it = interpret_tp_format(f)
            if it is None:
                raise ValueError("docs: Time_Period format %r not understood" % f)
            formats.append((f, it))
    documented_widths = {}
    for f, it in formats:
        if it["kind"] == "ind-num":
            documented_widths.setdefault((it["ind"], it["hyphen"]), set()).update(it["widths"])
    for y in years:
        ys = str(y)
        bad_year = len(ys) != 4
        for f, it in formats:
            ind, hy = it["ind"], "-" if it["hyphen"] else ""
            if it["kind"] == "year":
                add(ys, "A:%s" % ("five-digit-year" if bad_year else "in-range"), "invalid" if bad_year else "valid",
                    None if bad_year else {"any": tp_output_forms(docs, "A", y, 1)}, fmt=f)
            elif it["kind"] == "ind-bare":
                add(ys + hy + ind, "A:%s" % ("five-digit-year" if bad_year else "in-range"),
                    "invalid" if bad_year else "valid", None if bad_year else {"any": tp_output_forms(docs, "A", y, 1)}, fmt=f)
            elif it["kind"] == "ind-literal":
                for n in (0, 1, 2):
                    ok = n == it["literal"] and not bad_year
                    add(ys + hy + ind + str(n).zfill(it["widths"][0]), "%s:%s" % (ind, _range_class(ind, y, n)),
                        "valid" if ok else "invalid", {"any": tp_output_forms(docs, ind, y, n)} if ok else None, fmt=f)
            elif it["kind"] in ("ind-num", "iso-month"):
                mx = max_period(ind, y if not bad_year else 2021)
                for n in (range(0, mx + 2) if not bad_year and y not in light else ((1, mx) if bad_year else (0, 1, mx, mx + 1))):
                    for w in it["widths"]:
                        if len(str(n)) > w:
                            continue
                        ok = (1 <= n <= mx) and not bad_year
                        add(ys + hy + (ind if it["kind"] == "ind-num" else "") + str(n).zfill(w),
                            "%s:%s" % (ind, _range_class(ind, y, n)), "valid" if ok else "invalid",
                            {"any": tp_output_forms(docs, ind, y, n)} if ok else None, fmt=f)
            elif it["kind"] == "iso-date":
                for mth in (range(0, 14) if y not in light else (2, 13)):
                    for day in ((1, 15, 28, 29, 30, 31, 32) if 1 <= mth <= 12 else (15,)):
                        ok = valid_date(y, mth, day) and not bad_year
                        if bad_year:
                            cls = "D:five-digit-year"
                        elif ok:
                            cls = "D:calendar-date"
                        else:
                            cls = "D:nonexistent-calendar-date"
                        add("%s-%02d-%02d" % (ys, mth, day), cls, "valid" if ok else "invalid",
                            {"any": tp_output_forms(docs, "D", y, day_of_year(y, mth, day))} if ok else None, fmt=f)
        # widths the table does not list (e.g. 2020-W1, 2020Q01): documentation silent -> no expectation
        if not bad_year:
            for (ind, hyb), ws in sorted(documented_widths.items()):
                for w in range(1, 4):
                    if w in ws:
                        continue
                    for n in (1, max_period(ind, y)):
                        if len(str(n)) <= w:
                            add(ys + ("-" if hyb else "") + ind + str(n).zfill(w), "%s:undocumented-width" % ind, "silent",
                                fmt="width-%d" % w)
    # every literal of the Examples column must itself be accepted when a documented format covers it
    for period, fmts, examples in docs["tp_formats"]:
        for ex in examples:
            if ex not in seen:
                add(ex, "%s:example-not-matching-any-documented-format" % _PERIOD_ROW_IND.get(period, "?"), "silent",
                    fmt="example")
    # lexical negatives / silent spellings
    add("2020X1", "unknown-indicator", "invalid")
    add("202M1", "three-digit-year", "invalid")
    add("2020-", "dangling-hyphen", "invalid")
    add("M1", "missing-year", "invalid")
    add("2020M", "indicator-without-number", "invalid")
    add("2020m1", "lower-case-indicator", "silent")
    add(" 2020M1", "leading-space", "silent")
    add("2020A1", "A:compact-with-number", "silent")
    add("2020-A", "A:hyphenated-without-number", "silent")
    return out


_TIME_VARIANTS = (
    ("", "date", None), ("T10:30:00", "datetime-T", "10:30:00"), (" 10:30:00", "datetime-space", "10:30:00"),
    ("T10:30", "partial-time", "bad"), ("T10", "partial-time", "bad"), ("T10:30:00Z", "timezone-Z", "10:30:00"),
    ("T10:30:00+02:00", "timezone-offset", "10:30:00"), ("T10:30:00.123456789", "nanoseconds", "10:30:00.123456"),
    ("T10:30:00.5", "fractional-seconds", "10:30:00.500000"), ("T25:00:00", "hour-25", "bad"),
    ("T10:60:00", "minute-60", "bad"), ("X10:30:00", "bad-separator", "bad"),
)


def c19_date(docs, years, full=True):
    lo, hi = docs["date_years"]
    out, seen = [], set()

    def add(y, mth, day, variants):
        for suffix, vname, tm in variants:
            t = "%s-%02d-%02d%s" % (y, mth, day, suffix)
            if t in seen:
                continue
            seen.add(t)
            if len(str(y)) != 4:
                out.append(cell(t, "five-digit-year", "invalid", shape=vname, fmt=vname))
            elif not (lo <= y <= hi):
                out.append(cell(t, "year-outside-documented-range", "invalid", shape=vname, fmt=vname))
            elif not 1 <= mth <= 12:
                out.append(cell(t, "month-0" if mth == 0 else "month-above-12", "invalid", shape=vname, fmt=vname))
            elif not valid_date(y, mth, day):
                out.append(cell(t, "day-0" if day == 0 else ("day-32" if day > 31 else "day-beyond-end-of-month"), "invalid",
                                shape=vname, fmt=vname))
            elif tm == "bad":
                out.append(cell(t, vname, "invalid", shape=vname, fmt=vname))
            else:
                out.append(cell(t, vname, "valid", {"dt": "%04d-%02d-%02d" % (y, mth, day) + ("T" + tm if tm else "")},
                                shape=vname, fmt=vname))

    for y in years:
        in_range = lo <= y <= hi
        for mth in (range(1, 13) if in_range or full else (2,)):
            for day in (28, 29, 30, 31, 32):
                add(y, mth, day, _TIME_VARIANTS[:8])
        add(y, 1, 15, _TIME_VARIANTS)
        add(y, 0, 15, _TIME_VARIANTS[:2])
        add(y, 13, 15, _TIME_VARIANTS[:2])
        add(y, 1, 0, _TIME_VARIANTS[:2])
    for ex in docs["date_examples"]:            # the documentation's own examples
        if ex not in seen:
            m = re.fullmatch(r"(\d{4})-(\d{2})-(\d{2})(?:[T ](\d{2}:\d{2}:\d{2}))?", ex)
            if m:
                seen.add(ex)
                out.append(cell(ex, "documented-example", "valid",
                                {"dt": "%s-%s-%s" % m.group(1, 2, 3) + ("T" + m.group(4) if m.group(4) else "")},
                                shape="datetime" if m.group(4) else "date"))
    out.append(cell("2020-1-5", "unpadded-month-and-day", "silent", shape="odd"))
    out.append(cell("20200115", "basic-format-without-hyphens", "silent", shape="odd"))
    out.append(cell("15/01/2020", "day-first-slashes", "invalid", shape="odd"))
    out.append(cell("2020-01", "month-only", "invalid", shape="odd"))
    out.append(cell("abc", "not-a-date", "invalid", shape="odd"))
    return out


def c19_time(docs, years):
    lo, hi = docs["date_years"]
    lits = docs["time_literals"]
    if not any("/" in x for x in lits) or "YYYY" not in lits or "YYYY-MM" not in lits:
        raise ValueError("docs: Time input formats not found")
    out, seen = [], set()

    def add(t, cls, exp, val=None):
        if t not in seen:
            seen.add(t)
            out.append(cell(t, cls, exp, val))

    for ex in lits:
        if "/" in ex:
            add(ex, "documented-example", "valid", {"any": [ex]})
    for y in years:
        ys = str(y)
        five = len(ys) != 4
        inr = lo <= y <= hi
        # shorthand forms
        if five:
            add(ys, "year-shorthand:five-digit-year", "invalid")
            add(ys + "-06", "month-shorthand:five-digit-year", "invalid")
            add("%s-01-01/%s-12-31" % (ys, ys), "interval:five-digit-year", "invalid")
            continue
        e = "valid" if inr else "silent"
        sfx = "" if inr else ":year-outside-date-range"
        add(ys, "year-shorthand" + sfx, e, {"any": ["%s-01-01/%s-12-31" % (ys, ys)]})
        for mth in range(0, 14):
            if 1 <= mth <= 12:
                add("%s-%02d" % (ys, mth), "month-shorthand" + sfx, e,
                    {"any": ["%s-%02d-01/%s-%02d-%02d" % (ys, mth, ys, mth, last_day_of_month(y, mth))]})
            else:
                add("%s-%02d" % (ys, mth), "month-shorthand:month-0-or-13", "invalid")
        add("%s-1" % ys, "month-shorthand:unpadded", "silent")
        # intervals
        iv = "%s-01-01/%s-12-31" % (ys, ys)
        add(iv, "interval" + sfx, e, {"any": [iv]})
        add("%s-12-31/%s-01-01" % (ys, ys), "interval:reversed", "invalid")
        add("%s-03-15/%s-03-15" % (ys, ys), "interval:single-day" + sfx, e, {"any": ["%s-03-15/%s-03-15" % (ys, ys)]})
        for day in (28, 29, 30):
            t = "%s-02-01/%s-02-%02d" % (ys, ys, day)
            if valid_date(y, 2, day):
                add(t, "interval:end-of-february" + sfx, e, {"any": [t]})
            else:
                add(t, "interval:nonexistent-calendar-date", "invalid")
        add("%s-13-01/%s-12-31" % (ys, ys), "interval:nonexistent-calendar-date", "invalid")
        add("%s-01-01/%s-12-32" % (ys, ys), "interval:nonexistent-calendar-date", "invalid")
        if y < 9999:
            t = "%s-07-01/%04d-06-30" % (ys, y + 1)
            add(t, "interval:across-years" + sfx, e if lo <= y + 1 <= hi else "silent", {"any": [t]})
            add("%04d-01-01/%s-12-31" % (y + 1, ys), "interval:reversed", "invalid")
        # formats the documentation does not mention: no expectation
        add("%s-01-01T00:00:00/%s-12-31T23:59:59" % (ys, ys), "interval:datetime-bounds", "silent")
        add("%s-01-01/%s-12-31T23:59:59" % (ys, ys), "interval:unequal-bound-formats", "silent")
        add("%s-01-01T00:00:00/%s-12-31" % (ys, ys), "interval:unequal-bound-formats", "silent")
        add("%s-1-1/%s-12-31" % (ys, ys), "interval:unpadded-bound", "silent")
        add("%s-12-31T23:59:59/%s-12-31T00:00:00" % (ys, ys), "interval:datetime-bounds-reversed", "silent")
    add("2020-01-01", "single-date", "silent")
    add("2020Q1", "time-period-literal", "silent")
    add("2020-01-01/", "interval:missing-end", "invalid")
    add("/2020-12-31", "interval:missing-start", "invalid")
    add("2020-01-01/2020-06-30/2020-12-31", "interval:three-bounds", "invalid")
    add("2020-01-01--2020-12-31", "interval:wrong-separator", "invalid")
    add("abc", "not-a-time", "invalid")
    return out


def c19_duration(docs):
    letters = docs["duration_letters"]
    out = [cell(x, "documented-letter", "valid", {"any": [x]}) for x in letters]
    out += [cell(x.lower(), "lower-case-letter", "silent") for x in letters if x.lower() != x]
    for t, cls in (("P1Y", "iso-8601-duration"), ("P1M", "iso-8601-duration"), ("P1D", "iso-8601-duration"),
                   ("Y", "undocumented-letter"), ("H", "undocumented-letter"), ("AA", "two-letters"),
                   ("A1", "letter-and-digit"), ("1", "digit"), ("annual", "word")):
        if t not in letters:
            out.append(cell(t, cls, "invalid"))
    out.append(cell(" M", "leading-space", "silent"))
    return out


# ------------------------------------------------------------------------------------------------
# C18 pools: ~14 cells per type (canonical valid, boundary, invalid); also part of the C19/C20 space
# ------------------------------------------------------------------------------------------------

def c18_pool(type_, docs=None):
    E = cell
    if type_ == "Integer":
        return [E("7", "canonical", "valid", {"eq": 7}), E("-7", "negative", "valid", {"eq": -7}), E("0", "zero", "valid", {"eq": 0}),
                E("42", "documented-example", "valid", {"eq": 42}),
                E("9007199254740993", "above-2^53", "valid", {"eq": 9007199254740993}),
                E("9223372036854775807", "int64-max", "valid", {"eq": 9223372036854775807}),
                E("007", "leading-zeros"), E(" 7", "leading-space"), E("7 ", "trailing-space"),
                E("7.0", "zero-fraction"), E("3.5", "fractional", "invalid"), E("1e3", "exponent"),
                E("0x1A", "hexadecimal", "invalid"), E("9223372036854775808", "above-int64"),
                E("abc", "non-numeric", "invalid"), E("", "empty-string"), E(None, "null")]
    if type_ == "Number":
        return [E("3.14", "decimal", "valid", {"eq": 3.14}), E("-2.5", "negative-decimal", "valid", {"eq": -2.5}),
                E("42", "integer-literal", "valid", {"eq": 42}), E("1e5", "exponent", "valid", {"eq": 100000.0}),
                E(".5", "no-integer-digits"), E("5.", "no-fraction-digits"), E("NaN", "nan-literal"),
                E("inf", "infinity-literal"), E("1,5", "decimal-comma", "invalid"), E(" 3.14", "leading-space"),
                E("0x1A", "hexadecimal", "invalid"), E("1e400", "float-overflow"), E("abc", "non-numeric", "invalid"),
                E("", "empty-string"), E(None, "null")]
    if type_ == "Boolean":
        lits = (docs or {}).get("bool_literals") or ["true", "false", "1", "0"]
        ci = (docs or {}).get("bool_case_insensitive", True)

        def b(t, cls):
            tl = t.lower() if ci else t
            if tl in lits:
                return E(t, cls, "valid", {"eq": tl in ("true", "1")})
            return E(t, cls, "invalid")
        return [b("true", "lower-case-word"), b("false", "lower-case-word"), b("TRUE", "upper-case-word"),
                b("True", "capitalised-word"), b("False", "capitalised-word"), b("1", "one"), b("0", "zero"),
                b("yes", "undocumented-word"), b("t", "abbreviated-word"), b("2", "other-integer"),
                E(" true", "leading-space"), E("1.0", "float-literal"), b("abc", "not-a-boolean"),
                E("", "empty-string"), E(None, "null")]
    if type_ == "String":
        return [E("abc", "plain", "valid", {"eq": "abc"}), E(" a b ", "surrounding-spaces", "valid", {"eq": " a b "}),
                E("7", "digits", "valid", {"eq": "7"}), E("true", "boolean-word", "valid", {"eq": "true"}),
                E("NA", "na-like-word", "valid", {"eq": "NA"}), E("null", "na-like-word", "valid", {"eq": "null"}),
                E("NULL", "na-like-word", "valid", {"eq": "NULL"}), E("nan", "na-like-word", "valid", {"eq": "nan"}),
                E("None", "na-like-word", "valid", {"eq": "None"}),
                E("é€", "non-ascii", "valid", {"eq": "é€"}), E("a,b", "comma", "valid", {"eq": "a,b"}),
                E('a"b', "embedded-double-quote"), E('"abc"', "surrounding-double-quotes"),
                E("", "empty-string"), E(None, "null")]
    if type_ == "Date":
        return [E("2020-01-15", "date", "valid", {"dt": "2020-01-15"}, shape="date"),
                E("2020-01-15T10:30:00", "datetime-T", "valid", {"dt": "2020-01-15T10:30:00"}, shape="datetime"),
                E("2020-01-15 10:30:00", "datetime-space", "valid", {"dt": "2020-01-15T10:30:00"}, shape="datetime"),
                E("2020-01-15T10:30", "partial-time", "invalid"),
                E("2020-01-15T10:30:00Z", "timezone-Z", "valid", {"dt": "2020-01-15T10:30:00"}, shape="datetime"),
                E("2020-01-15T10:30:00+02:00", "timezone-offset", "valid", {"dt": "2020-01-15T10:30:00"}, shape="datetime"),
                E("2020-01-15T10:30:00.123456789", "nanoseconds", "valid", {"dt": "2020-01-15T10:30:00.123456"}, shape="datetime"),
                E("2020-1-5", "unpadded-month-and-day"), E("1799-12-31", "year-outside-documented-range", "invalid"),
                E("10000-01-01", "five-digit-year", "invalid"), E("2020-02-30", "day-beyond-end-of-month", "invalid"),
                E("2020-13-01", "month-above-12", "invalid"), E("2020-01-15T25:00:00", "hour-25", "invalid"),
                E("15/01/2020", "day-first-slashes", "invalid"), E("", "empty-string"), E(None, "null")]
    if type_ == "Time_Period":
        def v(t, cls, *forms):
            if docs:                         # expected rendering from the output-format table of the documentation
                ind = cls[0]
                n = {"2020-01-15": 15}.get(t) or (1 if ind != "A" else 1)
                forms = tp_output_forms(docs, ind, 2020, n) or forms
            return E(t, cls, "valid", {"any": list(forms)})
        return [v("2020", "A:in-range", "2020"), v("2020A", "A:in-range", "2020"), v("2020-A1", "A:in-range", "2020"),
                v("2020S1", "S:in-range", "2020S1"), v("2020-Q1", "Q:in-range", "2020Q1"), v("2020M1", "M:in-range", "2020M1"),
                v("2020M01", "M:in-range", "2020M1"), v("2020-01", "M:in-range", "2020M1"), v("2020-1", "M:in-range", "2020M1"),
                v("2020-M01", "M:in-range", "2020M1"), v("2020W1", "W:in-range", "2020W1", "2020W01"),
                v("2020-W01", "W:in-range", "2020W1", "2020W01"), v("2020D001", "D:in-range", "2020D1", "2020D01", "2020D001"),
                v("2020-D001", "D:in-range", "2020D1", "2020D01", "2020D001"),
                v("2020-01-15", "D:calendar-date", "2020D15", "2020D015"),
                E("2020M13", "M:number-above-maximum", "invalid"), E("2020-M13", "M:number-above-maximum", "invalid"),
                E("2021W53", "W:week-53-of-52-week-year", "invalid"), E("2021D366", "D:day-366-of-common-year", "invalid"),
                E("2020Q5", "Q:number-above-maximum", "invalid"), E("2020X1", "unknown-indicator", "invalid"),
                E("2020m1", "lower-case-indicator"), E(" 2020M1", "leading-space"), E("", "empty-string"), E(None, "null")]
    if type_ == "Time":
        return [E("2020-01-01/2020-12-31", "interval", "valid", {"any": ["2020-01-01/2020-12-31"]}),
                E("2020", "year-shorthand", "valid", {"any": ["2020-01-01/2020-12-31"]}),
                E("2020-02", "month-shorthand", "valid", {"any": ["2020-02-01/2020-02-29"]}),
                E("2020-03-15/2020-03-15", "interval:single-day", "valid", {"any": ["2020-03-15/2020-03-15"]}),
                E("2020-12-31/2020-01-01", "interval:reversed", "invalid"),
                E("2020-01-01/2020-02-30", "interval:nonexistent-calendar-date", "invalid"),
                E("2020-01-01T00:00:00/2020-12-31T23:59:59", "interval:datetime-bounds"),
                E("2020-01-01/2020-12-31T00:00:00", "interval:unequal-bound-formats"),
                E("2020-01-01", "single-date"), E("2020-1", "month-shorthand:unpadded"), E("2020Q1", "time-period-literal"),
                E("2020-01-01/", "interval:missing-end", "invalid"), E("abc", "not-a-time", "invalid"),
                E("", "empty-string"), E(None, "null")]
    if type_ == "Duration":
        letters = (docs or {}).get("duration_letters") or ["A", "S", "Q", "M", "W", "D"]
        return [E(x, "documented-letter", "valid", {"any": [x]}) for x in letters] + [
            E("a", "lower-case-letter"), E("P1Y", "iso-8601-duration", "invalid"), E("Y", "undocumented-letter", "invalid"),
            E("AA", "two-letters", "invalid"), E(" M", "leading-space"), E("1", "digit", "invalid"),
            E("", "empty-string"), E(None, "null")]
    raise ValueError(type_)


def expectation(c, role):
    """(exp, val) of a cell in a role; nulls depend on the role, everything else does not"""
    if c["t"] is None:
        if role == "id":
            return "invalid", None          # 'Identifiers cannot be null'
        if role == "nm":
            return "valid", {"null": True}
        return "silent", None               # null in a non-nullable measure: not in C19's statement
    return c["exp"], c["val"]


def value_ok(val, got):
    """does the canonical returned value `got` denote what the value spec says"""
    if val is None:
        return True
    if "null" in val:
        return got is None
    if got is None:
        return False
    if "eq" in val:
        exp = val["eq"]
        if isinstance(exp, bool) or isinstance(got, bool):
            return isinstance(exp, bool) and isinstance(got, bool) and exp == got
        if isinstance(exp, str) or isinstance(got, str):
            return exp == got
        if isinstance(exp, int) and isinstance(got, int):
            return exp == got               # integers exactly (a relative tolerance would hide 2^53 + 1 -> 2^53)
        return harness.num_eq(exp, got)
    if "any" in val:
        return got in val["any"]
    if "dt" in val:
        if not isinstance(got, str) or not re.fullmatch(r"\d{4}-\d{2}-\d{2}(T\d{2}:\d{2}:\d{2}(\.\d{1,6})?)?", got):
            return False                    # documented output: YYYY-MM-DD or YYYY-MM-DDThh:mm:ss
        try:
            return _dt.datetime.fromisoformat(got) == _dt.datetime.fromisoformat(val["dt"])
        except ValueError:
            return False
    return True


# ------------------------------------------------------------------------------------------------
# tables
# ------------------------------------------------------------------------------------------------

COMPANIONS = {
    "Integer": ["5", "6"], "Number": ["2.5", "6.5"], "Boolean": ["false", "true"], "String": ["zzz", "yyy"],
    "Date": ["2019-06-30", "2018-06-30"], "Time_Period": ["2019Q4", "2018Q4"],
    "Time": ["2019-01-01/2019-12-31", "2018-01-01/2018-12-31"], "Duration": ["Q", "M"],
}
_BOOL_INT_COMPANIONS = ["0", "1"]


def _denotes_same(type_, a, b):
    if a is None or b is None:
        return False
    if a.strip() == b.strip():
        return True
    if type_ == "Boolean":
        f = lambda x: x.strip().lower() in ("true", "1", "t", "yes", "1.0")
        return f(a) == f(b)
    return False


def companion(type_, c):
    cands = COMPANIONS[type_]
    if type_ == "Boolean" and c["t"] in ("0", "1"):
        cands = _BOOL_INT_COMPANIONS
    for x in cands:
        if not _denotes_same(type_, c["t"], x):
            return x
    return cands[0]


def components(type_, role):
    """structure of a single-cell table: Id_1 row number + the component under test"""
    r, nullable = ROLES[role]
    if role == "id":
        return [["Id_1", "Integer", "Identifier", False], ["Id_2", type_, "Identifier", False],
                ["Me_1", "Integer", "Measure", True]], "Id_2"
    return [["Id_1", "Integer", "Identifier", False], ["Me_1", type_, r, nullable]], "Me_1"


def cells_table(type_, role, cells, companion_row=False):
    """one row per cell (row number in Id_1); with `companion_row` a valid second row is added (companion_row == "first":
    the companion is the first physical row, so that per-column decisions taken from the first value see the companion)"""
    comps, col = components(type_, role)
    cols = [c[0] for c in comps]
    rows = []
    for n, c in enumerate(cells, 1):
        rows.append([str(n), c["t"], "1"] if role == "id" else [str(n), c["t"]])
    if companion_row:
        comp_t = companion(type_, cells[0])
        n = len(cells) + 1
        rows.append([str(n), comp_t, "1"] if role == "id" else [str(n), comp_t])
        if companion_row == "first":
            rows = rows[-1:] + rows[:-1]
    return {"comps": comps, "cols": cols, "rows": rows, "cellcol": col}


def structures_of(spec):
    return harness.structures(harness.structure("DS_1", [harness.comp(*c) for c in spec["comps"]]))


# ----- structural violations (C19 a) --------------------------------------------------------------

_BASE_COMPS = [["Id_1", "Integer", "Identifier", False], ["Id_2", "Time_Period", "Identifier", False],
               ["Me_1", "Number", "Measure", True], ["Me_2", "String", "Measure", False]]
_BASE_ROWS = [["1", "2020M1", "1.5", "a"], ["1", "2020M2", "2.5", "b"], ["2", "2020M1", "3.5", "c"],
              ["2", "2020M2", None, "d"], ["3", "2020Q1", "5.5", "e"], ["3", "2020Q2", "6.5", "f"]]


def _base():
    return {"comps": [list(c) for c in _BASE_COMPS], "cols": [c[0] for c in _BASE_COMPS],
            "rows": [list(r) for r in _BASE_ROWS], "cellcol": None}


def _dropcol(s, name):
    k = s["cols"].index(name)
    s["cols"].pop(k)
    for r in s["rows"]:
        r.pop(k)


def _inj_dup_adjacent(s):
    s["rows"][1][0], s["rows"][1][1] = s["rows"][0][0], s["rows"][0][1]


def _inj_dup_distant(s):
    s["rows"][5][0], s["rows"][5][1] = s["rows"][0][0], s["rows"][0][1]


def _inj_dup_normalised(s):
    s["rows"][1][0], s["rows"][1][1] = "1", "2020-M01"


def _inj_null_id_int(s):
    s["rows"][2][0] = None


def _inj_null_id_period(s):
    s["rows"][2][1] = None


def _inj_missing_id(s):
    _dropcol(s, "Id_2")
    for n, r in enumerate(s["rows"], 1):        # keep the remaining key unique: the only violation is the missing column
        if r[0] is not None:
            r[0] = str(n)


def _inj_missing_nonnullable(s):
    _dropcol(s, "Me_2")


def _inj_missing_nullable(s):
    _dropcol(s, "Me_1")


def _inj_extra(s):
    s["cols"].append("Extra_1")
    for r in s["rows"]:
        r.append("x")


def _inj_null_nonnullable(s):
    s["rows"][3][s["cols"].index("Me_2")] = None


def _inj_bad_value(s):
    s["rows"][4][s["cols"].index("Me_1")] = "abc"


# name -> (injector, expectation, columns it needs)
INJECTORS = {
    "duplicate-key-adjacent-rows": (_inj_dup_adjacent, "invalid", ("Id_1", "Id_2")),
    "duplicate-key-distant-rows": (_inj_dup_distant, "invalid", ("Id_1", "Id_2")),
    "duplicate-key-after-normalisation": (_inj_dup_normalised, "invalid", ("Id_1", "Id_2")),
    "null-integer-identifier": (_inj_null_id_int, "invalid", ("Id_1",)),
    "null-time-period-identifier": (_inj_null_id_period, "invalid", ("Id_2",)),
    "missing-identifier-column": (_inj_missing_id, "invalid", ("Id_2",)),
    "missing-non-nullable-column": (_inj_missing_nonnullable, "invalid", ("Me_2",)),
    "missing-nullable-column": (_inj_missing_nullable, "valid", ("Me_1",)),
    "extra-column": (_inj_extra, "silent", ()),
    "null-in-non-nullable-measure": (_inj_null_nonnullable, "silent", ("Me_2",)),
    "ill-typed-measure-value": (_inj_bad_value, "invalid", ("Me_1",)),
}
_ORDER = list(INJECTORS)          # value-level injectors first, column droppers after them
_DROPPERS = ("missing-identifier-column", "missing-non-nullable-column", "missing-nullable-column")


def _combine(exps):
    if "invalid" in exps:
        return "invalid"
    if "silent" in exps:
        return "silent"
    return "valid"


def _dwi(rows, extra=False, drop_nn=False):
    comps = [["Me_1", "Number", "Measure", True], ["Me_2", "String", "Measure", False]]
    s = {"comps": comps, "cols": ["Me_1", "Me_2"], "rows": [["1.5", "a"], ["2.5", "b"]][:rows], "cellcol": None}
    if drop_nn:
        _dropcol(s, "Me_2")
        s["cols"].append("Filler")            # keep two columns so that a CSV line is never empty
        for r in s["rows"]:
            r.append("x")
    if extra:
        _inj_extra(s)
    return s


def structural_cases():
    """-> list of {"name": violation names joined by '+', "exp", "spec"}; alone and in pairs"""
    out = [{"name": "no-violation", "viol": (), "exp": "valid", "spec": _base()}]
    for n in _ORDER:
        s = _base()
        INJECTORS[n][0](s)
        out.append({"name": n, "viol": (n,), "exp": INJECTORS[n][1], "spec": s})
    for a, b in itertools.combinations(_ORDER, 2):
        first, second = (a, b) if b in _DROPPERS or a not in _DROPPERS else (b, a)
        if first in _DROPPERS and second in _DROPPERS and first == second:
            continue
        if {a, b} <= {"duplicate-key-adjacent-rows", "duplicate-key-after-normalisation"}:
            continue                              # both rewrite the same row
        if second in _DROPPERS and INJECTORS[second][2][0] in INJECTORS[first][2]:
            continue                              # dropping the column would remove the other violation again
        s = _base()
        ok = True
        for n in (first, second):
            if any(cn not in s["cols"] for cn in INJECTORS[n][2]):
                ok = False
                break
            INJECTORS[n][0](s)
        if not ok:
            continue
        exp = _combine([INJECTORS[a][1], INJECTORS[b][1]])
        out.append({"name": "%s+%s" % (a, b), "viol": (a, b), "exp": exp, "spec": s})
    out.append({"name": "no-identifiers-one-datapoint", "viol": (), "exp": "valid", "spec": _dwi(1)})
    out.append({"name": "no-identifiers-two-datapoints", "viol": ("no-identifiers-two-datapoints",), "exp": "invalid", "spec": _dwi(2)})
    out.append({"name": "no-identifiers-two-datapoints+extra-column", "viol": ("no-identifiers-two-datapoints", "extra-column"),
                "exp": "invalid", "spec": _dwi(2, extra=True)})
    out.append({"name": "no-identifiers-two-datapoints+missing-non-nullable-column",
                "viol": ("no-identifiers-two-datapoints", "missing-non-nullable-column"), "exp": "invalid",
                "spec": _dwi(2, drop_nn=True)})
    # keys that are equal only after normalisation, per identifier type (both spellings documented)
    for type_, a, b, tag in (("Time_Period", "2020M1", "2020-M01", "month-compact-vs-hyphenated"),
                             ("Time_Period", "2020", "2020A", "year-vs-annual-indicator"),
                             ("Time_Period", "2020-01-15", "2020D015", "calendar-date-vs-day-number"),
                             ("Time_Period", "2020W1", "2020-W01", "week-unpadded-vs-padded"),
                             ("Boolean", "true", "TRUE", "letter-case"), ("Boolean", "true", "1", "word-vs-digit"),
                             ("Number", "1.5", "1.50", "trailing-zero"), ("Number", "100000", "1e5", "exponent-notation"),
                             ("Date", "2020-01-15T10:30:00", "2020-01-15 10:30:00", "T-vs-space-separator"),
                             ("Date", "2020-01-15T10:30:00", "2020-01-15T10:30:00Z", "timezone-suffix"),
                             ("Time", "2020", "2020-01-01/2020-12-31", "year-shorthand-vs-interval")):
        s = {"comps": [["Id_1", type_, "Identifier", False], ["Me_1", "Integer", "Measure", True]],
             "cols": ["Id_1", "Me_1"], "rows": [[a, "1"], [b, "2"]], "cellcol": None}
        out.append({"name": "duplicate-key-after-normalisation:%s:%s" % (type_, tag),
                    "viol": ("duplicate-key-after-normalisation",), "exp": "invalid", "spec": s})
    return out


# ------------------------------------------------------------------------------------------------
# materialisation of a table in one input form
# ------------------------------------------------------------------------------------------------

_COUNTER = [0]


def _path(ext):
    _COUNTER[0] += 1
    d = os.path.join(harness.scratch(), "c18")
    os.makedirs(d, exist_ok=True)
    return os.path.join(d, "t%d_%d.%s" % (os.getpid(), _COUNTER[0], ext))


def csv_field(v):
    if v is None:
        return ""
    if v == "":
        return '""'
    if any(ch in v for ch in ',"\r\n'):
        return '"' + v.replace('"', '""') + '"'
    return v


def csv_text(spec):
    lines = [",".join(csv_field(c) for c in spec["cols"])]
    for r in spec["rows"]:
        lines.append(",".join(csv_field(v) for v in r))
    return "\n".join(lines) + "\n"


_INT_RE = re.compile(r"-?(0|[1-9]\d*)")
_FLOAT_RE = re.compile(r"-?(\d+\.\d*|\.\d+|\d+)([eE][+-]?\d+)?")
_DT_RE = re.compile(r"\d{4}-\d{2}-\d{2}([T ]\d{2}:\d{2}:\d{2}(\.\d{1,9})?(Z|[+-]\d{2}:\d{2})?)?")


def native_kind(type_, t):
    """which native dtype holds text t (of a component of type_) without loss; None if there is none"""
    if type_ in ("Integer", "Number", "Boolean", "Time_Period") and _INT_RE.fullmatch(t) and -2 ** 63 <= int(t) < 2 ** 63:
        if type_ == "Boolean" and t not in ("0", "1"):
            return None
        if type_ == "Time_Period" and not re.fullmatch(r"\d{4}", t):
            return None
        return "int"
    if type_ in ("Integer", "Number", "Boolean") and _FLOAT_RE.fullmatch(t):
        import math
        return "float" if math.isfinite(float(t)) else None
    if type_ == "Number" and t in ("inf", "-inf"):
        return "float"
    if type_ == "Boolean" and t.lower() in ("true", "false"):
        return "bool"
    if type_ == "Date" and _DT_RE.fullmatch(t):
        y, m, d = int(t[:4]), int(t[5:7]), int(t[8:10])
        if not valid_date(y, m, d) or not 1678 <= y <= 2261:
            return None
        if len(t) > 10 and not (int(t[11:13]) < 24 and int(t[14:16]) < 60 and int(t[17:19]) < 60):
            return None
        return "datetime"
    return None


def native_series(type_, texts):
    """pandas Series of the native dtype holding the texts (None = null), or None when not representable"""
    import pandas as pd
    kinds = {native_kind(type_, t) for t in texts if t is not None}
    if None in kinds:
        return None
    if not kinds:
        kinds = {{"Integer": "int", "Number": "float", "Boolean": "bool", "Date": "datetime"}.get(type_)}
        if None in kinds:
            return None
    if kinds == {"int", "float"}:
        kinds = {"float"}
    if len(kinds) != 1:
        return None
    kind = kinds.pop()
    has_null = any(t is None for t in texts)
    if kind == "int":
        return pd.Series([None if t is None else int(t) for t in texts], dtype="Int64" if has_null else "int64")
    if kind == "float":
        return pd.Series([float("nan") if t is None else float(t) for t in texts], dtype="float64")
    if kind == "bool":
        return pd.Series([None if t is None else t.lower() == "true" for t in texts], dtype="boolean" if has_null else "bool")
    s = pd.Series([pd.NaT if t is None else pd.Timestamp(t) for t in texts])
    return s if str(s.dtype).startswith("datetime64") else None


def _helper_series(values):
    import pandas as pd
    if all(v is not None and _INT_RE.fullmatch(v) for v in values):
        return pd.Series([int(v) for v in values], dtype="int64")
    return pd.Series(values, dtype=object)


def _frame(spec, cell_dtype):
    """DataFrame: the column under test in `cell_dtype` ('infer'|'object'|'str'|'string'|'native'), helper
    columns native int64 when they hold canonical integers; structural tables (no cellcol): every column a str column"""
    import pandas as pd
    cols = {}
    types = {c[0]: c[1] for c in spec["comps"]}
    for k, name in enumerate(spec["cols"]):
        values = [r[k] for r in spec["rows"]]
        if spec["cellcol"] is None or name == spec["cellcol"]:
            if cell_dtype == "native":
                s = native_series(types[name], values)
                if s is None:
                    return None
            elif cell_dtype == "infer":
                s = pd.Series(values) if any(v is not None for v in values) else pd.Series(values, dtype=object)
            else:
                s = pd.Series(values, dtype={"object": object, "str": "str", "string": "string"}[cell_dtype])
        else:
            s = _helper_series(values)
        cols[name] = s
    return pd.DataFrame(cols, columns=spec["cols"])


FORMS_ALL = ("csv", "df-object", "df-str", "df-string", "df-native", "pq-str", "pq-native")
FAMILY = {"csv": "csv", "df": "dataframe", "df-object": "df-text", "df-str": "df-text", "df-string": "df-text",
          "df-native": "df-native", "pq-str": "parquet-text", "pq-native": "parquet-native"}


FORMS_EXTRA = ("csv@bom", "csv@rev", "df-object@rev", "pq-str@rev")     # thorough tier of C18: BOM header, column order
FAMILY.update({"csv@bom": "csv-with-bom", "csv@rev": "csv-reversed-columns", "df-object@rev": "df-reversed-columns",
               "pq-str@rev": "parquet-reversed-columns"})


def _reversed_columns(spec):
    s = dict(spec)
    s["cols"] = list(reversed(spec["cols"]))
    s["rows"] = [list(reversed(r)) for r in spec["rows"]]
    return s


def materialise(spec, form):
    """-> datapoint (path or DataFrame) for run()/validate_dataset, or None if the form cannot hold the content"""
    form, _, variant = form.partition("@")
    if variant == "rev":
        spec = _reversed_columns(spec)
    if form == "csv":
        p = _path("csv")
        with open(p, "w", encoding="utf-8", newline="") as f:
            f.write(("\ufeff" if variant == "bom" else "") + csv_text(spec))
        return p
    if form in ("df", "df-object", "df-str", "df-string", "df-native"):
        return _frame(spec, {"df": "infer", "df-object": "object", "df-str": "str", "df-string": "string", "df-native": "native"}[form])
    if form in ("pq-str", "pq-native"):
        import pyarrow as pa
        import pyarrow.parquet as pq
        if form == "pq-native":
            df = _frame(spec, "native")
            if df is None:
                return None
            table = pa.Table.from_pandas(df, preserve_index=False)
        else:
            arrays, names = [], []
            for k, name in enumerate(spec["cols"]):
                values = [r[k] for r in spec["rows"]]
                if name != spec["cellcol"] and spec["cellcol"] is not None and all(v is not None and _INT_RE.fullmatch(v) for v in values):
                    arrays.append(pa.array([int(v) for v in values], type=pa.int64()))
                else:
                    arrays.append(pa.array(values, type=pa.string()))
                names.append(name)
            table = pa.table(arrays, names=names)
        p = _path("parquet")
        pq.write_table(table, p)
        return p
    raise ValueError(form)


def _discard(dp):
    if isinstance(dp, str):
        try:
            os.remove(dp)
        except OSError:
            pass


def _classify_error(out):
    """harness.call error tuple -> (class of outcome, exception class, code, message)"""
    _, kind, cls, code, msg = out
    if kind == "vtl" and cls in INPUT_ERRORS:
        return ("reject", cls, code, msg)
    if kind == "vtl":
        return ("other", cls, code, msg)
    return ("raw", cls, code, msg)


def run_table(V, spec, form):
    """run('DS_r <- DS_1;') on the table in one form -> ('ok', rows) | ('reject'|'other'|'raw', cls, code, msg) | None"""
    dp = materialise(spec, form)
    if dp is None:
        return None
    try:
        out = harness.call(V.run, SCRIPT, structures_of(spec), {"DS_1": dp})
    finally:
        _discard(dp)
    if out[0] == "ok":
        ds = out[1].get("DS_r")
        if ds is None:
            return ("raw", "NoResult", None, "run() returned no DS_r: %r" % list(out[1]))
        return ("ok", harness.dataset_rows(ds))
    return _classify_error(out)


def validate_table(V, spec, form):
    """validate_dataset on the table in one form -> ('ok', None) | ('reject'|'other'|'raw', cls, code, msg)"""
    dp = materialise(spec, form)
    if dp is None:
        return None
    from pathlib import Path
    try:
        out = harness.call(V.validate_dataset, structures_of(spec), {"DS_1": Path(dp) if isinstance(dp, str) else dp})
    finally:
        _discard(dp)
    if out[0] == "ok":
        return ("ok", None)
    return _classify_error(out)


def cell_value(rows, spec, n):
    """the returned value of the column under test in the row whose Id_1 is n -> (found, value)"""
    for r in rows or []:
        if r.get("Id_1") == n:
            return True, r.get(spec["cellcol"])
    return False, None


def classify_cells(V, type_, role, cells, form, fn=run_table):
    """outcome of every cell as a single-cell table, computed by bisection over packed tables:
    a packed table that is accepted settles all its cells (assumption: rows are validated independently),
    a rejected one is split; leaves are genuine one-row tables.  -> list of (outcome, from_pack: bool)"""
    res = [None] * len(cells)
    stats = {"calls": 0}

    def go(idx):
        sub = [cells[i] for i in idx]
        spec = cells_table(type_, role, sub)
        out = fn(V, spec, form)
        stats["calls"] += 1
        if out[0] == "ok":
            for k, i in enumerate(idx, 1):
                if out[1] is None:
                    res[i] = (("ok", None, True), len(idx) > 1)
                else:
                    found, v = cell_value(out[1], spec, k)
                    res[i] = (("ok", v, found), len(idx) > 1)
        elif len(idx) == 1:
            res[idx[0]] = (out, False)
        else:
            h = len(idx) // 2
            go(idx[:h])
            go(idx[h:])
    if cells:
        go(list(range(len(cells))))
    return res, stats["calls"]


def single_cell(V, type_, role, c, form, fn=run_table):
    spec = cells_table(type_, role, [c])
    out = fn(V, spec, form)
    if out[0] == "ok":
        if out[1] is None:
            return ("ok", None, True)
        found, v = cell_value(out[1], spec, 1)
        return ("ok", v, found)
    return out


def cell_space(docs, type_, tier):
    """the C19/C20 single-cell space of a type: C18 pool + documented-spelling generator"""
    years = YEARS if tier == "thorough" else (1799, 2020, 2021, 10000)
    light = () if tier == "thorough" else (1799, 10000)
    cells = list(c18_pool(type_, docs))
    seen = {c["t"] for c in cells}
    extra = []
    if type_ == "Time_Period":
        extra = c19_time_period(docs, years, light)
    elif type_ == "Date":
        extra = c19_date(docs, years, full=tier == "thorough")
    elif type_ == "Time":
        extra = c19_time(docs, years)
    elif type_ == "Duration":
        extra = c19_duration(docs)
    for c in extra:
        if c["t"] not in seen:
            seen.add(c["t"])
            cells.append(c)
    return cells


# ------------------------------------------------------------------------------------------------
# work items shared by C19 and C20
# ------------------------------------------------------------------------------------------------

FORMS_2 = ("df", "csv")
FORM_NAME = {"df": "dataframe", "csv": "csv"}
ROLE_NAME = {"id": "identifier", "nm": "nullable measure", "nn": "non-nullable measure"}


def cell_class(c, role):
    """equivalence class used in finding keys: nulls / empty strings are qualified by the role"""
    if c["t"] is None or c["t"] == "":
        return "%s-in-%s" % (c["cls"], ROLE_NAME[role].replace(" ", "-"))
    return c["cls"]


def key_prefix(check, type_, c, role):
    """'<check>:<type>:<class>' ; a null is the same input whatever the type of the component"""
    if c["t"] is None:
        return "%s:%s" % (check, cell_class(c, role))
    return "%s:%s:%s" % (check, type_, cell_class(c, role))


def cell_items(docs, tier, pack=300, singles=6):
    """-> list of ('pack'|'singles', type, role, [cells]); packs hold cells expected to be accepted (one run
    per form settles them), the other cells are executed one table each.  Roles: the C18 pool in all three
    roles, the generated documented-spelling space as nullable measure."""
    items = []
    for type_ in TYPES:
        pool = c18_pool(type_, docs)
        space = cell_space(docs, type_, tier)
        for role in ROLES:
            cells = space if role == "nm" else pool
            groups, rest = {}, []
            for c in cells:
                if c["t"] == "" and role == "nn":
                    continue                  # '' in a non-nullable measure adds nothing to '' as nullable measure + null in a non-nullable one
                exp, _ = expectation(c, role)
                if exp == "valid" and c["t"] is not None:
                    g = "date" if c.get("shape") == "date" else "x"
                    groups.setdefault(g, []).append(c)
                else:
                    rest.append(c)
            for g in sorted(groups):
                for ch in harness.chunks(groups[g], pack):
                    items.append(("pack", type_, role, ch))
            for ch in harness.chunks(rest, singles):
                items.append(("singles", type_, role, ch))
    return items


def outcomes_of(V, kind, type_, role, cells, form, fn=run_table):
    """per-cell outcome as a single-cell table -> (list of outcomes, list of from_pack flags, engine calls)"""
    if kind == "pack":
        res, calls = classify_cells(V, type_, role, cells, form, fn)
        return [r[0] for r in res], [r[1] for r in res], calls
    return [single_cell(V, type_, role, c, form, fn) for c in cells], [False] * len(cells), len(cells)


def expected_rows(spec):
    """the datapoints a valid structural table denotes (its texts are already in canonical output form)"""
    conv = {"Integer": int, "Number": float}
    rows = []
    for r in spec["rows"]:
        d = {}
        for name, type_, _, _ in spec["comps"]:
            if name in spec["cols"]:
                v = r[spec["cols"].index(name)]
                d[name] = None if v is None else harness.canon_value(conv.get(type_, str)(v))
            else:
                d[name] = None
        rows.append(d)
    return rows

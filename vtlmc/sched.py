"""Explorer E3 — schedule enumeration with a preemption bound (DESIGN §2.4).

Real ``threading.Thread``s run the real API calls; a baton (one semaphore per thread) lets exactly one run
at a time.  A thread parks at *switch points*: entry to a named set of engine functions, detected with
``sys.settrace`` 'call' events (found by code object, so moved / mutated code keeps its points), and
acquire / release of ``parser_lock`` (replaced by a cooperative re-entrant lock: a thread blocked on it is
*disabled*; no enabled thread while some are unfinished = deadlock).

Search = depth-first over choice sequences in canonical order (running thread first, then ascending ids)
with iterative preemption bounding; every execution runs to completion; replaying a prefix must reproduce
the same enabled sets (else ``Divergence``).
"""
import os
import sys
import threading

WATCHDOG_S = float(os.environ.get('VTLMC_WATCHDOG_S', '600'))


class Divergence(BaseException):
    pass


class HarnessDeadlock(BaseException):   # BaseException: must not be swallowed by the engine or harness.call
    pass


# (path suffix below src/vtlengine or 'frontend/fe.py', function name)
POINTS = {
    ("ViralPropagation/__init__.py", "set_current_registry"),
    ("ViralPropagation/__init__.py", "get_current_registry"),
    ("Utils/__Virtual_Assets.py", "_new_ds_name"),
    ("Utils/__Virtual_Assets.py", "_new_dc_name"),
    ("Utils/__Virtual_Assets.py", "reset"),
    ("DataTypes/TimeHandling.py", "set_representation"),
    ("DataTypes/TimeHandling.py", "get_representation"),
    ("frontend/fe.py", "parse"),
    ("frontend/fe.py", "get_syntax_error"),
    ("frontend/fe.py", "get_comments"),
    ("API/__init__.py", "create_ast"),
    ("AST/ASTConstructor.py", "visitStart"),
    ("AST/DAG/__init__.py", "create_dag"),
    ("AST/DAG/__init__.py", "ds_structure"),
    ("Interpreter/__init__.py", "visit_Start"),
    ("Interpreter/__init__.py", "visit_Assignment"),
    ("Interpreter/__init__.py", "visit_PersistentAssignment"),
    ("duckdb_transpiler/Transpiler/__init__.py", "transpile"),
    ("duckdb_transpiler/Transpiler/__init__.py", "visit_Assignment"),
    ("duckdb_transpiler/Transpiler/__init__.py", "visit_PersistentAssignment"),
    ("duckdb_transpiler/io/_execution.py", "execute_queries"),
    ("duckdb_transpiler/io/_execution.py", "fetch_result"),
    ("files/output/_time_period_representation.py", "format_time_period_external_representation"),
    ("AST/ASTString.py", "render"),
    ("Exceptions/__init__.py", "__init__"),
    ("Exceptions/__init__.py", "set_dataset_output"),
    ("Exceptions/__init__.py", "get_dataset_output"),
}
# VirtualCounter points are numerous (one per operator); keep only every call's first few per phase
MAX_SAME_TAG_RUN = 3


def _key_of(code):
    fn = code.co_filename.replace("\\", "/")
    i = fn.find("/src/vtlengine/")
    if i >= 0:
        return (fn[i + len("/src/vtlengine/"):], code.co_name)
    if fn.endswith("/frontend/fe.py"):
        return ("frontend/fe.py", code.co_name)
    return None


class CoopRLock:
    """cooperative stand-in for parser_lock"""

    def __init__(self):
        self.owner = None
        self.count = 0
        self.sched = None

    def acquire(self, blocking=True, timeout=-1):
        s = self.sched
        me = getattr(threading.current_thread(), "vid", None)
        if s is None or me is None:
            # outside controlled execution: behave like a plain re-entrant lock for a single thread
            self.owner, self.count = ("main", self.count + 1)
            return True
        if self.owner == me:
            self.count += 1
            return True
        s.point("lock.acquire")
        while self.owner is not None and self.owner != me:
            s.block(me, self)
        self.owner, self.count = me, 1
        return True

    def release(self):
        s = self.sched
        me = getattr(threading.current_thread(), "vid", None)
        if s is None or me is None:
            self.count -= 1
            if self.count <= 0:
                self.owner, self.count = None, 0
            return
        if self.owner != me:
            raise RuntimeError("cannot release un-acquired lock")
        self.count -= 1
        if self.count == 0:
            self.owner = None
            s.unblock(self)
            s.point("lock.release")

    __enter__ = acquire

    def __exit__(self, *a):
        self.release()


def install_coop_lock():
    """replace the engine's parser_lock everywhere it was imported; returns the cooperative lock"""
    import vtlengine.AST.Grammar._cpp_parser as cp
    orig = cp.parser_lock
    if isinstance(orig, CoopRLock):
        return orig
    lock = CoopRLock()
    n = 0
    for name, mod in list(sys.modules.items()):
        if mod is None or not name.startswith("vtlengine"):
            continue
        for attr, val in list(vars(mod).items()):
            if val is orig:
                setattr(mod, attr, lock)
                n += 1
    lock.patched = n
    return lock


class Execution:
    """one controlled execution of a set of thunks under a given choice prefix"""

    def __init__(self, thunks, prefix, lock, points=POINTS):
        self.thunks = thunks
        self.prefix = list(prefix)
        self.lock = lock
        self.pointset = points
        self.main = threading.Semaphore(0)
        self.baton = {}
        self.done = set()
        self.blocked = {}
        self.results = {}
        self.trace = []       # per decision: dict(enabled, chosen, running_enabled, tag, tid)
        self.pending_tag = "start"
        self.same_tag = {}

    # --- called from controlled threads ---------------------------------------------------------
    def point(self, tag):
        tid = threading.current_thread().vid
        self.pending_tag = tag
        self.main.release()
        if not self.baton[tid].acquire(timeout=WATCHDOG_S):
            raise HarnessDeadlock("thread %s never rescheduled at %s" % (tid, tag))

    def block(self, tid, lock):
        self.blocked[tid] = lock
        self.pending_tag = "blocked"
        self.main.release()
        if not self.baton[tid].acquire(timeout=WATCHDOG_S):
            raise HarnessDeadlock("thread %s blocked forever" % tid)

    def unblock(self, lock):
        for t in [t for t, l in self.blocked.items() if l is lock]:
            del self.blocked[t]

    def _tracer(self, frame, event, arg):
        if event == "call":
            key = _key_of(frame.f_code)
            if key is not None and key in self.pointset:
                tid = threading.current_thread().vid
                k = (tid, key)
                if key[0] == "Utils/__Virtual_Assets.py" or key[0] == "Exceptions/__init__.py":
                    self.same_tag[k] = self.same_tag.get(k, 0) + 1
                    if self.same_tag[k] > MAX_SAME_TAG_RUN:
                        return None
                self.point(key[0].replace("/__init__.py", "").replace(".py", "") + ":" + key[1])
        return None

    def _body(self, tid):
        self.baton[tid].acquire()
        threading.current_thread().vid = tid
        sys.settrace(self._tracer)
        try:
            self.results[tid] = self.thunks[tid]()
        except BaseException as e:  # noqa: BLE001
            self.results[tid] = ("harness-exc", type(e).__name__, str(e)[:300])
        finally:
            sys.settrace(None)
            # a finished thread must not keep the cooperative lock
            if self.lock.owner == tid:
                self.lock.owner, self.lock.count = None, 0
                self.unblock(self.lock)
            self.done.add(tid)
            self.main.release()

    # --- driver -------------------------------------------------------------------------------------
    def run(self):
        self.lock.sched = self
        self.lock.owner, self.lock.count = None, 0
        ids = sorted(self.thunks)
        threads = {}
        for tid in ids:
            self.baton[tid] = threading.Semaphore(0)
            t = threading.Thread(target=self._body, args=(tid,), name="vt-%s" % tid, daemon=True)
            t.vid = None
            threads[tid] = t
            t.start()
        cur = None
        pos = 0
        deadlock = False
        try:
            while True:
                enabled = [t for t in ids if t not in self.done and t not in self.blocked]
                if not enabled:
                    if len(self.done) < len(ids):
                        deadlock = True
                    break
                running_enabled = cur in enabled
                if running_enabled:
                    enabled = [cur] + [t for t in enabled if t != cur]
                if pos < len(self.prefix):
                    c = self.prefix[pos]
                    if c >= len(enabled):
                        raise Divergence("choice %d out of range %d at decision %d" % (c, len(enabled), pos))
                else:
                    c = 0
                self.trace.append({"enabled": list(enabled), "chosen": c, "running_enabled": running_enabled,
                                   "tag": self.pending_tag, "from": cur})
                pos += 1
                cur = enabled[c]
                self.baton[cur].release()
                if not self.main.acquire(timeout=WATCHDOG_S):
                    raise HarnessDeadlock("no hand-off from thread %s within %ss (a real lock or a hang?)" % (cur, WATCHDOG_S))
        finally:
            self.lock.sched = None
        if deadlock:
            self.results["__deadlock__"] = sorted(set(ids) - self.done)
            # release parked threads so they can die: they are daemon threads blocked on their baton
        for t in threads.values():
            t.join(timeout=5)
        return self

    def choices(self):
        return [d["chosen"] for d in self.trace]

    def signature(self):
        return [(tuple(d["enabled"]), d["tag"]) for d in self.trace]


def preemptions_before(trace, i):
    n = 0
    for d in trace[:i]:
        if d["chosen"] != 0 and d["running_enabled"]:
            n += 1
    return n


def explore(make_thunks, lock, bound, on_execution, max_executions=None, points=POINTS):
    """iterative preemption bounding; on_execution(execution) is called for every complete execution.
    Returns dict(executions, max_points, truncated, bound_completed)."""
    stats = {"executions": 0, "max_points": 0, "truncated": False, "points_total": 0}

    def rec(prefix, parent_sig, b):
        if max_executions is not None and stats["executions"] >= max_executions:
            stats["truncated"] = True
            return
        x = Execution(make_thunks(), prefix, lock, points).run()
        sig = x.signature()
        if parent_sig is not None and sig[:len(prefix)] != parent_sig[:len(prefix)]:
            raise Divergence("replay of prefix %s diverged: %s vs %s" % (prefix, sig[:len(prefix)], parent_sig[:len(prefix)]))
        stats["executions"] += 1
        stats["points_total"] += len(x.trace)
        stats["max_points"] = max(stats["max_points"], len(x.trace))
        on_execution(x)
        ch = x.choices()
        for i in range(len(prefix), len(x.trace)):
            d = x.trace[i]
            cost = preemptions_before(x.trace, i)
            for alt in range(1, len(d["enabled"])):
                c = cost + (1 if d["running_enabled"] else 0)
                if c > b:
                    continue
                rec(ch[:i] + [alt], sig, b)

    # exploring with bound b visits every schedule with <= b preemptions exactly once
    rec([], None, bound)
    stats["bound_completed"] = bound if not stats["truncated"] else None
    return stats

"""C25 — generate_sdmx produces a TransformationScheme equivalent to the script.

Spaces (enumerated completely):
  corpus     every distinct parseable script text of the recorded upstream API calls and tests/**/*.vtl
             (static oracle), and the recorded run() calls with data (run oracle; quick: the 300 cheapest)
  generated  multi-statement scripts: 1..4 assignments, every persistent (<-) / temporary (:=) mix, chained
             or independent, x definition sets {none, operator, datapoint ruleset, hierarchical ruleset,
             viral propagation, all four} x definition placement {first, last, interleaved}; static + run
             oracle on generated data (with a viral attribute when a viral propagation is defined)

Oracle O1, for s valid and T = generate_sdmx(s, "MD", "TEST"):
  (a) T is a TransformationScheme with one transformation per assignment, same result name and is_persistent,
      in the order of the statements; the names / persistence are cross-checked against the source text;
  (b) every transformation, re-parsed from its own text, is structurally equal (astcmp) to the assignment;
  (c) every ruleset / operator definition stored in T re-parses to an AST structurally equal to the original
      definition, with matching ruleset_type / ruleset_scope, and every definition of s is in T;
  (d) run(T, data, return_only_persistent=b) gives the same results as run(s, data, ...), b in {True, False}.
"""
import json
import re

from vtlmc import astcmp, corpus, harness
from vtlmc.checks import C24 as c24

_E = {}


def eng():
    if not _E:
        c24.eng()
        import vtlengine
        from vtlengine.API import create_ast
        _E.update(generate_sdmx=vtlengine.generate_sdmx, run=vtlengine.run, create_ast=create_ast)
    return _E


def cls(x):
    return type(x).__name__


# ------------------------------------------------------------------------------------------------
# static oracle
# ------------------------------------------------------------------------------------------------

_SRC_ASSIGN = re.compile(r"\s*('(?:\\'|[^'])*'|[^\s:<]+)\s*(<-|:=)")


def source_assignment(stmt_text):
    """(result name, persistent) read off the statement text; None for a definition"""
    m = _SRC_ASSIGN.match(stmt_text)
    if m is None or stmt_text.lstrip().startswith("define "):
        return None
    n = m.group(1)
    return (n[1:-1] if n.startswith("'") else n), m.group(2) == "<-"


def scheme_script(sch):
    """the VTL text a scheme stands for, assembled the documented way (rulesets, operators, transformations)"""
    parts = []
    for rs in sch.ruleset_schemes or []:
        for r in getattr(rs, "items", []) or []:
            parts.append(r.ruleset_definition)
    for us in sch.user_defined_operator_schemes or []:
        for u in getattr(us, "items", []) or []:
            parts.append(u.operator_definition)
    for t in sch.items:
        parts.append(t.full_expression)
    return "\n".join(parts)


_MEMO = {}


def static(text):
    """-> None if `text` is not a valid (parseable) script, else {"ast", "scheme", "devs": [...]}"""
    if text in _MEMO:
        return _MEMO[text]
    res = _static(text)
    if len(_MEMO) < 20000:
        _MEMO[text] = res
    return res


def _static(text):
    E = eng()
    c24.forget_rulesets()
    o = harness.call(E["create_ast"], text)
    if o[0] != "ok":
        return None
    a = o[1]
    c24.forget_rulesets()
    g = harness.call(E["generate_sdmx"], text, "MD", "TEST")
    if g[0] != "ok":
        return {"ast": a, "scheme": None, "devs": [{"dev": "generate-raises", "err": g[1:]}]}
    sch, devs = g[1], []
    if cls(sch) != "TransformationScheme":
        return {"ast": a, "scheme": None, "devs": [{"dev": "not-a-transformation-scheme", "got": cls(sch)}]}
    assigns = [c for c in a.children if cls(c) in ("Assignment", "PersistentAssignment")]
    rulesets = [c for c in a.children if cls(c) in ("DPRuleset", "HRuleset")]
    udos = [c for c in a.children if cls(c) == "Operator"]
    virals = [c for c in a.children if cls(c) == "ViralPropagationDef"]
    other_defs = [c for c in a.children if cls(c) not in ("Assignment", "PersistentAssignment", "DPRuleset", "HRuleset", "Operator",
                                                           "ViralPropagationDef", "Comment")]
    items = list(sch.items)
    got = [(t.result, bool(t.is_persistent)) for t in items]
    exp = [(c.left.value, cls(c) == "PersistentAssignment") for c in assigns]
    if got != exp:
        if len(got) != len(exp):
            kind = "transformation-count"
        elif sorted(got) == sorted(exp):
            kind = "order-changed"
        elif [g_[0] for g_ in got] == [e[0] for e in exp]:
            kind = "persistence-changed"
        else:
            kind = "result-name-changed"
        devs.append({"dev": "items-mismatch", "kind": kind, "expected": exp, "got": got})
    # the same, read off the source text (independent of the AST classes ast_to_sdmx dispatches on)
    sts = c24.statements(text, a)
    if sts:
        src = [source_assignment(t) for n, t in sts if cls(n) in ("Assignment", "PersistentAssignment")]
        if None not in src and len(src) == len(got) and src != got and not devs:
            devs.append({"dev": "items-mismatch", "kind": "differs-from-source-text", "expected": src, "got": got})
    # what the scheme stands for, parsed the way run() will parse it (definitions + transformations together)
    c24.forget_rulesets()
    rt = harness.call(E["create_ast"], scheme_script(sch))
    got_rs = [r for rs in (sch.ruleset_schemes or []) for r in (getattr(rs, "items", None) or [])]
    got_udo = [u for us in (sch.user_defined_operator_schemes or []) for u in (getattr(us, "items", None) or [])]
    if len(got_rs) != len(rulesets):
        devs.append({"dev": "definition-count", "what": "ruleset", "expected": len(rulesets), "got": len(got_rs)})
    if len(got_udo) != len(udos):
        devs.append({"dev": "definition-count", "what": "operator", "expected": len(udos), "got": len(got_udo)})
    if rt[0] != "ok":
        # which stored text does not parse on its own?
        found = False
        if len(items) == len(assigns):
            for node, t in zip(assigns, items):
                o1 = harness.call(E["create_ast"], t.full_expression)
                if o1[0] != "ok":
                    found = True
                    devs.append({"dev": "transformation-does-not-parse", "err": o1[1:], "text": t.full_expression, "node": node})
        if len(got_rs) == len(rulesets):
            for node, r in zip(rulesets, got_rs):
                o1 = harness.call(E["create_ast"], r.ruleset_definition)
                if o1[0] != "ok":
                    found = True
                    devs.append({"dev": "definition-does-not-parse", "what": "ruleset", "err": o1[1:], "text": r.ruleset_definition, "node": node})
        if len(got_udo) == len(udos):
            for node, u in zip(udos, got_udo):
                o1 = harness.call(E["create_ast"], u.operator_definition)
                if o1[0] != "ok":
                    found = True
                    devs.append({"dev": "definition-does-not-parse", "what": "operator", "err": o1[1:], "text": u.operator_definition, "node": node})
        if not found:
            devs.append({"dev": "scheme-script-does-not-parse", "err": rt[1:], "text": scheme_script(sch)})
        return {"ast": a, "scheme": sch, "devs": devs}
    rta = rt[1]
    # (b) every transformation re-parses to the original assignment
    by_name = {}
    for c in rta.children:
        if cls(c) in ("Assignment", "PersistentAssignment"):
            by_name.setdefault(c.left.value, c)
    if len(items) == len(assigns):
        for node, t in zip(assigns, items):
            other = by_name.get(node.left.value)
            if other is not None:
                d = astcmp.diff(node, other)
                if d is not None:
                    devs.append({"dev": "transformation-ast-changed", "diff": d, "text": t.full_expression, "node": node})
    # (c) every ruleset / operator definition re-parses to the original definition
    # paired by position among the definitions of the same kind (names may repeat in a script), by name otherwise
    rs_rt = [c for c in rta.children if cls(c) in ("DPRuleset", "HRuleset")]
    udo_rt = [c for c in rta.children if cls(c) == "Operator"]
    defs_rt = {}
    if len(rs_rt) == len(rulesets):
        for n_, c in zip(rulesets, rs_rt):
            defs_rt[id(n_)] = c
    else:
        for n_ in rulesets:
            defs_rt[id(n_)] = next((c for c in rs_rt if cls(c) == cls(n_) and c.name == n_.name), None)
    if len(udo_rt) == len(udos):
        for n_, c in zip(udos, udo_rt):
            defs_rt[id(n_)] = c
    else:
        for n_ in udos:
            defs_rt[id(n_)] = next((c for c in udo_rt if c.op == n_.op), None)
    if len(got_rs) == len(rulesets):
        for node, r in zip(rulesets, got_rs):
            other = defs_rt.get(id(node))
            if other is None:
                devs.append({"dev": "definition-not-one-definition", "what": "ruleset", "text": r.ruleset_definition, "node": node})
            else:
                d = astcmp.diff(node, other)
                if d is not None:
                    devs.append({"dev": "definition-ast-changed", "what": "ruleset", "diff": d, "text": r.ruleset_definition, "node": node})
            want_type = "datapoint" if cls(node) == "DPRuleset" else "hierarchical"
            want_scope = "variable" if node.signature_type == "variable" else "valuedomain"
            if r.ruleset_type != want_type or r.ruleset_scope != want_scope:
                devs.append({"dev": "ruleset-metadata", "expected": (want_type, want_scope), "got": (r.ruleset_type, r.ruleset_scope), "node": node})
            o1 = harness.call(E["create_ast"], r.ruleset_definition)
            if o1[0] != "ok" or len(o1[1].children) != 1 or cls(o1[1].children[0]) != cls(node):
                devs.append({"dev": "definition-not-one-definition", "what": "ruleset", "text": r.ruleset_definition, "node": node})
    if len(got_udo) == len(udos):
        for node, u in zip(udos, got_udo):
            other = defs_rt.get(id(node))
            if other is None:
                devs.append({"dev": "definition-not-one-definition", "what": "operator", "text": u.operator_definition, "node": node})
            else:
                d = astcmp.diff(node, other)
                if d is not None:
                    devs.append({"dev": "definition-ast-changed", "what": "operator", "diff": d, "text": u.operator_definition, "node": node})
            o1 = harness.call(E["create_ast"], u.operator_definition)
            if o1[0] != "ok" or len(o1[1].children) != 1 or cls(o1[1].children[0]) != "Operator":
                devs.append({"dev": "definition-not-one-definition", "what": "operator", "text": u.operator_definition, "node": node})
    # definitions the scheme has no slot for
    n_v = len([c for c in rta.children if cls(c) == "ViralPropagationDef"])
    if n_v != len(virals):
        devs.append({"dev": "definition-count", "what": "viral-propagation", "expected": len(virals), "got": n_v})
    if other_defs:
        devs.append({"dev": "definition-count", "what": cls(other_defs[0]), "expected": len(other_defs), "got": 0})
    return {"ast": a, "scheme": sch, "devs": devs}


# ------------------------------------------------------------------------------------------------
# localisation and keys
# ------------------------------------------------------------------------------------------------

def stmt_of(text, ast, node):
    t = c24.node_text(text, c24.line_starts(text), node)
    return None if t is None else t.rstrip().rstrip(";") + ";"


def shows(frag, dev):
    """the dev dict of kind `dev` that `frag` (a script) shows on its own, or None"""
    r = static(frag)
    if r is None:
        return None
    for d in r["devs"]:
        if d["dev"] == dev:
            return d
    return None


def minimise(stmt, dev, depth=0):
    if depth > 6:
        return stmt
    for c in c24._subfragments(stmt):
        if len(c) >= len(stmt):
            break
        if shows(c, dev):
            return minimise(c, dev, depth + 1)
    return stmt


def construct_of(frag, d):
    """(construct, class, deviation-suffix) in domain vocabulary for deviation d shown by fragment frag"""
    dev = d["dev"]
    if "diff" in d:
        df = d["diff"]
        if df.owner == "Constant" and df.node_a is not None and isinstance(df.node_a.value, float):
            v, v2 = df.node_a.value, getattr(df.node_b, "value", None)
            lits = [lt for n, lt in c24._float_constants(frag) if n.value == v]
            lit = lits[0] if lits else repr(abs(v))
            if isinstance(v2, int) and not isinstance(v2, bool) and v2 == v:
                devname = "type-changed-to-integer"
            elif isinstance(v2, (int, float)) and not isinstance(v2, bool):
                devname = "value-changed"
            else:
                devname = "literal-kind-changed"
            return "number-literal", c24.num_class(lit, devname), devname
        if df.owner == "Constant" and df.node_a is not None:
            kind = {type(None): "null-literal", str: "string-literal", bool: "boolean-literal", int: "integer-literal"}.get(type(df.node_a.value), "literal")
            return kind, df.field, "value-changed" if df.field == "value" else "type-changed"
        lit = _literal_responsible(frag, dev)
        if lit is not None:
            return "number-literal", c24.num_class(lit, "unparseable"), "rendered-as-other-construct"
        rw = _reserved_responsible(frag, dev)
        if rw is not None:
            return "reserved-word-name", rw, "rendered-unquoted"
        if df.field == "isLast":
            return "join-body", "clause-moved-outside-join", "ast-changed"
        return df.owner, df.kind(), "ast-changed"
    if "err" in d:
        kind, ecls, code, msg = d["err"]
        if dev == "generate-raises":
            devname = ("raw-error" if kind == "raw" else "vtl-error") + ":" + ecls
            ncls, node = c24._failing_render_node(frag, ecls) if kind == "raw" else (None, None)
            if ncls == "Constant" and isinstance(getattr(node, "value", None), float):
                lits = [lt for n, lt in c24._float_constants(frag) if n.value == node.value or n.value == -node.value]
                return "number-literal", c24.num_class(lits[0] if lits else repr(abs(node.value)), devname), devname
            if ncls == "Argument":
                t = getattr(node, "type_", None)
                ncls = "Argument[%s]" % (getattr(t, "__name__", None) or type(t).__name__)
            return ncls or c24._top_class(frag), "any", devname
        lit = _literal_responsible(frag, dev)
        if lit is not None:
            return "number-literal", c24.num_class(lit, "unparseable"), "does-not-parse"
        rw = _reserved_responsible(frag, dev)
        if rw is not None:
            return "reserved-word-name", rw, "rendered-unquoted"
        tok = c24._offending_token(msg) if ecls == "VTLSyntaxError" else "constructor-error-" + ecls
        if tok.startswith("keyword-"):
            return "syntax-at-" + tok, "any", "does-not-parse"
        return c24._top_class(frag), "at-" + tok, "does-not-parse"
    return c24._top_class(frag), "any", dev


def _literal_responsible(frag, dev):
    starts = c24.line_starts(frag)
    for n, lit in c24._float_constants(frag):
        s = c24.span(starts, n)
        t = frag[s[0]:s[1]]
        sign = t[0] if t[0] in "+-" else ""
        sub = frag[:s[0]] + sign + "1.5" + frag[s[1]:]
        if lit != "1.5" and static(sub) is not None and shows(sub, dev) is None:
            return lit
    return None


def _reserved_responsible(frag, dev):
    for m in re.finditer(r"'([A-Za-z_][A-Za-z_0-9]*)'", frag):
        w = m.group(1)
        if w not in c24._rw():
            continue
        sub = frag[:m.start()] + c24.NEUTRAL + frag[m.end():]
        r = static(sub)
        if r is None or shows(sub, dev) is not None:
            continue
        a = static(frag)
        d = astcmp.diff(a["ast"], r["ast"]) if a else None
        return d.owner if d is not None else "name"
    return None


PART = {"transformation-does-not-parse": "transformation", "transformation-ast-changed": "transformation",
        "transformation-not-one-statement": "transformation", "definition-does-not-parse": "definition",
        "definition-ast-changed": "definition", "definition-not-one-definition": "definition"}


def key_and_what(frag, d, src):
    dev = d["dev"]
    shown = "script %r" % frag
    if dev == "definition-count":
        what = "%s: the scheme of generate_sdmx() holds %d %s definition(s), the script has %d" % (shown, d["got"], d["what"], d["expected"])
        return "C25:%s-def:dropped-from-scheme" % d["what"], what
    if dev == "items-mismatch":
        return "C25:assignments:%s" % d["kind"], "%s: transformations (result, is_persistent) = %s, expected %s" % (shown, d["got"], d["expected"])
    if dev == "ruleset-metadata":
        return "C25:ruleset:type-or-scope-wrong", "%s: Ruleset (type, scope) = %s, expected %s" % (shown, d["got"], d["expected"])
    if dev == "not-a-transformation-scheme":
        return "C25:result:not-a-transformation-scheme", "%s: generate_sdmx returns a %s" % (shown, d["got"])
    construct, klass, devname = construct_of(frag, d)
    part = PART.get(dev, "generate_sdmx")
    key = "C25:" + ":".join(x for x in (construct, klass, devname) if x and x != "any")
    if dev == "generate-raises":
        return key, "%s: generate_sdmx() raises %s(%s); expected a TransformationScheme" % (shown, d["err"][1], d["err"][3][:140])
    if "diff" in d:
        what = "%s: the %s stored in the scheme is %r, whose AST differs at %s; expected a structurally equal AST" % (shown, part, d["text"], d["diff"])
    elif "err" in d:
        what = "%s: the %s stored in the scheme is %r, which does not parse (%s)" % (shown, part, d["text"], d["err"][3].split("\n")[0][:160])
    else:
        what = "%s: the %s stored in the scheme is %r: %s" % (shown, part, d.get("text"), dev)
    return key, what


def report(text, res, rec, src, per_key):
    """one finding per deviation, localised to the statement (and sub-expression) responsible"""
    for d in res["devs"]:
        dev = d["dev"]
        frag = text
        node = d.get("node")
        if node is not None:
            st = stmt_of(text, res["ast"], node)
            if st is not None and shows(st, dev):
                frag = minimise(st, dev)
        elif dev == "generate-raises":
            sts = c24.statements(text, res["ast"]) or []
            failing = [t for _, t in sts if shows(t, dev)]
            if failing:
                frag = minimise(min(failing, key=lambda s: (len(s), s)), dev)
        elif dev == "definition-count":
            nodes = [c for c in res["ast"].children if (cls(c) == "ViralPropagationDef" and d["what"] == "viral-propagation")
                     or (cls(c) in ("DPRuleset", "HRuleset") and d["what"] == "ruleset") or (cls(c) == "Operator" and d["what"] == "operator")]
            if nodes:
                st = stmt_of(text, res["ast"], nodes[0])
                # a scheme needs a transformation: keep one trivial assignment next to the definition
                if st is not None and shows(st + " DS_r <- DS_1;", dev):
                    frag = st + " DS_r <- DS_1;"
        dd = shows(frag, dev) or d
        key, what = key_and_what(frag, dd, src)
        rec.count("violating_cases")
        cur = per_key.get(key)
        if cur is None or (len(frag), frag) < (len(cur[0]), cur[0]):
            per_key[key] = (frag, what + " [first seen in %s]" % src, dev)


def flush(per_key, rec):
    for key, (frag, what, dev) in sorted(per_key.items()):
        rec.violation(key, what, {"kind": "static", "script": frag, "dev": dev})


# ------------------------------------------------------------------------------------------------
# run oracle
# ------------------------------------------------------------------------------------------------

def run_both(text, kw_of):
    """kw_of() -> fresh keyword arguments (without script / return_only_persistent).
    -> list of (rop, 'same'|'differs'|'skip', detail, nonempty)"""
    E = eng()
    out = []
    c24.forget_rulesets()
    g = harness.call(E["generate_sdmx"], text, "MD", "TEST")
    if g[0] != "ok":
        return [(None, "skip", "generate_sdmx-already-fails", False)]
    for rop in (True, False):
        c24.forget_rulesets()
        a = harness.call(E["run"], script=text, return_only_persistent=rop, **kw_of())
        if a[0] != "ok":
            out.append((rop, "skip", "original-run-fails-here", False))
            continue
        c24.forget_rulesets()
        b = harness.call(E["run"], script=g[1], return_only_persistent=rop, **kw_of())
        if b[0] != "ok":
            out.append((rop, "differs", "run(scheme) raises %s %s: %s; run(script) succeeds" % (b[2], b[3], b[4][:160]), False))
            continue
        ca, cb = harness.canon_results(a[1]), harness.canon_results(b[1])
        nonempty = any(v[0] == "scalar" or (v[0] == "dataset" and v[1]["rows"]) for v in ca.values())
        if harness.results_equal(ca, cb):
            out.append((rop, "same", "", nonempty))
        else:
            names = sorted(k for k in set(ca) | set(cb) if k not in ca or k not in cb or not harness.results_equal({k: ca[k]}, {k: cb[k]}))
            out.append((rop, "differs", "results differ for %s (script gives %s, scheme gives %s)" % (names[:4], sorted(ca), sorted(cb)), nonempty))
    return out


def judge_runs(text, outs, rec, ck, replay, src, per_key):
    differs = [o for o in outs if o[1] == "differs"]
    if all(o[1] == "skip" for o in outs):
        rec.case(("run", outs[0][2]), "run-skipped:" + outs[0][2], nontrivial=False)
        return
    rec.count("runs_compared", len([o for o in outs if o[1] != "skip"]))
    if not differs:
        rec.case(ck, "run-same", nontrivial=any(o[3] for o in outs))
        return
    rec.case(ck, "run-differs")
    res = static(text)
    if res is not None and res["devs"]:
        # the scheme is already known not to be the script: same root cause as the static finding(s)
        rec.count("run_differences_explained_by_static_finding")
        tmp = {}
        report(text, res, rec, src, tmp)
        for key, (frag, what, dev) in tmp.items():
            per_key.setdefault(key, (frag, what + " [and on data: return_only_persistent=%s: %s]" % (differs[0][0], differs[0][2]), dev))
        return
    m = re.search(r"raises (\S+) (\S+):", differs[0][2])
    kind = "scheme-raises:%s:%s" % (m.group(1), m.group(2)) if m else "result-differs"
    rec.violation("C25:run:scheme-equal-to-script:%s" % kind,
                  "%s: with return_only_persistent=%s %s although every part of the scheme re-parses to the original" % (src, differs[0][0], differs[0][2]),
                  replay)


# ------------------------------------------------------------------------------------------------
# generated space
# ------------------------------------------------------------------------------------------------

DEFS = {
    "operator": 'define operator f (x dataset, k number default 2.5) returns dataset is x * k end operator;',
    "datapoint": 'define datapoint ruleset dpr (variable Me_1) is r1: Me_1 > 5.5 errorcode "low" errorlevel 1; r2: when Me_1 > 0 then Me_1 < 100 errorcode "high" end datapoint ruleset;',
    "hierarchical": 'define hierarchical ruleset hr (variable rule Id_2) is A = B + C errorcode "h" errorlevel 2 end hierarchical ruleset;',
    "viral": 'define viral propagation VP (variable VAt_1) is when "C" then "C"; when "N" then "N"; else "F" end viral propagation;',
}
DEF_SETS = [(), ("operator",), ("datapoint",), ("hierarchical",), ("viral",), ("operator", "datapoint", "hierarchical", "viral")]
USES = {"operator": ("f({X})", True), "datapoint": ("check_datapoint({X}, dpr all)", False),
        "hierarchical": ("hierarchy({X}, hr rule Id_2 non_null all)", False)}
PLAIN = [("{X} + DS_2", True), ("{X}[filter Me_1 > 1.5]", True)]


def gen_scripts():
    out = []
    for n in (1, 2, 3, 4):
        for mask in range(2 ** n):
            ops = ["<-" if (mask >> i) & 1 else ":=" for i in range(n)]
            for shape in ("chain", "independent"):
                for ds in DEF_SETS:
                    for place in (("first", "last", "interleaved") if ds else ("none",)):
                        kinds = [USES[d] for d in ds if d in USES] + PLAIN
                        stmts, prev = [], "DS_1"
                        for i in range(n):
                            tpl, chainable = kinds[i % len(kinds)]
                            name = "R%d" % (i + 1)
                            stmts.append("%s %s %s;" % (name, ops[i], tpl.replace("{X}", prev if shape == "chain" else "DS_1")))
                            if chainable:
                                prev = name
                        defs = [DEFS[d] for d in ds]
                        if place in ("first", "none"):
                            lines = defs + stmts
                        elif place == "last":
                            lines = stmts + defs
                        else:
                            lines, dd = [], list(defs)
                            for s in stmts:
                                if dd:
                                    lines.append(dd.pop(0))
                                lines.append(s)
                            lines += dd
                        ck = ("generated", n, "".join("P" if o == "<-" else "T" for o in ops), shape, "+".join(ds) or "no-defs", place)
                        out.append({"ck": ck, "script": "\n".join(lines), "viral": "viral" in ds})
    return out


def gen_data(viral):
    import pandas as pd
    comps = [harness.comp("Id_1", "Integer", "Identifier"), harness.comp("Id_2", "String", "Identifier"), harness.comp("Me_1", "Number", "Measure")]
    if viral:
        comps.append(harness.comp("VAt_1", "String", "Viral Attribute"))
    structs = harness.structures(harness.structure("DS_1", comps), harness.structure("DS_2", comps))
    d1 = {"Id_1": [1, 1, 1, 2, 2], "Id_2": ["A", "B", "C", "B", "C"], "Me_1": [10.0, 4.0, 6.5, 20.0, None]}
    d2 = {"Id_1": [1, 1, 2, 2], "Id_2": ["A", "B", "B", "C"], "Me_1": [1.0, 2.25, 3.0, 0.5]}
    if viral:
        d1["VAt_1"] = ["C", "N", "F", None, "C"]
        d2["VAt_1"] = ["N", "N", "C", "C"]
    return {"data_structures": structs, "datapoints": {"DS_1": pd.DataFrame(d1), "DS_2": pd.DataFrame(d2)}}


# ------------------------------------------------------------------------------------------------
# workers
# ------------------------------------------------------------------------------------------------

def w_static(cases, rec):
    per_key = {}
    for src, text in cases:
        res = static(text)
        if res is None:
            rec.case(("corpus", "unparseable"), "not-a-valid-script", nontrivial=False)
            continue
        n_assign = len([c for c in res["ast"].children if cls(c) in ("Assignment", "PersistentAssignment")])
        outcome = "ok" if not res["devs"] else "deviation:" + "+".join(sorted({d["dev"] for d in res["devs"]}))
        rec.case(c24.cov_key("corpus", res["ast"]), outcome, nontrivial=n_assign > 0,
                 sample={"space": "corpus", "source": src, "script": text[:200], "outcome": outcome})
        rec.count("scripts_corpus")
        if any(cls(c) in ("DPRuleset", "HRuleset", "Operator") for c in res["ast"].children):
            rec.count("scripts_with_definitions")
        if res["devs"]:
            report(text, res, rec, src, per_key)
    flush(per_key, rec)


def w_generated(cases, rec):
    per_key = {}
    for c in cases:
        text, src = c["script"], "generated %s" % (c["ck"],)
        res = static(text)
        if res is None:
            rec.tool_error("generated script does not parse: %r" % text)
            continue
        outcome = "ok" if not res["devs"] else "deviation:" + "+".join(sorted({d["dev"] for d in res["devs"]}))
        rec.case(("static",) + c["ck"], outcome, sample={"space": "generated", "script": text[:300], "outcome": outcome})
        rec.count("scripts_generated")
        if res["devs"]:
            report(text, res, rec, src, per_key)
        outs = run_both(text, lambda v=c["viral"]: gen_data(v))
        if any(o[2] == "original-run-fails-here" for o in outs):
            rec.tool_error("generated script does not run: %r" % text)
        if c["viral"] and any(o[1] != "skip" for o in outs):
            rec.count("viral_scripts_run")
        judge_runs(text, outs, rec, ("run",) + c["ck"], {"kind": "generated-run", "script": text, "viral": c["viral"]}, src, per_key)
    flush(per_key, rec)


def w_run(recs, rec):
    per_key = {}
    for r in recs:
        text = c24.script_text(r)
        if text is None:
            rec.case(("run", "no-text"), "run-skipped:no-text", nontrivial=False)
            continue

        def kw_of(r=r):
            kw = corpus.run_kwargs(r)
            for k in ("script", "return_only_persistent", "output_folder"):
                kw.pop(k, None)
            return kw
        with c24._env(r.get("env")):
            outs = run_both(text, kw_of)
        judge_runs(text, outs, rec, ("run", r["id"]), {"kind": "run", "id": r["id"]}, "corpus run %s (%s)" % (r["id"], r["test"]), per_key)
    flush(per_key, rec)


def _dispatch(item, rec):
    fn, payload = item
    fn(payload, rec)


class Check:
    ID = "C25"
    LEVEL = "exploration"
    RULE = ("one case = one script through generate_sdmx with every transformation / definition of the scheme re-parsed "
            "and compared (static), or one script run as text and as scheme under both return_only_persistent values "
            "(run). corpus: every distinct parseable script text of the recorded API calls and tests/**/*.vtl, distinct = "
            "set of (AST node class, operator) signatures, non-trivial = has an assignment; recorded run() calls: one "
            "case each, non-trivial = non-empty result; generated: (number of statements 1..4, persistence pattern, "
            "chain/independent, definition set, definition placement), each as a static and a run case.")
    ASSUMPTIONS = [
        "a script is 'valid' when create_ast accepts it; run() equivalence additionally needs the recorded data and an "
        "original run that succeeds in this sandbox",
        "statement order = order of Start.children after create_ast (the engine sorts statements by dependency); names and "
        "persistence are additionally read off the source text",
        "structural equality is astcmp (positions ignored; omitted optional modes equal to their VTL default)",
        "the AST constructor's process-wide memory of hierarchical ruleset signatures is emptied before every parse of a case",
    ]

    def run(self, tier, seed, rec):
        harness.boot()
        items = []
        scripts = c24.corpus_scripts()
        for ch in harness.chunks(harness.seeded_order(scripts, seed), 40):
            items.append((w_static, ch))
        gen = gen_scripts()
        for ch in harness.chunks(harness.seeded_order(gen, seed), 12):
            items.append((w_generated, ch))
        runs = sorted(corpus.load(fn="run", outcome="ok"), key=lambda r: (c24.run_cost(r), r["id"]))
        total = len(runs)
        if tier == "quick":
            runs = runs[:300]
        for ch in harness.chunks(harness.seeded_order(runs, seed), 8):
            items.append((w_run, ch))
        harness.pmap(_dispatch, items, rec)
        rec.violations.sort(key=lambda v: (v["key"], len(json.dumps(v["replay"], sort_keys=True)), json.dumps(v["replay"], sort_keys=True)))
        c = rec.counters
        if c.get("scripts_corpus", 0) < 1000 or c.get("scripts_generated", 0) != len(gen) or c.get("scripts_with_definitions", 0) < 50:
            rec.tool_error("spaces not exercised: %s" % c)
        if c.get("runs_compared", 0) < 500 or c.get("viral_scripts_run", 0) < 10:
            rec.tool_error("run() oracle not exercised: %s" % c)
        return {"exhaustive": True, "corpus_scripts": len(scripts), "generated_scripts": len(gen),
                "corpus_runs_available": total, "corpus_runs_executed": len(runs)}

    def replay(self, data):
        harness.boot()
        if data["kind"] == "static":
            return shows(data["script"], data["dev"]) is not None
        if data["kind"] == "generated-run":
            outs = run_both(data["script"], lambda: gen_data(data["viral"]))
            return any(o[1] == "differs" for o in outs)
        if data["kind"] == "run":
            for r in corpus.load(fn="run", outcome="ok"):
                if r["id"] == data["id"]:
                    text = c24.script_text(r)

                    def kw_of(r=r):
                        kw = corpus.run_kwargs(r)
                        for k in ("script", "return_only_persistent", "output_folder"):
                            kw.pop(k, None)
                        return kw
                    with c24._env(r.get("env")):
                        return any(o[1] == "differs" for o in run_both(text, kw_of))
        return False

"""C12 — results do not depend on the textual order of statements.

Explorer E1 + oracle O1: scripts generated from dependency graphs (every graph within the bound, rendered with a mix
of expression shapes) executed in *every permutation* of their statements; definitions (operator / rulesets)
interleaved at every position; every digraph with a cycle and every duplicated left-hand side in every permutation
(same error whatever the order); multi-statement corpus scripts permuted statement-wise.
"""
import itertools
import os

from vtlmc import corpus, harness
from vtlmc.gen import depgraphs as G

SHAPES = ("sum", "union", "filter", "join")


def expr(ops, i):
    """expression of statement i over its operands; shape chosen deterministically from the statement index"""
    shape = SHAPES[(i + len(ops)) % len(SHAPES)]
    if len(ops) == 1:
        return "%s[filter Me_1 > 0]" % ops[0] if shape in ("filter", "join") else "%s + 0" % ops[0]
    if shape == "union":
        return "union(%s)" % ", ".join("%s * %d" % (o, k + 1) if k else o for k, o in enumerate(ops))
    if shape == "join" and len(ops) == 2:
        return "inner_join(%s as a, %s as b calc Me_9 := a#Me_1 - b#Me_1 keep Me_9)[rename Me_9 to Me_1]" % (ops[0], ops[1])
    return " + ".join(ops)


def render(graph, mask, order):
    return "\n".join("S%d %s %s;" % (i + 1, "<-" if mask[i] else ":=", expr(graph[i], i)) for i in order)


def outcome(V, script, structs, dps, do_run=True):
    sem = harness.call(V.semantic_analysis, script, structs)
    if sem[0] == "ok":
        s = ("ok", {k: harness.canon_components(v) if hasattr(v, "components") else ("scalar", v.data_type.__name__) for k, v in sem[1].items()})
    else:
        s = ("err",) + tuple(sem[1:4])
    if not do_run:
        return s, None
    out = harness.call(V.run, script, structs, dps, return_only_persistent=False)
    if out[0] == "ok":
        r = ("ok", harness.canon_results(out[1]))
    else:
        r = ("err",) + tuple(out[1:4])
    return s, r


def same(a, b):
    if a is None or b is None:
        return a is b
    if a[0] != b[0]:
        return False
    if a[0] == "err":
        return a == b
    if isinstance(a[1], dict) and a[1] and all(isinstance(v, tuple) and v and v[0] in ("dataset", "other") or
                                                (isinstance(v, tuple) and len(v) == 3 and v[0] == "scalar") for v in a[1].values()):
        return harness.results_equal(a[1], b[1])
    return a[1] == b[1]


def graphs_item(item, rec):
    graphs, k, run_all = item
    V = harness.boot()
    structs, dps = G.structures(k), G.frames(k)
    for graph in graphs:
        n = len(graph)
        mask = tuple(i % 2 == 0 for i in range(n))
        ident = tuple(range(n))
        base = outcome(V, render(graph, mask, ident), structs, dps)
        if base[0][0] != "ok" or base[1][0] != "ok":
            rec.tool_error("generated script invalid: %r -> %s" % (render(graph, mask, ident), str(base)[:300]))
            continue
        for order in itertools.permutations(range(n)):
            if order == ident:
                continue
            do_run = run_all or order == tuple(reversed(ident))
            got = outcome(V, render(graph, mask, order), structs, dps, do_run)
            ok_s = same(base[0], got[0])
            ok_r = (not do_run) or same(base[1], got[1])
            disp = sum(1 for a, b in zip(order, ident) if a != b)
            rec.case(("graph", n, tuple(len(o) for o in graph), disp, ok_s, ok_r), "same" if ok_s and ok_r else "differs",
                     sample={"script": render(graph, mask, order), "identity": render(graph, mask, ident)} if n >= 3 and disp == n else None)
            if not ok_s or not ok_r:
                what = "structures" if not ok_s else "results"
                detail = got[0] if not ok_s else got[1]
                kind = "error:%s:%s" % (detail[2], detail[3]) if detail[0] == "err" else "differs"
                rec.violation("C12:generated:%s:%s" % (what, kind),
                              "script %r in order %s: %s %s (identity order fine)" % (render(graph, mask, order), order, what, str(detail)[:200]),
                              {"kind": "graph", "graph": graph, "k": k, "order": order})


def clause_item(item, rec):
    """statements whose clauses refer to results (scalars) of other statements, in every permutation"""
    graphs = item
    V = harness.boot()
    structs, dps = G.structures(1), G.frames(1)
    for graph in graphs:
        n = len(G.clause_statements(graph))
        mask = tuple(i % 2 == 1 for i in range(n))
        ident = tuple(range(n))
        base = outcome(V, G.clause_render(graph, mask, ident), structs, dps)
        if base[0][0] != "ok" or base[1][0] != "ok":
            # the definition-first order fails: a violation if some other order of the same statements works
            other = None
            for order in itertools.permutations(range(n)):
                got = outcome(V, G.clause_render(graph, mask, order), structs, dps)
                if order != ident and got[0][0] == "ok" and got[1][0] == "ok":
                    other = order
                    break
            if other is None:
                rec.tool_error("clause-reference script invalid in every order: %r -> %s" % (G.clause_render(graph, mask, ident), str(base)[:300]))
            else:
                bad = base[0] if base[0][0] != "ok" else base[1]
                rec.case(("clause-ref", n, "identity-fails"), "differs")
                rec.violation("C12:clause-reference:%s:error:%s:%s" % ("structures" if base[0][0] != "ok" else "results", bad[2], bad[3]),
                              "script %r fails (%s) while the same statements in order %s work" % (G.clause_render(graph, mask, ident), str(bad)[:200], other),
                              {"kind": "clause", "graph": graph, "order": list(ident)})
            continue
        for order in itertools.permutations(range(n)):
            if order == ident:
                continue
            got = outcome(V, G.clause_render(graph, mask, order), structs, dps)
            ok_s, ok_r = same(base[0], got[0]), same(base[1], got[1])
            rec.case(("clause-ref", n, sum(1 for a, b in zip(order, ident) if a != b), ok_s, ok_r), "same" if ok_s and ok_r else "differs",
                     sample={"script": G.clause_render(graph, mask, order)} if order == tuple(reversed(ident)) else None)
            if not ok_s or not ok_r:
                what = "structures" if not ok_s else "results"
                detail = got[0] if not ok_s else got[1]
                kind = "error:%s:%s" % (detail[2], detail[3]) if detail[0] == "err" else "differs"
                rec.violation("C12:clause-reference:%s:%s" % (what, kind),
                              "script %r: %s %s (definition-first order fine)" % (G.clause_render(graph, mask, order), what, str(detail)[:200]),
                              {"kind": "clause", "graph": graph, "order": order})


DEFS = {
    "udo": "define operator f1 (x dataset, y dataset) returns dataset is x + y end operator;",
    "dpr": "define datapoint ruleset dpr1 (variable Me_1) is r1: Me_1 > 0 errorcode \"E\" end datapoint ruleset;",
}


def defs_item(item, rec):
    V = harness.boot()
    structs, dps = G.structures(2), G.frames(2)
    stmts = ["S1 := f1(I1, I2);", "S2 <- check_datapoint(S1, dpr1 all);", "S3 <- S1 + I1;"]
    defs = [DEFS["udo"], DEFS["dpr"]]
    base = None
    pieces = stmts + defs
    for order in itertools.permutations(range(len(pieces))):
        script = "\n".join(pieces[i] for i in order)
        got = outcome(V, script, structs, dps)
        if base is None:
            base = got
            if got[0][0] != "ok" or got[1][0] != "ok":
                rec.tool_error("definition script invalid: %s" % str(got)[:300])
                return
            continue
        ok = same(base[0], got[0]) and same(base[1], got[1])
        rec.case(("defs", order.index(3) , order.index(4), ok), "same" if ok else "differs")
        if not ok:
            bad = got[0] if not same(base[0], got[0]) else got[1]
            rec.violation("C12:definitions-interleaved:%s" % ("error:%s:%s" % (bad[2], bad[3]) if bad[0] == "err" else "differs"),
                          "script with definitions in order %s: %s" % (order, str(bad)[:200]), {"kind": "defs", "order": order})


def negative_item(item, rec):
    V = harness.boot()
    structs, dps = G.structures(1), G.frames(1)
    # every digraph on <= 3 statements with a cycle: statement i reads reads[i] (statement indices) and possibly the input
    cases = []
    for n in (1, 2, 3):
        nodes = list(range(n))
        for reads in itertools.product(*[[s for r in range(0, n + 1) for s in itertools.combinations(nodes, r)] for _ in nodes]):
            adj = {i: set(reads[i]) for i in nodes}
            # cycle detection
            def cyc(i, stack, seen):
                if i in stack:
                    return True
                if i in seen:
                    return False
                seen.add(i)
                return any(cyc(j, stack | {i}, seen) for j in adj[i])
            if any(cyc(i, frozenset(), set()) for i in nodes):
                cases.append(("cycle", n, reads))
    for kind, n, reads in cases:
        stmts = ["S%d := %s;" % (i + 1, " + ".join(["S%d" % (j + 1) for j in reads[i]] + ["I1"])) for i in range(n)]
        codes = set()
        for order in itertools.permutations(range(n)):
            script = "\n".join(stmts[i] for i in order)
            out = harness.call(V.run, script, structs, dps)
            sem = harness.call(V.semantic_analysis, script, structs)
            codes.add((out[0],) + tuple(out[1:4]) if out[0] == "err" else ("ok",))
            codes.add((sem[0],) + tuple(sem[1:4]) if sem[0] == "err" else ("ok",))
        selfloop = any(i in reads[i] for i in range(n))
        # a self-reference is not "statements depending on each other": any single consistent SemanticError is accepted there
        good = codes == {("err", "vtl", "SemanticError", "1-3-2-3")} or (
            selfloop and len(codes) == 1 and next(iter(codes))[:3] == ("err", "vtl", "SemanticError"))
        rec.case(("cycle", n, selfloop, good), "cycle-error" if good else "other")
        if not good:
            rec.violation("C12:cycle:%s:%s" % ("self-loop" if selfloop else "%d-statements" % n, "+".join(sorted(str(c[2:]) if c[0] == "err" else "accepted" for c in codes))[:80]),
                          "cyclic script %r: outcomes over all orders %s (expected SemanticError 1-3-2-3 in every order)" % (stmts, sorted(map(str, codes))),
                          {"kind": "cycle", "stmts": stmts})
    # duplicated left-hand side, in every permutation
    for stmts in (["A := I1;", "A := I1 + 1;"], ["A := I1;", "B := A + 1;", "A <- I1 * 2;"], ["A <- I1;", "B <- I1;", "A := I1 * 2;"],
                  ["A := I1;", "A := I1;", "B := A;"]):
        codes = set()
        for order in itertools.permutations(range(len(stmts))):
            script = "\n".join(stmts[i] for i in order)
            out = harness.call(V.run, script, structs, dps)
            codes.add((out[0],) + tuple(out[1:4]) if out[0] == "err" else ("ok",))
        good = all(c[0] == "err" and c[1] == "vtl" and c[3] in ("1-2-2", "1-3-2-3") for c in codes) and any(c[3] == "1-2-2" for c in codes if c[0] == "err")
        strict = codes == {("err", "vtl", "SemanticError", "1-2-2")}
        rec.case(("redefinition", len(stmts), strict), "redefinition-error" if strict else "other")
        if not strict:
            rec.violation("C12:redefinition:%s" % "+".join(sorted(str(c[2:]) if c[0] == "err" else "accepted" for c in codes))[:100],
                          "script assigning a name twice %r: outcomes over all orders %s (expected SemanticError 1-2-2 in every order)" % (stmts, sorted(map(str, codes))),
                          {"kind": "redef", "stmts": stmts})


def split_statements(text):
    """-> list of statement source pieces (each ending with ';'), using the stand-in's parse tree"""
    from frontend import fe
    t = text + "\n"
    root = fe.parse(t)
    if fe.get_syntax_error() is not None:
        return None
    lines = t.split("\n")
    starts = [0]
    for ln in lines:
        starts.append(starts[-1] + len(ln) + 1)
    pieces, cur = [], None
    for ch in root._children:
        if not ch.is_terminal:
            cur = starts[ch.start_line - 1] + ch.start_column
        elif ch.text == ";" and cur is not None:
            end = starts[ch.line - 1] + ch.column + 1
            pieces.append(t[cur:end])
            cur = None
    return pieces


def corpus_item(item, rec):
    V = harness.boot()
    for r, maxperm in item:
        kw = corpus.run_kwargs(r)
        script = kw.get("script")
        if not isinstance(script, str) or kw.get("output_folder"):
            continue
        pieces = split_statements(script)
        if not pieces or len(pieces) < 2:
            continue
        n = len(pieces)
        kw["return_only_persistent"] = False
        base = harness.call(V.run, **kw)
        if base[0] != "ok":
            continue
        cb = harness.canon_results(base[1])
        if n <= maxperm:
            orders = [o for o in itertools.permutations(range(n)) if o != tuple(range(n))]
        else:
            orders = [tuple(reversed(range(n)))] + [tuple(list(range(j, n)) + list(range(j))) for j in range(1, n)]
            for i in range(n - 1):
                p = list(range(n))
                p[i], p[i + 1] = p[i + 1], p[i]
                orders.append(tuple(p))
        for order in orders:
            kw2 = dict(kw)
            kw2["script"] = "\n".join(pieces[i] for i in order)
            got = harness.call(V.run, **kw2)
            ok = got[0] == "ok" and harness.results_equal(cb, harness.canon_results(got[1]))
            rec.case(("corpus", min(n, 8), ok), "same" if ok else "differs")
            if not ok:
                area = r["test"].split("/")[1] if "/" in r["test"] else "?"
                rec.violation("C12:corpus:%s:%s" % (area, "error:%s:%s" % (got[2], got[3]) if got[0] != "ok" else "differs"),
                              "corpus call %s (%s), statements in order %s: %s" % (r["id"], r["test"], order, str(got[1:5])[:200] if got[0] != "ok" else "different results"),
                              {"kind": "corpus", "corpus_id": r["id"], "order": order})


class Check:
    ID = "C12"
    LEVEL = "exploration"
    RULE = ("every dependency graph with <= N statements over <= K inputs, each rendered with shape-varied expressions, in every "
            "permutation of its statements (semantic_analysis for all, run for all (N<=3) or identity+reversal (N=4)); definitions "
            "interleaved in all 120 orders; every cyclic digraph on <= 3 statements and 4 redefinition scripts in all orders; "
            "multi-statement corpus scripts in all permutations (<= 4 statements quick, <= 6 thorough) or the transposition/rotation/"
            "reversal neighbourhood. distinct key = (space, size, shape, displacement, verdict)")
    ASSUMPTIONS = ["dict order of the returned results is not part of the contract (compared as mappings)"]

    def run(self, tier, seed, rec):
        harness.boot()
        items = []
        plan = ([(2, 2, True), (3, 1, True), (3, 2, False)] if tier == "quick" else
                [(2, 2, True), (3, 2, True), (4, 2, False), (4, 1, True), (5, 1, False)])
        for n, k, run_all in plan:
            gs = harness.seeded_order(list(G.all_graphs(n, k)), seed)
            for ch in harness.chunks(gs, max(1, len(gs) // 48 + 1)):
                items.append((ch, k, run_all))
        harness.pmap(graphs_item, items, rec)
        cgs = list(G.clause_graphs(2, 2)) if tier == "quick" else list(G.clause_graphs(2, 2)) + list(G.clause_graphs(3, 1)) + list(G.clause_graphs(1, 3))
        harness.pmap(clause_item, list(harness.chunks(harness.seeded_order(cgs, seed), 3)), rec)
        harness.pmap(defs_item, [0], rec)
        harness.pmap(negative_item, [0], rec)
        rs = corpus.load(fn="run", outcome="ok")
        multi = [r for r in rs if isinstance(corpus.run_kwargs(r).get("script"), str) and corpus.run_kwargs(r)["script"].count(";") >= 2]
        maxperm = 4 if tier == "quick" else 6
        if tier == "quick":
            multi = sorted(multi, key=lambda r: len(corpus.run_kwargs(r)["script"]))[:60]
        harness.pmap(corpus_item, [[(r, maxperm) for r in ch] for ch in harness.chunks(multi, 6)], rec)
        return {"exhaustive": True, "plan": plan, "corpus_multi_statement": len(multi)}

    def replay(self, data):
        rec = harness.Recorder()
        if data["kind"] == "clause":
            g = data["graph"]
            clause_item([(tuple(tuple(x) for x in g[0]), tuple((b, tuple(c)) for b, c in g[1]))], rec)
        elif data["kind"] == "graph":
            graphs_item(([tuple(tuple(o) for o in data["graph"])], data["k"], True), rec)
        elif data["kind"] == "defs":
            defs_item(0, rec)
        elif data["kind"] in ("cycle", "redef"):
            negative_item(0, rec)
        else:
            corpus_item([(r, 6) for r in corpus.load(fn="run", outcome="ok") if r["id"] == data["corpus_id"]], rec)
        return bool(rec.violations)

"""C02 — clause operators filter, calc, keep, drop, rename, sub behave as specified (explorer E1, oracle O4 = vtlmc/ref_c02.py).

Programs.  A fixed alphabet of 34 clause instances over the standard structure (Id_1 Integer, Id_2 String identifiers;
Me_1, Me_2 Number measures; At_1 String attribute):
  filter   true on all / no / some rows, null-valued on some rows, compound and/or, on the attribute, on a component
           created by an earlier clause
  calc     add a measure, overwrite a measure, add an attribute, overwrite an attribute, add an identifier, two
           assignments at once, two assignments that swap two measures (every expression sees the input datapoint),
           from a component created by an earlier clause
  keep / drop of every non-empty proper subset of {Me_1, Me_2, At_1}
  rename   one measure, one identifier, two components, a swap
  sub      Id_1, Id_2, both
CHAINS = every sequence of clauses of length <= L in which each clause is well-typed on the structure produced by
its predecessors (ref_c02.clause_structure walks the structure; ill-typed sequences are never materialised).
Subjects: an input dataset (``DS_1[...]``), the result of another statement (``DS_a := DS_1[filter Id_1 > 0];
DS_a[...]``), the result of a 2-way ``inner_join(DS_1a as d1, DS_2a as d2)[...]`` whose result has the standard structure.

Inputs.  All 5^4 = 625 relations over the 2 x 2 identifier grid {1,2} x {"A","B"} with Me_1 in {-1.5, 0.0, 2.5, null}
(every cell absent or present with one of the four values); Me_2 and At_1 are fixed functions of (relation, cell)
that take the values {1.0, null, -2.0, 4.0} and {"x", "y", null}.  The relations are packed into one execution through
the extra identifier C_id; the oracle evaluates the packed script on the packed data, C_id is only used to count cases
and to minimise a counterexample.  Chains that contain ``sub`` or ``calc identifier`` are *additionally* run unpacked
(no C_id, so that results without identifiers, with one or no datapoint and empty operands are reached) over the 16
key-presence patterns of the grid.  ~50 chains are submitted as the statements of one script (one run() costs about the
same whatever the number of statements) and every statement is judged on its own.

Tiers.  quick: L <= 2 over the full alphabet + L = 3 over a 10-clause sub-alphabet, 3 subjects.  thorough: L <= 3 over the
full alphabet + L = 4 over the sub-alphabet, 3 subjects, 625 relations; L = 4 over the full alphabet (315 k chains) on
the input subject over the 16 presence patterns (packed).

Oracle.  The reference evaluator computes the expected datapoints (filter keeps exactly the datapoints whose condition
is TRUE; calc adds / overwrites exactly the named components, all expressions evaluated on the input datapoint; keep,
drop, rename touch only the listed components; sub keeps the matching datapoints and removes the fixed identifiers) and
the expected component names, roles and basic types; datapoints are compared as a set with refbase.compare.
A statement that differs is re-executed alone on its smallest failing relation (unpacked) and the shortest
sub-sequence of its clauses that still differs there names the finding.
"""
import ast
import itertools
import os
import random

from vtlmc import harness, refbase
from vtlmc import ref_c02 as R
from vtlmc.refbase import AT, DS, ID, ME

# ---------------------------------------------------------------------------------------------------
# alphabet and chains
# ---------------------------------------------------------------------------------------------------

STD = [["Id_1", "Integer", ID], ["Id_2", "String", ID], ["Me_1", "Number", ME], ["Me_2", "Number", ME], ["At_1", "String", AT]]
NONIDS = ["Me_1", "Me_2", "At_1"]


def alphabet():
    a = [("filter-all", "filter Id_1 >= 1"),
         ("filter-none", "filter Id_1 > 2"),
         ("filter-some", 'filter Id_2 = "A"'),
         ("filter-null", "filter Me_1 > 0"),
         ("filter-andor", "filter (Me_1 >= 0 and Me_2 > 0) or Me_2 < 0"),
         ("filter-attr", 'filter At_1 = "x"'),
         ("filter-new", "filter Me_3 > 0"),
         ("calc-add", "calc Me_3 := Me_1 + Me_2"),
         ("calc-over", "calc Me_1 := Me_1 * 2"),
         ("calc-attr", 'calc attribute At_2 := At_1 || "!"'),
         ("calc-id", "calc identifier Id_3 := Id_1 * 10"),
         ("calc-two", 'calc Me_3 := Me_1 - Me_2, attribute At_2 := "c"'),
         ("calc-swap", "calc Me_1 := Me_2, Me_2 := Me_1"),
         ("calc-new", "calc Me_4 := Me_3 * 2"),
         ("calc-overattr", 'calc attribute At_1 := "k"')]
    for k in (1, 2):
        for s in itertools.combinations(NONIDS, k):
            a.append(("keep-" + "+".join(s), "keep " + ", ".join(s)))
            a.append(("drop-" + "+".join(s), "drop " + ", ".join(s)))
    a += [("rename-one", "rename Me_1 to Me_3"),
          ("rename-id", "rename Id_2 to Id_5"),
          ("rename-two", "rename Me_2 to Me_6, At_1 to At_3"),
          ("rename-swap", "rename Me_1 to Me_2, Me_2 to Me_1"),
          ("rename-newid", "rename Id_3 to Id_7"),
          ("rename-newattr", "rename At_2 to At_7"),
          ("sub-new", "sub Id_3 = 10"),
          ("sub-1", "sub Id_1 = 1"),
          ("sub-2", 'sub Id_2 = "A"'),
          ("sub-12", 'sub Id_1 = 1, Id_2 = "A"')]
    return a


ALPHABET = alphabet()
TEXT = dict(ALPHABET)
LABELS = [l for l, _ in ALPHABET]
PARSED = {l: R.parse_clause(t) for l, t in ALPHABET}
SUB_ALPHABET = ["filter-null", "filter-new", "calc-add", "calc-over", "calc-new", "keep-Me_1", "drop-Me_2", "rename-one",
                "rename-swap", "sub-1"]
# components created with a role by an earlier clause, then kept / dropped around and used again
CREATED_ALPHABET = ["calc-id", "calc-attr", "keep-Me_1", "drop-Me_2", "filter-some", "rename-newid", "rename-newattr", "sub-new"]
UNPACKED_TRIGGERS = {"sub-1", "sub-2", "sub-12", "calc-id", "sub-new"}


def chains(labels, lmax, comps=None, prefix=()):
    """every well-typed chain of 1..lmax clauses over ``labels`` (depth first, structure tracked)"""
    comps = STD if comps is None else comps
    if prefix:
        yield prefix
    if len(prefix) == lmax:
        return
    for l in labels:
        try:
            nxt = R.clause_structure(comps, PARSED[l], strict=True)
        except R.IllTyped:
            continue
        for c in chains(labels, lmax, nxt, prefix + (l,)):
            yield c


def well_typed(chain):
    comps = STD
    try:
        for l in chain:
            comps = R.clause_structure(comps, PARSED[l], strict=True)
    except R.IllTyped:
        return False
    return True


def chain_text(chain):
    return "".join("[%s]" % TEXT[l] for l in chain)


# ---------------------------------------------------------------------------------------------------
# inputs: relations over the 2 x 2 grid
# ---------------------------------------------------------------------------------------------------

GRID = [(1, "A"), (1, "B"), (2, "A"), (2, "B")]
D_ME1 = [-1.5, 0.0, 2.5, None]
D_ME2 = [1.0, None, -2.0, 4.0]
D_AT1 = ["x", "y", None]
ALL_RELATIONS = list(range(5 ** 4))
SUBJECTS = ("input", "stmt", "join", "joindrop")


def presence_relation(p):
    """the relation whose cell j is present iff bit j of p is set, Me_1 rotating through its domain"""
    r = 0
    for j in range(4):
        if p >> j & 1:
            r += (((p + j) % 4) + 1) * 5 ** j
    return r


PRESENCE_RELATIONS = [presence_relation(p) for p in range(16)]


def rel_rows(r):
    rows, x = [], r
    for j, (a, b) in enumerate(GRID):
        d = x % 5
        x //= 5
        if d:
            rows.append({"Id_1": a, "Id_2": b, "Me_1": D_ME1[d - 1], "Me_2": D_ME2[(r + j) % 4], "At_1": D_AT1[(r // 4 + j) % 3]})
    return rows


def rel2_rows(r):
    """second join operand of relation r: the cells with (r + j) % 7 != 0, whether or not the first operand has them"""
    return [{"Id_1": a, "Id_2": b, "Me_2": D_ME2[(r + j) % 4]} for j, (a, b) in enumerate(GRID) if (r + j) % 7]


def shuffled(rows, seed, salt=0):
    rows = list(rows)
    if seed:
        random.Random(seed * 1000003 + salt).shuffle(rows)
    return rows


def build_inputs(subject, rels, packed, seed=0):
    """the input datasets of one execution: relations ``rels`` (packed through C_id, or exactly one unpacked)"""
    cid = [["C_id", "Integer", ID]] if packed else []
    if not packed and len(rels) != 1:
        raise ValueError("an unpacked execution carries one relation")

    def tag(rows, r):
        return [dict(x, C_id=r + 1) for x in rows] if packed else rows
    if subject in ("input", "stmt"):
        rows = [x for r in rels for x in tag(rel_rows(r), r)]
        return [DS("DS_1", cid + STD, shuffled(rows, seed))]
    if subject == "joindrop":
        # second operand: the same keys, a measure with the SAME NAME Me_1 (other values) that the join body drops, so
        # the join result is DS_1 itself while the remaining Me_1 travels through the join as d1#Me_1
        rows = [x for r in rels for x in tag(rel_rows(r), r)]
        rows2 = [dict({k: v for k, v in x.items() if k in ("C_id", "Id_1", "Id_2")}, Me_1=1000.0 + i) for i, x in enumerate(rows)]
        return [DS("DS_1", cid + STD, shuffled(rows, seed)),
                DS("DS_2k", cid + [c for c in STD if c[2] == ID or c[0] == "Me_1"], shuffled(rows2, seed, 3))]
    rows1 = [{k: v for k, v in x.items() if k != "Me_2"} for r in rels for x in tag(rel_rows(r), r)]
    rows2 = [x for r in rels for x in tag(rel2_rows(r), r)]
    return [DS("DS_1a", cid + [c for c in STD if c[0] != "Me_2"], shuffled(rows1, seed, 1)),
            DS("DS_2a", cid + [c for c in STD if c[2] == ID or c[0] == "Me_2"], shuffled(rows2, seed, 2))]


def build_script(subject, named_chains):
    """[(result name, chain)] -> script text"""
    if subject == "input":
        return "".join("%s <- DS_1%s;\n" % (n, chain_text(c)) for n, c in named_chains)
    if subject == "stmt":
        return "DS_a := DS_1[filter Id_1 > 0];\n" + "".join("%s <- DS_a%s;\n" % (n, chain_text(c)) for n, c in named_chains)
    if subject == "joindrop":
        return "".join("%s <- inner_join(DS_1 as d1, DS_2k as d2 drop d2#Me_1)%s;\n" % (n, chain_text(c)) for n, c in named_chains)
    return "".join("%s <- inner_join(DS_1a as d1, DS_2a as d2)%s;\n" % (n, chain_text(c)) for n, c in named_chains)


def reference_script(subject, named_chains):
    """the script the reference evaluator runs: the join of subject joindrop is the identity on DS_1 by construction"""
    return build_script("input" if subject == "joindrop" else subject, named_chains)


def relation_class(r):
    rows = rel_rows(r)
    n = len(rows)
    nulls = [c for c in ("Me_1", "Me_2", "At_1") if any(x[c] is None for x in rows)]
    return "%s-datapoint%s" % ({0: "no", 1: "one"}.get(n, "several"), ("/null-in-" + "+".join(nulls)) if nulls else "")


def relation_rank(r):
    rows = rel_rows(r)
    return (len(rows), sum(1 for x in rows for v in x.values() if v is None), r)


CANONICAL_RELATIONS = sorted((r for r in ALL_RELATIONS if len(rel_rows(r)) <= 1), key=relation_rank)


# ---------------------------------------------------------------------------------------------------
# judging one execution against the reference evaluator
# ---------------------------------------------------------------------------------------------------

def to_rel(ds):
    return R.Rel([[n, t, r] for n, t, r, _ in ds.comps], [dict(x) for x in ds.rows])


def ds_json(d):
    return {"name": d.name, "comps": [list(c) for c in d.comps], "rows": d.rows}


def ds_from_json(j):
    return DS(j["name"], [tuple(c) for c in j["comps"]], j["rows"])


def engine_structure(dataset):
    return sorted((c.name, c.role.value if hasattr(c.role, "value") else str(c.role), getattr(c.data_type, "__name__", str(c.data_type)))
                  for c in dataset.components.values())


def expected_structure(rel):
    return sorted((c[0], c[2], c[1]) for c in rel.comps)


def judge_dataset(got, exp, rel=1e-9):
    """engine Dataset vs expected Rel -> list of (kind, key, detail); kind also 'wrong-structure'"""
    diffs = []
    gs, es = engine_structure(got), expected_structure(exp)
    if gs != es:
        diffs.append(("wrong-structure", None, (gs, es)))
    rows = harness.dataset_rows(got) or []
    diffs += refbase.compare(rows, exp.rows, exp.ids(), rel=rel)
    return diffs


def deviation(diffs):
    kinds = [d[0] for d in diffs]
    for k in ("wrong-structure", "duplicate-identifiers", "missing-datapoint", "extra-datapoint", "missing-column", "wrong-value"):
        if k in kinds:
            return "wrong-structure" if k == "missing-column" else k
    return kinds[0]


def error_deviation(out):
    return ("raw-error:%s" % out[2]) if out[1] == "raw" else ("vtl-error:%s" % out[3])


_MEMO = {}


def check_single(subject, chain, rels, packed, seed=0):
    """run one chain alone -> (deviation or None, detail, script, datasets)"""
    key = (subject, chain, tuple(rels), packed, seed)
    if key in _MEMO:
        return _MEMO[key]
    dss = build_inputs(subject, rels, packed, seed)
    script = build_script(subject, [("DS_r", chain)])
    res = check_script(script, dss, ["DS_r"], reference_script(subject, [("DS_r", chain)]))["DS_r"]
    _MEMO[key] = (res[0], res[1], script, dss)
    return _MEMO[key]


def check_script(script, dss, names, ref_script=None):
    """engine vs reference for the named results -> {name: (deviation or None, detail)}"""
    exp, _ = R.evaluate(ref_script or script, {d.name: to_rel(d) for d in dss}, strict=True)
    out = refbase.run(script, dss)
    res = {}
    for n in names:
        if out[0] == "err":
            res[n] = (error_deviation(out), "engine raised %s %s: %s" % (out[2], out[3], out[4][:200]))
        elif n not in out[1]:
            res[n] = ("wrong-structure", "result %s missing from run() output %s" % (n, sorted(out[1])))
        else:
            diffs = judge_dataset(out[1][n], exp[n])
            res[n] = (deviation(diffs), describe(diffs)) if diffs else (None, None)
    return res


def describe(diffs):
    parts = []
    for kind, key, detail in diffs[:4]:
        if kind == "wrong-structure":
            parts.append("structure observed %s expected %s" % (detail[0], detail[1]))
        elif kind == "wrong-value":
            parts.append("datapoint %s: %s observed %r expected %r" % (key, detail[0], detail[1], detail[2]))
        elif kind == "missing-datapoint":
            parts.append("expected datapoint %s %s is missing" % (key, detail))
        elif kind == "extra-datapoint":
            parts.append("unexpected datapoint %s %s" % (key, detail))
        else:
            parts.append("%s %s %s" % (kind, key, detail))
    if len(diffs) > 4:
        parts.append("... %d differences" % len(diffs))
    return "; ".join(parts)


def subsequences(chain):
    """well-typed proper sub-sequences of a chain, shortest first (order of clauses kept)"""
    out = []
    for k in range(1, len(chain)):
        for idx in itertools.combinations(range(len(chain)), k):
            c = tuple(chain[i] for i in idx)
            if c not in out and well_typed(c):
                out.append(c)
    return out


_REPORTED_SHAPES = set()


def report(rec, subject, chain, failing_rels, packed_rels, first_dev, first_detail):
    """minimise (data first, then the chain) and record one violation"""
    for c in subsequences(chain) + [chain]:
        if (subject, c) in _REPORTED_SHAPES:
            # this worker has already minimised and reported a sub-chain of this chain on this subject: the longer chain
            # fails at least for that reason; it is counted, not minimised again (minimisation costs dozens of runs)
            rec.count("failing_chains_containing_a_reported_shape")
            return
    cands = sorted(failing_rels, key=relation_rank)[:4] if failing_rels else sorted(packed_rels, key=relation_rank)[:3]
    found = None
    for r in cands:                                         # 1. the statement alone on one relation, unpacked
        dev, detail, script, dss = check_single(subject, chain, [r], False)
        if dev:
            found = (dev, detail, script, dss, [r], False)
            break
    if not found:
        for r in cands:                                     # 2. alone on one relation that keeps its C_id
            dev, detail, script, dss = check_single(subject, chain, [r], True)
            if dev:
                found = (dev, detail, script, dss, [r], True)
                break
    if not found:                                           # 3. alone on the whole packed data
        dev, detail, script, dss = check_single(subject, chain, sorted(packed_rels), True)
        if dev:
            found = (dev, detail, script, dss, sorted(packed_rels), True)
    if not found:
        rec.tool_error("statement %s%s differed inside a batch (%s: %s) but not when executed alone" % (
            subject, chain_text(chain), first_dev, first_detail))
        return
    dev, detail, script, dss, rels, packed = found
    shape = chain
    for c in subsequences(chain):                           # 4. shortest sub-chain that still fails on that data
        d2, det2, s2, dss2 = check_single(subject, c, rels, packed)
        if d2:
            shape, dev, detail, script, dss = c, d2, det2, s2, dss2
            break
    if len(rels) == 1 and not packed and len(rel_rows(rels[0])) > 1:
        for r in CANONICAL_RELATIONS:                       # 5. a canonical smallest input on which that sub-chain fails
            d2, det2, s2, dss2 = check_single(subject, shape, [r], False)
            if d2:
                rels, dev, detail, script, dss = [r], d2, det2, s2, dss2
                break
    inputclass = relation_class(rels[0]) if len(rels) == 1 else "packed-relations"
    if packed and len(rels) == 1:
        inputclass += "/with-extra-identifier"
    _REPORTED_SHAPES.add((subject, shape))
    key = "C02:%s:%s:%s:%s" % (">".join(shape), subject, inputclass, dev)
    what = "%s on %s -> %s (found through chain %s)" % (
        script.strip().replace("\n", " "), "; ".join("%s=%s" % (d.name, d.rows) for d in dss), detail, chain_text(chain))
    rec.violation(key, what, {"script": script, "datasets": [ds_json(d) for d in dss], "result": "DS_r",
                              "ref_script": reference_script(subject, [("DS_r", shape)])})


def run_batch(item, rec):
    """one item = a batch of chains of one subject on one data set (packed relations or a list of single relations)"""
    harness.boot()
    subject, mode, batch, seed = item["subject"], item["mode"], [tuple(c) for c in item["chains"]], item["seed"]
    packed = mode != "unpacked"
    executions = [item["rels"]] if packed else [[r] for r in item["rels"]]
    named = [("R%03d" % i, c) for i, c in enumerate(batch)]
    script = build_script(subject, named)
    for rels in executions:
        dss = build_inputs(subject, rels, packed, seed)
        try:
            exp, _ = R.evaluate(reference_script(subject, named), {d.name: to_rel(d) for d in dss}, strict=True)
        except Exception as e:  # noqa: BLE001  the generator only emits chains the evaluator accepts
            rec.tool_error("reference evaluator failed on %s: %r" % (script[:200], e))
            return
        out = refbase.run(script, dss)
        rec.count("engine_runs")
        n_in = len(rels)
        for name, chain in named:
            ckey = (subject, mode, chain)
            e = exp[name]
            if out[0] == "err":
                # an error aborts the whole script: find out whether this statement raises alone
                dev = check_single(subject, chain, rels, packed, seed)[0]
                rec.count("engine_runs")
                if dev is None:
                    rec.case(ckey, "agree", nontrivial=bool(e.rows), n=n_in)
                    continue
                rec.case(ckey, dev, n=n_in)
                report(rec, subject, chain, [], rels, dev, out[4][:200])
                continue
            if name not in out[1]:
                rec.case(ckey, "missing-result", n=n_in)
                report(rec, subject, chain, [], rels, "wrong-structure", "result missing")
                continue
            diffs = judge_dataset(out[1][name], e)
            rec.count("expected_datapoints", len(e.rows))
            if not diffs:
                rec.case(ckey, "agree" if e.rows else "agree-empty", nontrivial=bool(e.rows), n=n_in,
                         sample={"subject": subject, "mode": mode, "chain": chain_text(chain), "relations": n_in,
                                 "result_datapoints": len(e.rows)} if name == "R000" else None)
                if e.rows:
                    rec.add("clauses_agreeing_nonempty", chain)
                if not e.ids():
                    rec.count("results_without_identifiers")
                continue
            rec.case(ckey, deviation(diffs), n=n_in)
            failing = set()
            if packed and "C_id" in e.ids():
                pos = e.ids().index("C_id")
                failing = {k[pos] - 1 for _, k, _ in diffs if k is not None and k[pos] is not None}
            elif not packed:
                failing = set(rels)
            report(rec, subject, chain, failing, rels, deviation(diffs), describe(diffs))


# ---------------------------------------------------------------------------------------------------
# calibration on the expectations stored in the repository
# ---------------------------------------------------------------------------------------------------

RM_NUMBERS = tuple(range(163, 177))
CORPUS_DIRS = (("ClauseAfterClause", "test_clause_after_clause.py"), ("Calc", "test_calc.py"), ("Joins", "test_joins.py"))


def test_cases(dirname, testfile):
    """(code, number_inputs, references_names, expects_error) of every test in tests/<dirname>/<testfile>"""
    base = os.path.join(harness.REPO, "tests", dirname)
    tree = ast.parse(open(os.path.join(base, testfile), encoding="utf-8").read())
    for fn in ast.walk(tree):
        if not isinstance(fn, ast.FunctionDef) or not fn.name.startswith("test_"):
            continue
        vals, err = {}, False
        for n in ast.walk(fn):
            if isinstance(n, ast.Assign) and len(n.targets) == 1 and isinstance(n.targets[0], ast.Name):
                try:
                    vals[n.targets[0].id] = ast.literal_eval(n.value)
                except Exception:  # noqa: BLE001
                    pass
            if isinstance(n, ast.Call):
                f = n.func.attr if isinstance(n.func, ast.Attribute) else getattr(n.func, "id", None)
                if (f and "Exception" in f) or any(k.arg == "exception_code" for k in n.keywords):
                    err = True
        if "code" in vals and isinstance(vals.get("number_inputs"), int):
            yield vals["code"], vals["number_inputs"], vals.get("references_names"), err


def load_case(dirname, code, n_in, refs):
    d = os.path.join(harness.REPO, "tests", dirname, "data")
    script = open(os.path.join(d, "vtl", code + ".vtl"), encoding="utf-8").read()
    ins, outs = [], {}
    for i in range(1, n_in + 1):
        for ds in refbase._load_ds(os.path.join(d, "DataStructure", "input", "%s-%d.json" % (code, i)),
                                   os.path.join(d, "DataSet", "input", "%s-%d.csv" % (code, i))):
            ins.append(refbase.typed(ds))
    for r in refs or []:
        for ds in refbase._load_ds(os.path.join(d, "DataStructure", "output", "%s-%s.json" % (code, r)),
                                   os.path.join(d, "DataSet", "output", "%s-%s.csv" % (code, r))):
            outs[ds.name] = refbase.typed(ds)
    return script, ins, outs


def calibrate_one(script, ins, outs, expects_error):
    """-> ('reproduced' | 'error-reproduced' | 'not-modelled' | 'MISMATCH', detail)"""
    try:
        res, _ = R.evaluate(script, {d.name: to_rel(d) for d in ins})
    except R.NotModelled as e:
        return "not-modelled", str(e)
    except (R.IllTyped, R.RuntimeErr) as e:
        return ("error-reproduced", None) if expects_error else ("MISMATCH", "evaluator raised %r" % (e,))
    if expects_error:
        return "MISMATCH", "the corpus expects an error, the evaluator produced a result"
    probs = []
    for name, exp in outs.items():
        got = res.get(name)
        if not isinstance(got, R.Rel):
            probs.append("result %s missing" % name)
            continue
        if sorted((c[0], c[2]) for c in got.comps) != sorted((c[0], c[2]) for c in exp.comps):
            probs.append("structure %s vs stored %s" % (sorted((c[0], c[2]) for c in got.comps), sorted((c[0], c[2]) for c in exp.comps)))
        probs += [str(d) for d in refbase.compare(got.rows, exp.rows, exp.ids(), rel=1e-5)[:3]]
    return ("reproduced", None) if not probs else ("MISMATCH", "; ".join(probs)[:400])


def calibration_corpus():
    for num, script, ins, outs in refbase.reference_manual_cases(set(RM_NUMBERS)):
        yield "RM%d" % num, script, ins, outs, False
    for dn, tf in CORPUS_DIRS:
        for code, n, refs, err in test_cases(dn, tf):
            try:
                script, ins, outs = load_case(dn, code, n, refs)
            except (OSError, ValueError, KeyError):
                continue
            yield "%s/%s" % (dn, code), script, ins, outs, err


def calibrate(rec):
    """-> (number of stored expectations reproduced, per-directory counts, not-modelled labels); tool_error on a mismatch"""
    ok, errs, notm, by = 0, 0, [], {}
    for label, script, ins, outs, err in calibration_corpus():
        if not outs and not err:
            continue
        verdict, detail = calibrate_one(script, ins, outs, err)
        if verdict == "reproduced":
            ok += 1
            by[label.split("/")[0][:2] if label.startswith("RM") else label.split("/")[0]] = by.get(
                label.split("/")[0][:2] if label.startswith("RM") else label.split("/")[0], 0) + 1
        elif verdict == "error-reproduced":
            errs += 1
        elif verdict == "not-modelled":
            notm.append("%s (%s)" % (label, detail))
        else:
            rec.tool_error("oracle not calibrated: %s: %s" % (label, detail))
    return ok, errs, notm, by


# ---------------------------------------------------------------------------------------------------
# the check
# ---------------------------------------------------------------------------------------------------

BATCH = 50


def plan(tier, seed):
    """-> list of work items (every item is one batch of chains on one data set)"""
    if tier == "quick":
        packed = list(chains(LABELS, 2)) + [c for c in chains(SUB_ALPHABET, 3) if len(c) == 3]
        packed += [c for c in chains(CREATED_ALPHABET, 3) if len(c) == 3]
        reduced = []
    else:
        full3 = list(chains(LABELS, 3))
        packed = full3 + [c for c in chains(SUB_ALPHABET, 4) if len(c) == 4] + [c for c in chains(CREATED_ALPHABET, 4) if len(c) == 4]
        reduced = [c for c in chains(LABELS, 4) if len(c) == 4]
    packed = list(dict.fromkeys(packed))
    items = []
    for subject in SUBJECTS:
        if subject == "joindrop" and tier == "quick":
            packed = [c for c in packed if len(c) <= 2]
        for b in harness.chunks(harness.seeded_order(packed, seed), BATCH):
            items.append({"subject": subject, "mode": "packed", "chains": b, "rels": ALL_RELATIONS, "seed": seed})
        unp = [c for c in packed if UNPACKED_TRIGGERS & set(c)]
        for b in harness.chunks(harness.seeded_order(unp, seed), BATCH):
            items.append({"subject": subject, "mode": "unpacked", "chains": b, "rels": PRESENCE_RELATIONS, "seed": seed})
    for b in harness.chunks(harness.seeded_order(reduced, seed), 4 * BATCH):
        items.append({"subject": "input", "mode": "packed-presence", "chains": b, "rels": PRESENCE_RELATIONS, "seed": seed})
    return harness.seeded_order(items, seed), len(packed), len(reduced)


def predicate_outcomes():
    """truth values each filter predicate of the alphabet takes on the packed standard data (non-vacuity)"""
    rows = [x for r in ALL_RELATIONS for x in rel_rows(r)]
    out = {}
    for l in LABELS:
        if l.startswith("filter-") and l != "filter-new":
            out[l] = {R.ev(PARSED[l][1], x) for x in rows}
    return out


class Check:
    ID = "C02"
    LEVEL = "exploration"
    RULE = ("case = (subject, clause chain, input relation). Chains: every well-typed sequence over a 37-clause alphabet "
            "(filter x7, calc x8, keep x6, drop x6, rename x6, sub x4), quick L<=2 + L=3 over a 10-clause sub-alphabet and over the 8-clause created-component alphabet, "
            "thorough L<=3 + L=4 over the sub-alphabet (+ L=4 over the full alphabet on the input subject over 16 presence "
            "patterns); subjects: input dataset, result of another statement, result of a 2-way inner_join, result of a join whose body drops one of two same-named measures; inputs: all 625 "
            "relations over a 2x2 identifier grid with Me_1 in {-1.5, 0, 2.5, null} packed through C_id, chains with sub / "
            "calc identifier also unpacked over the 16 key-presence patterns. distinct = distinct (subject, mode, chain); "
            "non-trivial = the expected result has at least one datapoint.")
    ASSUMPTIONS = [
        "calc expressions of one clause are all evaluated on the input datapoint (manual: 'each Component is calculated through an independent sub-expression')",
        "calc that overwrites an attribute always names the role (the role of an overwritten non-measure without role keyword is not decided here)",
        "calc identifier only from expressions over identifiers (the engine rejects nullable sources with 1-1-1-16)",
        "components are compared by name, role and basic scalar type; nullability and column order are not compared (C10)",
        "the empty string is not in the String domain; Me_1 * 2, Me_1 + Me_2 are exact in binary floating point on the domain",
    ]

    def run(self, tier, seed, rec):
        harness.boot()
        ok, errs, notm, by = calibrate(rec)
        extra = {"traces_validated_against_impl": ok, "calibration_by_source": by, "calibration_errors_reproduced": errs,
                 "calibration_not_modelled": len(notm), "exhaustive": True}
        rec.note("calibration: %d stored expected outputs reproduced %s, %d expected errors reproduced, %d corpus cases outside "
                 "the subset" % (ok, by, errs, len(notm)))
        for s in notm[:40]:
            rec.note("not modelled: " + s)
        if rec.tool_errors:
            return extra
        if ok < 40 or by.get("RM", 0) < 9:
            rec.tool_error("oracle not calibrated: only %d corpus cases reproduced (%s)" % (ok, by))
            return extra
        po = predicate_outcomes()
        want = {"filter-all": {True}, "filter-none": {False}, "filter-some": {True, False}, "filter-null": {True, False, None},
                "filter-andor": {True, False, None}, "filter-attr": {True, False, None}}
        for l, w in want.items():
            if po.get(l) != w:
                rec.tool_error("non-vacuity: predicate %s takes the truth values %s on the data, wanted %s" % (l, po.get(l), w))
        items, n_packed, n_reduced = plan(tier, seed)
        extra.update({"chains": n_packed, "chains_presence_only": n_reduced, "work_items": len(items), "relations": len(ALL_RELATIONS)})
        harness.pmap(run_batch, items, rec)
        used = set(rec.sets.get("clauses_agreeing_nonempty", ()))
        idle = [l for l in LABELS if l not in used and l != "filter-none"]
        if idle and not rec.violations:
            rec.tool_error("non-vacuity: clauses never part of an agreeing chain with a non-empty result: %s" % idle)
        if not rec.counters.get("results_without_identifiers"):
            rec.tool_error("non-vacuity: no result without identifiers was produced (sub on every identifier, unpacked)")
        return extra

    def replay(self, data):
        harness.boot()
        dss = [ds_from_json(j) for j in data["datasets"]]
        res = check_script(data["script"], dss, [data.get("result", "DS_r")], data.get("ref_script"))
        return any(v[0] for v in res.values())

"""C03 — aggregations group and summarise as specified.

Bounded exhaustive enumeration (explorer E1) of aggregate invocations x inputs, every execution judged by an independent
reference evaluator (oracle O4, vtlmc/ref_c03.py: explicit partition into groups, `statistics` / `fractions`):

  operators   sum avg count min max median stddev_pop stddev_samp var_pop var_samp
  grouping    none | group by every subset of the identifiers | group except every non-empty subset |
              group all time_agg("A") over a Time_Period identifier
  having      absent | count() > 1 | sum(Me_1) > 0 | avg(Me_1) >= 0.5 | avg(Me_1) >= 0.5 or stddev_samp(Me_1) > 1  (the second
              operand is null for groups with fewer than two values: exercises true-or-null and false-or-null);
              plus one run each for having shapes outside that alphabet: a two-measure operand, a condition over a measure
              other than the aggregated one (aggr clause), a condition whose top-level operator is `not`
  form        op(DS group ...)  |  DS[aggr X_1 := op(Me_1) group ...]  |  DS[aggr X_1 := op(Me_1), X_2 := op'(Me_k) group ...]
  data        EVERY multiset of size 0..n over {null, a, b} as the content of a group (n = 3: 20 multisets, n = 5: 56),
              packed into one run: the extra grouping identifier C_id numbers the multisets (C_id is part of every packed
              grouping, so the slices are independent; the oracle evaluates the packed script on the packed data anyway).
              Groupings that cannot contain C_id (none, group except <all identifiers>, ...) run unpacked: one dataset per
              multiset (the empty one included), many statements per script.
  measures    Integer (a = 2, b = -1) and Number (2.5, -1.5) for every operator, as single measure and as a two-measure
              operand (Me_1:Integer, Me_2:Number with a different null pattern); String, Date, Time_Period, Duration,
              Boolean for min / max / count where the semantic analysis accepts them.

quick: n <= 3, one identifier besides C_id.  thorough: n <= 5, two identifiers (two groups per C_id, the key of the
non-grouped identifier repeats), plus one structural case per operator with 200 datapoints (i mod 7, every 5th null).

Calibration gate: the evaluator must reproduce the stored expectations of the Reference-Manual examples RM135-RM150 and of
the cases of tests/Aggregate that fall inside the modelled subset.
"""
import glob
import itertools
import os
import random

from vtlmc import harness, refbase
from vtlmc import ref_c03 as R
from vtlmc.refbase import DS, ID, ME

NUMERIC = ("Integer", "Number")
OTHER_TYPES = ("String", "Date", "Time_Period", "Duration", "Boolean")
ANY_TYPE_OPS = ("min", "max", "count")
VAL = {
    "Integer": {"N": None, "a": 2, "b": -1},
    "Number": {"N": None, "a": 2.5, "b": -1.5},
    "String": {"N": None, "a": "abc", "b": "b"},
    "Date": {"N": None, "a": "2020-02-29", "b": "2021-01-01"},
    "Time_Period": {"N": None, "a": "2020M10", "b": "2020M02"},
    "Duration": {"N": None, "a": "M", "b": "A"},
    "Boolean": {"N": None, "a": True, "b": False},
}
PARTNER = {op: R.OPS[(i + 1) % len(R.OPS)] for i, op in enumerate(R.OPS)}
PARTNER_ANY = {"min": "max", "max": "count", "count": "min"}
HAVINGS = {
    "none": None,
    "count": ("cmp", ">", ("agg", "count", None), ("const", 1)),
    "sum": ("cmp", ">", ("agg", "sum", "Me_1"), ("const", 0)),
    "avg": ("cmp", ">=", ("agg", "avg", "Me_1"), ("const", 0.5)),
    # null for some groups (stddev_samp of fewer than two values), combined with true / false by the three-valued or
    "nullcond": ("or", ("cmp", ">=", ("agg", "avg", "Me_1"), ("const", 0.5)), ("cmp", ">", ("agg", "stddev_samp", "Me_1"), ("const", 1))),
}
FORMS = ("dataset", "aggr", "aggr-two")
G_ALL = ("no-grouping", "group-by", "group-except", "group-all-time_agg")


# ---------------------------------------------------------------------------------------------------------
# the space
# ---------------------------------------------------------------------------------------------------------

def multisets(maxn):
    out = []
    for n in range(maxn + 1):
        out.extend(itertools.combinations_with_replacement("Nab", n))
    return out


def content_class(content):
    nulls = sum(1 for x in content if x == "N")
    return "%d-datapoints/%d-null" % (len(content), nulls)


def group_class(values):
    """equivalence class of a group (finding keys): how many non-null values, whether nulls are present"""
    nn = sum(1 for v in values if v is not None)
    if not values:
        return "empty-operand"
    if nn == 0:
        return "all-null-group"
    head = "single-value" if nn == 1 else ("even-number-of-values" if nn % 2 == 0 else "odd-number-of-values")
    return head + ("+nulls" if nn < len(values) else "")


def other_ids(idkind, two_ids):
    if idkind == "time":
        return ([("Id_1", "Integer", ID)] if two_ids else []) + [("Id_t", "Time_Period", ID)]
    return [("Id_1", "Integer", ID)] + ([("Id_2", "String", ID)] if two_ids else [])


def measure_comps(flavour):
    if flavour == "duo":
        return [("Me_1", "Integer", ME), ("Me_2", "Number", ME)]
    return [("Me_1", flavour, ME)]


def slice_rows(index, contents, idkind, two_ids, flavour, cid=None):
    """the datapoints of one multiset: group A holds the multiset, group B (where the identifiers allow a second group)
    the next multiset; the key of the non-grouped identifier repeats in both"""
    content = contents[index]
    nxt = contents[(index + 1) % len(contents)]
    groups = [(1, 2020, content)]
    if two_ids or idkind == "time":
        groups.append((2, 2021, nxt))
    rows = []
    for g1, year, cont in groups:
        n = len(cont)
        for k in range(n):
            r = {} if cid is None else {"C_id": cid}
            if idkind == "time":
                if two_ids:
                    r["Id_1"] = g1
                r["Id_t"] = "%dM%02d" % (year, k + 1)
            else:
                if two_ids:
                    r["Id_1"] = g1
                    r["Id_2"] = "k%d" % (k + 1)
                else:
                    r["Id_1"] = k + 1
            if flavour == "duo":
                r["Me_1"] = VAL["Integer"][cont[k]]
                r["Me_2"] = VAL["Number"][cont[(k + 1) % n]]
            else:
                r["Me_1"] = VAL[flavour][cont[k]]
            rows.append(r)
    return rows


def subsets(names, nonempty=False):
    out = []
    for n in range(1 if nonempty else 0, len(names) + 1):
        out.extend(list(c) for c in itertools.combinations(names, n))
    return out


def groupings(shape, idkind, two_ids):
    """-> [(grouping kind, grouping spec)]"""
    others = [c[0] for c in other_ids(idkind, two_ids)]
    if idkind == "time":
        return [("group-all-time_agg", ("all", "A"))]
    if shape == "packed":
        out = [("group-by", ("by", ["C_id"] + s)) for s in subsets(others)]
        out += [("group-except", ("except", s)) for s in subsets(others, nonempty=True)]
        return out
    out = [("no-grouping", None), ("group-except", ("except", others))]
    if two_ids:
        out.append(("group-by", ("by", [others[0]])))
    return out


def statements(op, flavour, shape, idkind, two_ids):
    """-> [dims + stmt] for one operator on one operand flavour"""
    numeric = flavour == "duo" or flavour in NUMERIC
    havings = ["none", "count", "sum", "avg", "nullcond"] if flavour in NUMERIC else (["none"] if flavour == "duo" else ["none", "count"])
    out = []
    for gkind, gspec in groupings(shape, idkind, two_ids):
        for hname in havings:
            if hname != "none" and gspec is None:
                continue                                   # having needs a grouping clause (rejected otherwise: 1-2-13)
            for form in FORMS:
                if flavour == "duo":
                    if form == "dataset" and op == "count":
                        continue                           # dataset-level count of a two-measure operand: not crisp
                    if form == "aggr":
                        continue
                    if form == "aggr-two":
                        items = [("X_1", op, "Me_1"), ("X_2", PARTNER[op], "Me_2")]
                elif form == "aggr-two":
                    items = [("X_1", op, "Me_1"), ("X_2", (PARTNER if numeric else PARTNER_ANY)[op], "Me_1")]
                elif form == "aggr":
                    items = [("X_1", op, "Me_1")]
                stmt = {"form": "dataset" if form == "dataset" else "aggr", "grouping": gspec, "having": HAVINGS[hname]}
                if form == "dataset":
                    stmt["op"] = op
                else:
                    stmt["items"] = items
                out.append({"op": op, "gkind": gkind, "form": form, "having": hname, "flavour": flavour, "stmt": stmt})
    return out


def space(tier):
    maxn, two = (3, False) if tier == "quick" else (5, True)
    items = []
    for flavour in NUMERIC + ("duo",) + OTHER_TYPES:
        ops = R.OPS if (flavour == "duo" or flavour in NUMERIC) else ANY_TYPE_OPS
        for idkind in ("plain", "time"):
            for shape in ("packed", "unpacked"):
                if flavour in OTHER_TYPES or flavour == "duo":
                    # few statements per operator: all operators of the flavour in one run
                    items.append({"kind": "multisets", "flavour": flavour, "idkind": idkind, "shape": shape, "ops": list(ops), "maxn": maxn, "two": two})
                else:
                    for op in ops:
                        items.append({"kind": "multisets", "flavour": flavour, "idkind": idkind, "shape": shape, "ops": [op], "maxn": maxn, "two": two})
    items.append({"kind": "having-shapes", "maxn": 2, "two": False})
    if tier == "thorough":
        for op in R.OPS:
            items.append({"kind": "structural", "op": op})
    return items


# ---------------------------------------------------------------------------------------------------------
# execution
# ---------------------------------------------------------------------------------------------------------

def error_kind(out):
    return "raw-error:%s" % out[2] if out[1] == "raw" else "vtl-error:%s" % (out[3] or out[2])


def run_batch(batch, datasets, rec):
    """batch: [(target, statement text, operand name)] -> {target: rows | ('fatal', kind, class, text)};
    a failing script is bisected until the failing statements are isolated"""
    used = set(b[2] for b in batch)
    out = refbase.run("\n".join("%s <- %s;" % (t, text) for t, text, _ in batch), [d for d in datasets if d.name in used])
    rec.count("engine_runs")
    if out[0] == "ok":
        res = {}
        for t, _, _ in batch:
            d = out[1].get(t)
            res[t] = ("fatal", "raw-error:NoResult", "NoResult", "%s missing from the result" % t) if d is None else (harness.dataset_rows(d) or [])
        return res
    if len(batch) == 1:
        return {batch[0][0]: ("fatal", error_kind(out), out[2], "%s: %s" % (out[2], out[4][:240]))}
    rec.count("batches_bisected")
    mid = len(batch) // 2
    res = run_batch(batch[:mid], datasets, rec)
    res.update(run_batch(batch[mid:], datasets, rec))
    return res


def column_types(stmt, comps):
    types = {c[0]: c[1] for c in comps}
    out = {c[0]: c[1] for c in comps if c[2] == ID}
    if stmt["form"] == "dataset":
        for c in comps:
            if c[2] == ME and stmt["op"] in ("min", "max"):
                out[c[0]] = c[1]
    else:
        for t, op, comp in stmt["items"]:
            if op in ("min", "max") and comp in types:
                out[t] = types[comp]
    return out


def normalise(rows, ctypes):
    out = []
    for r in rows:
        r = dict(r)
        for c, t in ctypes.items():
            v = r.get(c)
            if v is None:
                continue
            if t == "Time_Period":
                r[c] = R.norm_period(v)
            elif t == "Date":
                r[c] = str(v)[:10]
        out.append(r)
    return out


def judge(stmt, comps, rows, got):
    """-> (expected evaluation, [(kind, key, detail)]) with the accepted readings removed"""
    exp = R.evaluate(stmt, comps, rows)
    ctypes = column_types(stmt, comps)
    got = normalise(got, ctypes)
    exp_rows = normalise(exp["rows"], ctypes)
    diffs = []
    for kind, key, detail in refbase.compare(got, exp_rows, exp["ids"], exp["cols"]):
        if kind == "wrong-value" and detail[0] in exp["count_cols"] and detail[2] == 0 and harness.canon_value(detail[1]) is None:
            continue                                       # count of a group without a non-null value: 0 or null
        diffs.append((kind, key, detail))
    if not rows and not exp["ids"] and not got:
        diffs = []                                         # empty operand, no grouping identifiers: one null datapoint or none
    return exp, diffs


def failing_column_op(stmt, col):
    if stmt["form"] == "dataset":
        return stmt["op"]
    for t, op, _ in stmt["items"]:
        if t == col:
            return op
    return stmt["items"][0][1]


def source_values(stmt, col, group_rows, measures):
    if stmt["form"] == "dataset":
        comp = col if col in measures else (measures[0] if measures else None)
    else:
        comp = dict((t, c) for t, _, c in stmt["items"]).get(col) or (measures[0] if measures else None)
    return [r.get(comp) for r in group_rows] if comp else [None] * len(group_rows)


def source_type(stmt, col, comps):
    types = {c[0]: c[1] for c in comps}
    measures = [c[0] for c in comps if c[2] == ME]
    if stmt["form"] == "dataset":
        return types.get(col if col in measures else (measures[0] if measures else None), "none")
    return types.get(dict((t, c) for t, _, c in stmt["items"]).get(col) or (measures[0] if measures else None), "none")


def findings_of(u, comps, rows, exp, diffs):
    """-> {dims tuple: (rank, text, group key)}; dims = (construct, gkind, form, having, measure type, class, kind)"""
    stmt = u["stmt"]
    measures = [c[0] for c in comps if c[2] == ME]
    out = {}
    for kind, key, detail in diffs:
        grows = exp["groups"].get(tuple(key))
        if grows is None:
            # the engine's key does not name a group of the operand (after normalisation)
            cls, col = "no-such-group", None
        else:
            col = detail[0] if kind == "wrong-value" else exp["cols"][0]
            cls = group_class(source_values(stmt, col, grows, measures))
        if kind in ("missing-datapoint", "extra-datapoint") and u["having"] != "none":
            construct = "having-" + u["having"]
            mtype = source_type(stmt, None, comps) if stmt["form"] == "dataset" else [c[1] for c in comps if c[0] == "Me_1"][0]
        else:
            construct = failing_column_op(stmt, col) if col else u["op"]
            mtype = source_type(stmt, col, comps)
        dims = (construct, u["gkind"], u["form"], u["having"], mtype, cls, kind)
        if kind == "wrong-value":
            text = "at %s: %s = %r, expected %r" % (dict(zip(exp["ids"], key)), detail[0], detail[1], detail[2])
        else:
            text = "%s %s %r" % (kind, dict(zip(exp["ids"], key)), detail)
        rank = (len(grows) if grows is not None else 99, repr(key))
        if dims not in out or rank < out[dims][0]:
            out[dims] = (rank, text, tuple(key))
    return out


def jsonable(stmt):
    return stmt


def deep_tuple(x):
    if isinstance(x, (list, tuple)):
        return tuple(deep_tuple(y) for y in x)
    if isinstance(x, dict):
        return {k: deep_tuple(v) for k, v in x.items()}
    return x


def still_fails(stmt, comps, rows):
    """the single statement alone (also the body of Check.replay) -> True if the engine fails or differs"""
    out = refbase.run("DS_r <- %s;" % R.render(stmt), [DS("DS_1", comps, rows)])
    if out[0] != "ok" or out[1].get("DS_r") is None:
        return True
    return bool(judge(stmt, comps, rows, harness.dataset_rows(out[1]["DS_r"]) or [])[1])


def compact(comps, rows):
    names = [c[0] for c in comps]
    return "%r %r" % (["%s:%s" % (c[0], c[1]) for c in comps], [tuple(r.get(n) for n in names) for r in rows])


def record_violation(rec, dims, u, comps, rows, text, minimise_to=None):
    stmt = u["stmt"]
    data = rows
    if minimise_to is not None:
        alone = [r for r in rows if r.get("C_id") == minimise_to]
        rec.count("engine_runs")
        if alone and still_fails(stmt, comps, alone):
            data = alone
    what = "DS_r <- %s; on DS_1 %s -> %s" % (R.render(stmt), compact(comps, data) if len(data) <= 12 else "(%d datapoints)" % len(data), text)
    rec.violation("C03:" + ":".join(str(d) for d in dims), what,
                  {"stmt": stmt, "comps": [list(c) for c in comps], "rows": data, "dims": list(dims)})


def shuffled(rows, seed):
    rows = list(rows)
    if seed:
        random.Random(seed).shuffle(rows)
    return rows


def work(item, rec):
    harness.boot()
    if item["kind"] == "multisets":
        work_multisets(item, rec)
    elif item["kind"] == "having-shapes":
        work_having_shapes(item, rec)
    else:
        work_structural(item, rec)


def work_multisets(item, rec):
    flavour, idkind, shape, two, seed = item["flavour"], item["idkind"], item["shape"], item["two"], item["seed"]
    contents = multisets(item["maxn"])
    ids = other_ids(idkind, two)
    if shape == "packed":
        comps = [("C_id", "Integer", ID)] + ids + measure_comps(flavour)
        rows = []
        for i, c in enumerate(contents):
            if c:
                rows += slice_rows(i, contents, idkind, two, flavour, cid=i)
        operands = {"DS_1": (comps, rows, None)}
    else:
        comps = ids + measure_comps(flavour)
        operands = {"U_%d" % i: (comps, slice_rows(i, contents, idkind, two, flavour), i) for i in range(len(contents))}
    datasets = [DS(n, c, shuffled(r, seed)) for n, (c, r, _) in operands.items()]
    units, batch = [], []
    pilot = None
    if shape == "unpacked":
        # a statement that raises does so on every operand of the same structure: every distinct statement runs first on
        # one pilot operand (the multiset {null}); the ones that raise there are recorded once and not repeated on the others
        pilot = "U_1"
        ustmts = [u for op in item["ops"] for u in statements(op, flavour, shape, idkind, two)]
        pres = run_batch([("P_%d" % i, R.render(u["stmt"], pilot), pilot) for i, u in enumerate(ustmts)], datasets, rec)
        plan = []
        for i, u in enumerate(ustmts):
            if isinstance(pres["P_%d" % i], tuple):
                plan.append((u, [pilot], pres["P_%d" % i]))
                rec.count("statements_raising_on_the_pilot_operand_not_repeated_on_the_others")
            else:
                plan.append((u, list(operands), None))
    else:
        plan = [(u, list(operands), None) for op in item["ops"] for u in statements(op, flavour, shape, idkind, two)]
    results = {}
    for u, names, fatal in plan:
        for name in names:
            t = "R_%d" % len(units)
            units.append((t, u, name))
            if fatal is not None:
                results[t] = fatal
            else:
                batch.append((t, R.render(u["stmt"], name), name))
    per_run = 240 if shape == "unpacked" else 60
    for chunk in harness.chunks(batch, per_run):
        results.update(run_batch(chunk, datasets, rec))
    fatal_without_having = set((u["op"], u["gkind"], u["form"], results[t][1]) for t, u, _ in units if isinstance(results[t], tuple) and u["having"] == "none")
    found = {}
    for t, u, name in units:
        ocomps, orows, index = operands[name]
        got = results[t]
        base = (u["op"], u["gkind"], u["form"], u["having"], flavour)
        if isinstance(got, tuple):
            rejected = got[2] == "SemanticError" and flavour in OTHER_TYPES
            n = len(contents) - 1 if shape == "packed" else 1
            if rejected:
                rec.case(base + ("any-content",), "rejected-by-semantic-analysis", nontrivial=False, n=n)
                rec.add("rejected", ["%s over %s: %s" % (u["op"], flavour, got[1])])
                continue
            rec.case(base + ("any-content",), got[1], n=n)
            # a statement that raises only with its having clause is a matter of the having condition, not of the operator
            construct = u["op"] if (u["having"] == "none" or (u["op"], u["gkind"], u["form"], got[1]) in fatal_without_having) else "having-" + u["having"]
            cls = "any-input" + ("/grouping-leaves-no-identifier" if u["stmt"]["grouping"] is not None and not R.grouping_ids(u["stmt"], ocomps)[0] else "")
            dims = (construct, u["gkind"], u["form"], u["having"], "Integer+Number" if flavour == "duo" else flavour, cls, got[1])
            if dims not in found:
                found[dims] = ((0, ""), got[3], u, ocomps, orows, None)
            continue
        try:
            exp, diffs = judge(u["stmt"], ocomps, orows, got)
        except R.Unclear as e:
            rec.case(base + ("unclear",), "unclear", nontrivial=False)
            rec.add("unclear", [str(e)])
            continue
        if u["having"] != "none":
            for verdict in exp["kept"].values():
                rec.count("having_groups_kept" if verdict is True else ("having_groups_dropped_condition_false" if verdict is False else "having_groups_dropped_condition_null"))
        # cases: one per multiset
        bad = {}
        for kind, key, _ in diffs:
            sid = key[0] if shape == "packed" and exp["ids"] and exp["ids"][0] == "C_id" else index
            bad.setdefault(sid, kind)
        measures = [c[0] for c in ocomps if c[2] == ME]
        if shape == "packed":
            agg = {}
            for i, c in enumerate(contents):
                if not c:
                    continue
                ck = (base + (content_class(c),), bad.get(i, "ok"), any(x != "N" for x in c))
                agg[ck] = agg.get(ck, 0) + 1
            for sid in bad:
                if not (isinstance(sid, int) and 0 < sid < len(contents)):
                    rec.case(base + ("datapoint-outside-every-slice",), bad[sid])
            for (ck, outcome, nt), n in agg.items():
                rec.case(ck, outcome, nontrivial=nt, n=n, sample={"script": "DS_r <- %s;" % R.render(u["stmt"]), "content": ck[-1], "outcome": outcome} if nt and outcome == "ok" else None)
        else:
            c = contents[index]
            rec.case(base + (content_class(c),), bad.get(index, "ok"), nontrivial=any(x != "N" for x in c))
        for dims, (rank, text, key) in findings_of(u, ocomps, orows, exp, diffs).items():
            sid = key[0] if shape == "packed" and exp["ids"] and exp["ids"][0] == "C_id" and key else None
            if dims not in found or rank < found[dims][0]:
                found[dims] = (rank, text, u, ocomps, orows, sid)
    for dims in sorted(found, key=repr):
        rank, text, u, ocomps, orows, sid = found[dims]
        record_violation(rec, dims, u, ocomps, orows, text, minimise_to=sid)


HAVING_SHAPES = [
    # (class of the statement, form, flavour, having name, statement): having clauses the multiset space does not contain
    ("operand-with-two-measures", "dataset", "duo", "sum",
     {"form": "dataset", "op": "sum", "grouping": ("by", ["C_id"]), "having": HAVINGS["sum"]}),
    ("operand-with-two-measures", "dataset", "duo", "avg",
     {"form": "dataset", "op": "min", "grouping": ("by", ["C_id"]), "having": HAVINGS["avg"]}),
    ("condition-over-a-measure-other-than-the-aggregated-one", "aggr", "duo", "avg",
     {"form": "aggr", "items": [("X_1", "sum", "Me_1")], "grouping": ("by", ["C_id"]), "having": ("cmp", ">=", ("agg", "avg", "Me_2"), ("const", 0.5))}),
    ("condition-over-a-measure-other-than-the-aggregated-one", "aggr-two", "duo", "avg",
     {"form": "aggr", "items": [("X_1", "sum", "Me_1"), ("X_2", "avg", "Me_2")], "grouping": ("by", ["C_id"]),
      "having": ("cmp", ">=", ("agg", "avg", "Me_2"), ("const", 0.5))}),
    ("condition-with-top-level-not", "dataset", "Integer", "not",
     {"form": "dataset", "op": "sum", "grouping": ("by", ["C_id"]), "having": ("not", ("cmp", ">", ("agg", "max", "Me_1"), ("const", 0)))}),
    ("condition-with-top-level-not", "aggr", "Integer", "not",
     {"form": "aggr", "items": [("X_1", "sum", "Me_1")], "grouping": ("by", ["C_id"]), "having": ("not", ("cmp", ">", ("agg", "max", "Me_1"), ("const", 0)))}),
]


def work_having_shapes(item, rec):
    """structural cases: shapes of having clauses that are valid VTL but outside the multiset space (each one run)"""
    contents = multisets(item["maxn"])
    for cls, form, flavour, hname, stmt in HAVING_SHAPES:
        comps = [("C_id", "Integer", ID), ("Id_1", "Integer", ID)] + measure_comps(flavour)
        rows = []
        for i, c in enumerate(contents):
            if c:
                rows += slice_rows(i, contents, "plain", False, flavour, cid=i)
        op = stmt["op"] if stmt["form"] == "dataset" else stmt["items"][0][1]
        u = {"op": op, "gkind": "group-by", "form": form, "having": hname, "flavour": flavour, "stmt": stmt}
        res = run_batch([("DS_r", R.render(stmt), "DS_1")], [DS("DS_1", comps, rows)], rec)["DS_r"]
        key = (op, "group-by", form, hname, flavour, "having-shape/" + cls)
        types = "Integer+Number"                           # the shapes do not depend on the measure type
        if isinstance(res, tuple):
            rec.case(key, res[1])
            record_violation(rec, ("having", "group-by", form, hname, types, cls, res[1]), u, comps, rows[:3], res[3])
            continue
        exp, diffs = judge(stmt, comps, rows, res)
        rec.case(key, diffs[0][0] if diffs else "ok")
        for dims, (rank, text, k) in findings_of(u, comps, rows, exp, diffs).items():
            record_violation(rec, dims, u, comps, rows, text, minimise_to=k[0] if k else None)


def structural_rows():
    rows = []
    for i in range(200):
        null = i % 5 == 4
        rows.append({"Id_1": i % 4, "Id_2": i // 4, "Me_1": None if null else i % 7, "Me_2": None if null else (i % 7) * 0.5 - 1.0})
    return rows


def work_structural(item, rec):
    """200 datapoints (i mod 7, every 5th null; both measures null on the same datapoints so that count is crisp)"""
    op = item["op"]
    comps = [("Id_1", "Integer", ID), ("Id_2", "Integer", ID), ("Me_1", "Integer", ME), ("Me_2", "Number", ME)]
    mono = [("Id_1", "Integer", ID), ("Id_2", "Integer", ID), ("Me_1", "Integer", ME)]
    rows = shuffled(structural_rows(), item["seed"])
    mrows = [{k: v for k, v in r.items() if k != "Me_2"} for r in rows]
    units = []
    for gkind, g in (("no-grouping", None), ("group-by", ("by", ["Id_1"])), ("group-by", ("by", ["Id_2"])), ("group-except", ("except", ["Id_1"])),
                     ("group-except", ("except", ["Id_1", "Id_2"]))):
        units.append(({"op": op, "gkind": gkind, "form": "dataset", "having": "none", "stmt": {"form": "dataset", "op": op, "grouping": g, "having": None}}, "DS_1"))
        units.append(({"op": op, "gkind": gkind, "form": "aggr-two", "having": "none",
                       "stmt": {"form": "aggr", "items": [("X_1", op, "Me_1"), ("X_2", PARTNER[op], "Me_2")], "grouping": g, "having": None}}, "DS_1"))
        if g is not None:
            for hname in ("count", "avg"):
                units.append(({"op": op, "gkind": gkind, "form": "dataset", "having": hname,
                               "stmt": {"form": "dataset", "op": op, "grouping": g, "having": HAVINGS[hname] if hname == "count" else ("cmp", ">=", ("agg", "avg", "Me_1"), ("const", 3))}}, "DS_2"))
    batch = [("R_%d" % i, R.render(u["stmt"], name), name) for i, (u, name) in enumerate(units)]
    results = run_batch(batch, [DS("DS_1", comps, rows), DS("DS_2", mono, mrows)], rec)
    for i, (u, name) in enumerate(units):
        c, r = (comps, rows) if name == "DS_1" else (mono, mrows)
        got = results["R_%d" % i]
        key = (op, u["gkind"], u["form"], u["having"], "structural-200-datapoints")
        if isinstance(got, tuple):
            rec.case(key, got[1])
            record_violation(rec, (op, u["gkind"], u["form"], u["having"], "Integer", "structural-200-datapoints", got[1]), u, c, r, got[3])
            continue
        exp, diffs = judge(u["stmt"], c, r, got)
        rec.case(key, diffs[0][0] if diffs else "ok")
        for dims, (rank, text, k) in findings_of(u, c, r, exp, diffs).items():
            dims = dims[:5] + ("structural-200-datapoints/" + dims[5],) + dims[6:]
            record_violation(rec, dims, u, c, r, text)


# ---------------------------------------------------------------------------------------------------------
# finding keys: one key per root cause — the region of the space over which (construct, class, kind) fails
# ---------------------------------------------------------------------------------------------------------

def final_keys(violations):
    """rewrite the provisional keys (full dims) to region keys and keep the smallest example per key"""
    groups = {}
    for v in violations:
        d = v["replay"]["dims"]
        groups.setdefault((d[0], d[5], d[6]), []).append(v)
    multiset_classes = set(k[1] for k in groups if not k[1].startswith("structural-200-datapoints"))
    out = []
    for (construct, cls, kind), vs in sorted(groups.items()):
        if cls.startswith("structural-200-datapoints/") and any(k[0] == construct and k[2] == kind and not k[1].startswith("structural") for k in groups):
            continue                                       # the same construct already fails the same way on a small group
        gs = sorted(set(v["replay"]["dims"][1] for v in vs))
        fs = sorted(set(v["replay"]["dims"][2] for v in vs))
        hs = sorted(set(v["replay"]["dims"][3] for v in vs))
        ts = sorted(set(t for v in vs for t in v["replay"]["dims"][4].split("+")))
        g_all = [g for g in G_ALL if not (construct.startswith("having") and g == "no-grouping")]
        gpart = "any-grouping" if all(g in gs for g in g_all) else "+".join(gs)
        fpart = "any-form" if all(f in fs for f in FORMS) else "+".join(fs) + "-form"
        hpart = "" if (construct.startswith("having") or "none" in hs) else "/having-" + "+".join(hs)
        op = construct if not construct.startswith("having") else None
        t_all = NUMERIC + (OTHER_TYPES if op in ANY_TYPE_OPS else ())
        tpart = "" if (all(t in ts for t in t_all) or all(t in ts for t in NUMERIC) and op not in ANY_TYPE_OPS) else "/" + "+".join(ts)
        key = "C03:%s:%s/%s%s:%s%s:%s" % (construct, gpart, fpart, hpart, cls, tpart, kind)
        best = sorted(vs, key=lambda v: (len(v["replay"]["rows"]), FORMS.index(v["replay"]["dims"][2]) if v["replay"]["dims"][2] in FORMS else 9,
                                          v["replay"]["dims"][3] != "none", v["what"]))[0]
        out.append({"key": key, "what": best["what"] + "   [fails over: groupings %s; forms %s; having %s; measure types %s]" % (gs, fs, hs, ts), "replay": best["replay"]})
    return out


# ---------------------------------------------------------------------------------------------------------
# calibration gate
# ---------------------------------------------------------------------------------------------------------

RM_NUMBERS = {135, 136, 137, 138, 140, 141, 142, 143, 144, 145, 146, 147, 148, 149, 150}


def stored_cases():
    for n, script, ins, outs in refbase.reference_manual_cases(RM_NUMBERS):
        yield "RM%d" % n, script, ins, outs
    base = os.path.join(harness.REPO, "tests", "Aggregate", "data")
    for vtl in sorted(glob.glob(os.path.join(base, "vtl", "*.vtl"))):
        code = os.path.basename(vtl)[:-4]
        with open(vtl, encoding="utf-8") as f:
            script = f.read()
        ins, outs = [], {}
        for sp in sorted(glob.glob(os.path.join(base, "DataStructure", "input", code + "-*.json"))):
            tag = os.path.basename(sp)[:-5]
            for d in refbase._load_ds(sp, os.path.join(base, "DataSet", "input", tag + ".csv")):
                ins.append(refbase.typed(d))
        for sp in sorted(glob.glob(os.path.join(base, "DataStructure", "output", code + "-*.json"))):
            tag = os.path.basename(sp)[:-5]
            if not os.path.exists(os.path.join(base, "DataSet", "output", tag + ".csv")):
                continue
            for d in refbase._load_ds(sp, os.path.join(base, "DataSet", "output", tag + ".csv")):
                outs[d.name] = refbase.typed(d)
        yield "tests/Aggregate/" + code, script, ins, outs


def calibrate_case(script, ins, outs):
    """-> ('ok', statements) | ('outside' | 'unclear', why) | ('wrong', diffs)"""
    if not ins or not outs:
        return "outside", "no stored input / expected output"
    try:
        stmts = R.parse_script(script)
    except R.Outside as e:
        return "outside", str(e)
    env = {d.name: ([tuple(c) for c in d.comps], [{c[0]: r.get(c[0]) for c in d.comps} for r in d.rows]) for d in ins}
    for st in stmts:
        if st["operand"]["name"] not in env or st["target"] not in outs:
            return "outside", "operand or expected result not stored"
        comps, rows = env[st["operand"]["name"]]
        if any(c[1] not in VAL for c in comps if c[2] in (ID, ME)):
            return "outside", "component type outside the subset"
        try:
            comps, rows = R.apply_clauses(comps, rows, st["operand"]["clauses"])
            ev = R.evaluate(st, comps, rows)
        except R.Outside as e:
            return "outside", str(e)
        except R.Unclear as e:
            return "unclear", str(e)
        res_rows, ids, cols = ev["rows"], list(ev["ids"]), list(ev["cols"])
        for pairs in st["post_rename"]:
            m = dict(pairs)
            res_rows = [{m.get(k, k): v for k, v in r.items()} for r in res_rows]
            ids, cols = [m.get(i, i) for i in ids], [m.get(c, c) for c in cols]
        stored = outs[st["target"]]
        if sorted(stored.ids()) != sorted(ids):
            return "wrong", [("identifiers", ids, stored.ids())]
        stypes = {c[0]: c[1] for c in stored.comps}
        mine = normalise(res_rows, stypes)
        theirs = normalise([{c[0]: r.get(c[0]) for c in stored.comps} for r in stored.rows], stypes)
        diffs = []
        for kind, key, detail in refbase.compare(mine, theirs, ids, [c for c in stored.measures()], rel=1e-5):
            if kind == "wrong-value" and detail[0] in ev["count_cols"] and detail[1] == 0 and detail[2] is None:
                continue
            diffs.append((kind, key, detail))
        if diffs:
            return "wrong", diffs[:3]
        result_comps = [c for c in comps if c[0] in ev["ids"]] + [(c[0], c[1], c[2]) for c in stored.comps if c[2] == ME]
        env[st["target"]] = (result_comps, res_rows)
    return "ok", len(stmts)


def calibrate():
    ok, wrong, skipped = [], [], []
    for label, script, ins, outs in stored_cases():
        verdict, info = calibrate_case(script, ins, outs)
        if verdict == "ok":
            ok.append(label)
        elif verdict == "wrong":
            wrong.append((label, info))
        else:
            skipped.append((label, verdict, info))
    return ok, wrong, skipped


# ---------------------------------------------------------------------------------------------------------

class Check:
    ID = "C03"
    LEVEL = "exploration"
    RULE = ("case = one aggregate statement (operator x grouping x having x form x measure type) x one group content (a multiset "
            "over {null, a, b}: a C_id slice of the packed input, or one unpacked dataset), compared with the reference evaluator; "
            "distinct = (operator, grouping kind, form, having, measure type / flavour, number of datapoints and of nulls of the "
            "multiset); non-trivial = the multiset holds a non-null value")
    ASSUMPTIONS = [
        "null measure values are ignored; a group without a non-null value gives null; count of such a group may be 0 or null",
        "stddev_samp / var_samp of a single value -> null; stddev_pop / var_pop of a single value -> 0",
        "median of an even number of values = mean of the two middle values (RM144)",
        "count() (no operand) = number of datapoints of the group with a non-null measure; it is only exercised where every "
        "reading agrees on which datapoints count (single-measure operands, or equal null patterns): count() over a two-measure "
        "operand with different null patterns, and dataset-level count of such an operand, are not crisp and not in the alphabet",
        "a having clause needs a grouping clause (the engine rejects it otherwise with 1-2-13); having inside an aggr clause "
        "refers to Me_1 only",
        "an empty operand aggregated without grouping identifiers may give one datapoint of nulls or no datapoint",
        "String values are ordered by code point and the domain holds lower-case ASCII only; Time_Period values of one group "
        "have one frequency; Duration is ordered D < W < M < Q < S < A; Boolean false < true",
        "group all time_agg(\"A\") on a monthly Time_Period identifier: every identifier is kept, the period becomes the year "
        "(spellings 2020 and 2020A are the same period)",
        "numbers compared at relative 1e-9; result types / roles / component order are C10's business",
        "a finding key names the region of the space over which (operator or having condition, class of the group, kind of "
        "deviation) fails; the example kept is the smallest one",
    ]

    def run(self, tier, seed, rec):
        harness.boot()
        ok, wrong, skipped = calibrate()
        for _, verdict, _ in skipped:
            rec.count("calibration_" + verdict)
        rec.note("calibration: reproduced " + ", ".join(x.split("/")[-1] for x in ok))
        rec.note("calibration: not modelled / unclear: " + ", ".join("%s (%s)" % (a.split("/")[-1], c) for a, _, c in skipped))
        if wrong:
            for label, info in wrong:
                rec.tool_error("oracle not calibrated: reference evaluator disagrees with the stored expectation of %s: %s" % (label, info))
            return {"exhaustive": False, "traces_validated_against_impl": len(ok)}
        if not all(("RM%d" % n) in ok for n in RM_NUMBERS) or len(ok) < 30:
            rec.tool_error("calibration corpus too small: %d cases reproduced (%s)" % (len(ok), ok))
            return {"exhaustive": False, "traces_validated_against_impl": len(ok)}
        items = space(tier)
        for it in items:
            it["seed"] = seed
        items = harness.seeded_order(items, seed)
        items.sort(key=lambda it: 0 if it.get("shape") == "unpacked" else 1)        # the long items first
        harness.pmap(work, items, rec)
        rec.violations[:] = final_keys(rec.violations)
        ops = set(k[0] for k in rec.keys)
        missing = [o for o in R.OPS if o not in ops]
        if missing:
            rec.tool_error("operators never exercised non-trivially: %s" % missing)
        for g in G_ALL:
            if not any(k[1] == g for k in rec.keys):
                rec.tool_error("grouping kind never exercised: %s" % g)
        for c in ("having_groups_kept", "having_groups_dropped_condition_false", "having_groups_dropped_condition_null"):
            if not rec.counters.get(c):
                rec.tool_error("having never exercised: %s = 0" % c)
        for name, vals in sorted(rec.sets.items()):
            rec.note("%s: %s" % (name, "; ".join(sorted(vals))[:600]))
        return {"exhaustive": True, "traces_validated_against_impl": len(ok), "work_items": len(items),
                "multisets": len(multisets(3 if tier == "quick" else 5)), "calibration_cases_outside_subset": len(skipped)}

    def replay(self, data):
        harness.boot()
        stmt = deep_tuple(data["stmt"])
        stmt = dict(stmt)
        if stmt.get("items") is not None:
            stmt["items"] = [tuple(i) for i in stmt["items"]]
        return still_fails(stmt, [tuple(c) for c in data["comps"]], data["rows"])

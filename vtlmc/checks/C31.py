"""C31 — the prediction mode of the shipped parser (SLL) accepts exactly the language of the grammar (LL).

Model checking on the repository's own ATN (read from Vtl.cpp at check time) with ANTLR's prediction code in
mode SLL (what bindings.cpp sets) and in mode LL: identical accept/reject verdict, first error and parse tree on
(a) every corpus script, (b) one shortest sentence through *every transition* of the parser ATN (set members
expanded), (c) every single-token deletion / duplication / adjacent swap of (b) (and of corpus scripts,
thorough), (d) every token sequence of length <= k over a representative token alphabet.
"""
import glob
import os

from vtlmc import harness

TOKENS = ["DS_1", "Me_1", ":=", "<-", ";", "(", ")", "[", "]", "{", "}", ",", "+", "-", "*", "/", "=", "<>", "<", "#", "||",
          "1", "1.5", '"a"', "true", "null", "and", "not", "in", "if", "then", "else", "calc", "filter", "keep", "rename", "to",
          "aggr", "group", "by", "sum", "inner_join", "as", "using", "union", "define", "operator", "end", "cast", "integer",
          "check", "over", "partition", "order", "between", "case", "when"]


def corpus_texts():
    seen, out = set(), []
    for f in sorted(glob.glob(os.path.join(harness.REPO, "tests", "**", "*.vtl"), recursive=True)):
        try:
            t = open(f, encoding="utf-8").read()
        except Exception:
            continue
        if t not in seen:
            seen.add(t)
            out.append(t)
    return out


def _merge(rec, r, label):
    rec.count("texts", r["total"])
    rec.count("accepted", r["accepted"])
    rec.count("sll_conflicts_resolved_by_ll(full_ctx)", r.get("full_ctx", 0))
    rec.count("nodes_compared", r.get("nodes", 0))
    for p in r["problems"]:
        kind, _, text = p.partition(":")
        if kind == "diff":
            rec.violation("C31:%s:sll-ll-differ" % label, "SLL and LL disagree on %r" % text[:300], {"text": text})
        elif kind == "crash":
            rec.tool_error("parser host crashed: %s" % text[:300])


def batch(item, rec):
    label, texts = item
    from frontend import fe
    r = fe.batch_compare(texts)
    _merge(rec, r, label)
    for d, n in r.get("by_decision", {}).items():
        rec.count("conflict_decision_%s" % d, n)
    rec.add("decision_alts", r.get("seen", []))
    rec.case((label, "batch", r["accepted"] > 0, r["diffs"] > 0), "agree" if r["diffs"] == 0 else "differ", n=r["total"],
             sample={"space": label, "text": texts[0][:200]})


def mutate(item, rec):
    label, texts = item
    from frontend import fe
    for t in texts:
        r = fe.mutations(t, cmp=True)
        _merge(rec, r, label)
        rec.case((label, min(r["tokens"], 40), r["accepted"] > 0), "agree" if r["diffs"] == 0 else "differ", n=max(1, r["total"]))


def enum(item, rec):
    k, first = item
    from frontend import fe
    r = fe.enumerate_tokens(k, TOKENS, cmp=True, first=first)
    _merge(rec, r, "token-sequences")
    rec.case(("tokens", k, TOKENS[first] if first >= 0 else "", r["accepted"] > 0), "agree" if r["diffs"] == 0 else "differ", n=r["total"],
             sample={"space": "all token sequences <= %d starting with %r" % (k, TOKENS[first]), "accepted": r["accepted_texts"][:3]})


class Check:
    ID = "C31"
    LEVEL = "model_checking"
    RULE = ("the model is the parser ATN of Vtl.cpp interpreted in SLL and LL; explored inputs: every distinct .vtl file under "
            "tests/, one shortest sentence through every ATN transition, all single-token deletions/duplications/swaps of "
            "those, all token sequences of length <= k over a 57-token alphabet; a case = one text parsed in both modes; "
            "distinct key = (space, shape, accepted?); states/transitions = ATN states / transitions, (decision, alternative) "
            "pairs actually taken are measured")
    ASSUMPTIONS = ["ANTLR Java runtime 4.11.1 implements the same ALL(*) SLL/LL prediction as the C++ runtime 4.13.2 the extension links",
                   "prediction mode is read from bindings.cpp (setPredictionMode); if it is not SLL the comparison is still SLL vs LL"]

    def run(self, tier, seed, rec):
        from frontend import fe
        from vtlmc import check as _c  # noqa: F401
        facts = fe.atn_facts()
        mode = fe.tables().mode
        rec.note("prediction mode set by bindings.cpp: %s" % mode)
        gen = fe.generate_sentences()
        sentences = [s + "\n" for s in gen["sentences"]]
        corpus = corpus_texts()
        items = [("atn-sentences", ch) for ch in harness.chunks(sentences, 40)]
        items += [("corpus", ch) for ch in harness.chunks(harness.seeded_order(corpus, seed), 60)]
        harness.pmap(batch, items, rec)
        mitems = [("atn-sentence-mutations", ch) for ch in harness.chunks(sentences, 12)]
        if tier == "thorough":
            mitems += [("corpus-mutations", ch) for ch in harness.chunks([c for c in corpus if len(c) < 3000], 20)]
        else:
            small = sorted(corpus, key=len)[:150]
            mitems += [("corpus-mutations", ch) for ch in harness.chunks(small, 10)]
        harness.pmap(mutate, mitems, rec)
        k = 3 if tier == "quick" else 4
        harness.pmap(enum, [(k, i) for i in range(len(TOKENS))], rec)
        seen = rec.sets.get("decision_alts", set())
        total_alts = sum(a for _, a in facts["decision_alts"])
        conflicts = rec.counters.get("sll_conflicts_resolved_by_ll(full_ctx)", 0)
        if conflicts == 0:
            rec.tool_error("vacuous: no explored input reached a decision where SLL conflicts and LL is consulted")
        if gen["transitions_with_sentence"] < 0.75 * gen["transitions"]:
            rec.tool_error("sentence generator covers only %d of %d transitions" % (gen["transitions_with_sentence"], gen["transitions"]))
        return {"states": facts["states"], "transitions": facts["transitions"], "traces_validated_against_impl": rec.counters.get("texts", 0),
                "decision_alternatives_taken": len(seen), "decision_alternatives_total": total_alts,
                "atn_transitions_with_sentence": gen["transitions_with_sentence"], "prediction_mode_in_bindings": mode,
                "exhaustive": True}

    def replay(self, data):
        from frontend import fe
        r = fe.compare_modes(data["text"])
        return not (r["same_tree"] and r["same_error"])

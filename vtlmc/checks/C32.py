"""C32 — execution failures surface as VTL errors, not raw engine errors.

MON-32 (no raw exception escapes run()) on: (i) a dedicated table of run-time failing values x shapes {scalar
expression, component in calc, dataset measure, inside aggregate / analytic / join body} x the four time-period
output formats where relevant; (ii) every program of the shared alphabet and a table of valid-but-awkward
statements; (iii) every corpus run() in both recorded outcomes.  Inputs are valid by construction: the script
passes semantic_analysis() and the data loads alone (``DS_r <- DS_1;`` succeeds), both verified per case.
"""
from vtlmc import corpus, harness, monitors, programs, refbase
from vtlmc.refbase import DS, ID, ME

FORMATS = ("vtl", "sdmx_gregorian", "sdmx_reporting", "natural")


def num_ds(vals, typ="Number"):
    return DS("DS_1", [("Id_1", "Integer", ID), ("Me_1", typ, ME)], [{"Id_1": i + 1, "Me_1": v} for i, v in enumerate(vals)])


def table():
    """(label, class of failing value, script template with {x} for the operand, operand type, failing value, companion ok value)"""
    T = []
    big = 9223372036854775807
    num = [
        ("div-zero", "1 / {x}", "Number", 0.0, 2.0), ("div-zero-int", "1 / {x}", "Integer", 0, 2),
        ("mod-zero", "mod(5, {x})", "Integer", 0, 2),
        ("ln-zero", "ln({x})", "Number", 0.0, 2.0), ("ln-negative", "ln({x})", "Number", -1.0, 2.0),
        ("log-base-zero", "log(8, {x})", "Number", 0.0, 2.0), ("log-base-negative", "log(8, {x})", "Number", -2.0, 2.0),
        ("log-of-negative", "log({x}, 2)", "Number", -1.0, 8.0),
        ("sqrt-negative", "sqrt({x})", "Number", -1.0, 4.0), ("power-fractional-of-negative", "power({x}, 0.5)", "Number", -8.0, 4.0),
        ("exp-overflow", "exp({x})", "Number", 1000.0, 1.0),
        ("bigint-add-overflow", "{x} + 1", "Integer", big, 1), ("bigint-mul-overflow", "{x} * 2", "Integer", big, 1),
        ("abs-min-int", "abs({x} - 1)", "Integer", -big, 1),
        ("decimal-overflow", "{x} * {x} * {x}", "Number", 1e17, 1.0),
        ("power-overflow", "power({x}, 400)", "Number", 1e10, 1.0),
    ]
    for lab, tmpl, typ, bad, ok in num:
        T.append((lab, tmpl, typ, bad, ok))
    strs = [
        ("cast-unparsable-integer", 'cast({x}, integer)', "String", "abc", "12"),
        ("cast-unparsable-number", 'cast({x}, number)', "String", "1.2.3", "1.5"),
        ("cast-unparsable-date", 'cast({x}, date)', "String", "2020-13-45", "2020-01-01"),
        ("cast-unparsable-period", 'cast({x}, time_period)', "String", "20Q9", "2020Q1"),
        ("cast-unparsable-boolean", 'cast({x}, boolean)', "String", "maybe", "true"),
        # malformed period / date / interval spellings of every kind the parsers distinguish (impossible calendar date,
        # non-numeric period number, non-numeric year, trailing garbage, empty string, blanks)
        ("cast-period-impossible-date", 'cast({x}, time_period)', "String", "2021-02-30", "2020Q1"),
        ("cast-period-nonnumeric-number", 'cast({x}, time_period)', "String", "2020-Qx", "2020Q1"),
        ("cast-period-trailing-garbage", 'cast({x}, time_period)', "String", "2020-M1x", "2020Q1"),
        ("cast-period-nonnumeric-year", 'cast({x}, time_period)', "String", "abcd", "2020Q1"),
        ("cast-period-empty", 'cast({x}, time_period)', "String", "", "2020Q1"),
        ("cast-period-blank", 'cast({x}, time_period)', "String", " ", "2020Q1"),
        ("cast-date-nonnumeric", 'cast({x}, date)', "String", "abcd-ef-gh", "2020-01-01"),
        ("cast-date-empty", 'cast({x}, date)', "String", "", "2020-01-01"),
        ("cast-date-trailing-garbage", 'cast({x}, date)', "String", "2020-01-01x", "2020-01-01"),
        ("cast-interval-impossible-date", 'cast({x}, time)', "String", "2020-01-01/2020-02-30", "2020-01-01/2020-12-31"),
        ("cast-interval-no-separator", 'cast({x}, time)', "String", "2020-01-01", "2020-01-01/2020-12-31"),
        ("cast-duration-unknown", 'cast({x}, duration)', "String", "Z", "A"),
        ("cast-integer-empty", 'cast({x}, integer)', "String", "", "12"),
        ("cast-number-blank", 'cast({x}, number)', "String", " ", "1.5"),
        ("substr-negative-start", 'substr({x}, -1, 2)', "String", "abc", "abc"),
        ("instr-zero-occurrence", 'instr({x}, "a", 1, 0)', "String", "abc", "abc"),
        ("match-invalid-regex", 'match_characters({x}, "[a-")', "String", "abc", "abc"),
        ("match-backreference-regex", 'match_characters({x}, "(a)\\\\1")', "String", "aa", "aa"),
        ("hamming-unequal-length", 'string_distance("hamming", {x}, "abcd")', "String", "ab", "abcd"),
    ]
    for lab, tmpl, typ, bad, ok in strs:
        T.append((lab, tmpl, typ, bad, ok))
    times = [
        ("timeshift-beyond-9999", "timeshift_placeholder", "Time_Period", "9999A", "2020A"),
        ("dateadd-beyond-9999", 'dateadd({x}, 1, "A")', "Date", "9999-12-31", "2020-01-01"),
        ("dateadd-below-range", 'dateadd({x}, -3000, "A")', "Date", "1800-01-01", "2020-01-01"),
        ("time-agg-finer", 'time_agg("M", _, {x})', "Time_Period", "2020A", "2020M01"),
        ("period-compare-mixed-indicators", '{x} < cast("2020Q1", time_period)', "Time_Period", "2020M01", "2020Q2"),
        ("getmonth-of-annual", 'getmonth({x})', "Time_Period", "2020A", "2020M03"),
        ("dayofyear-of-quarter", 'dayofyear({x})', "Time_Period", "2020Q1", "2020D045"),
        ("datediff-mixed", 'datediff({x}, cast("2020-01-01", date))', "Date", "9999-12-31", "2020-03-01"),
    ]
    for lab, tmpl, typ, bad, ok in times:
        T.append((lab, tmpl, typ, bad, ok))
    return T


def lit(typ, v):
    if v is None:
        return "null"
    if typ in ("Integer", "Number"):
        return repr(v)
    if typ == "String":
        return '"%s"' % v
    if typ == "Date":
        return 'cast("%s", date)' % v
    if typ == "Time_Period":
        return 'cast("%s", time_period)' % v
    return str(v)


def shapes(label, tmpl, typ, bad, ok):
    """-> list of (shape, script, datasets)"""
    out = []
    ds = num_ds([ok, bad, None], typ)
    if tmpl == "timeshift_placeholder":
        d = DS("DS_1", [("Id_1", "Time_Period", ID), ("Me_1", "Number", ME)], [{"Id_1": bad, "Me_1": 1.0}, {"Id_1": ok, "Me_1": 2.0}])
        return [("dataset", "DS_r <- timeshift(DS_1, 1);", [d]), ("dataset-far", "DS_r <- timeshift(DS_1, 60);", [d])]
    out.append(("scalar", "x <- %s;" % tmpl.format(x=lit(typ, bad)), []))
    out.append(("component", "DS_r <- DS_1[calc Me_2 := %s];" % tmpl.format(x="Me_1"), [ds]))
    out.append(("component-filter", "DS_r <- DS_1[filter isnull(%s)];" % tmpl.format(x="Me_1"), [ds]))
    out.append(("dataset", "DS_r <- %s;" % tmpl.format(x="DS_1"), [ds]))
    out.append(("aggregate-body", "DS_r <- DS_1[aggr Me_2 := count(%s) group by Id_1];" % tmpl.format(x="Me_1"), [ds]))
    out.append(("join-body", "DS_r <- inner_join(DS_1 as a, DS_1 as b calc Me_2 := %s keep Me_2);" % tmpl.format(x="a#Me_1"), [ds]))
    return out


EXTRA = [
    ("if-dataset-scalar-condition", "A := DS_1[keep Me_1]; DS_r <- if A > 2 then A else A * 10;"),
    ("if-clause-condition", "DS_r <- if DS_1[keep Me_1] > 2 then DS_1[keep Me_1] else DS_1[keep Me_1] * 10;"),
    ("case-dataset", "A := DS_1[keep Me_1]; DS_r <- case when A > 2 then A else A * 10;"),
    ("ratio-zero-partition", "DS_r <- DS_1[calc R := ratio_to_report(Me_2 over (partition by Id_1))];"),
    ("fill-single-point", "DS_r <- fill_time_series(DS_T[filter Id_1 = \"Z\"], all);"),
    ("nested-aggregates", "DS_r <- sum(max(DS_1 group by Id_1, Id_2) group by Id_1);"),
    ("between-ds", "DS_r <- between(DS_1[keep Me_1], 0, 20);"),
    ("in-set-ds", "DS_r <- DS_1[keep Me_1] in {10, 30};"),
    ("exists-in", "DS_r <- exists_in(DS_1, DS_2, all);"),
    ("string-ops-ds", "DS_r <- upper(DS_1[keep At_1]);"),
    ("round-null-digits", "DS_r <- DS_1[calc X := round(Me_1, Me_2)];"),
    ("trunc-negative-digits", "DS_r <- DS_1[calc X := trunc(Me_1, -1)];"),
    ("current-date", "DS_r <- DS_1[calc X := current_date()];"),
    ("random", "DS_r <- DS_1[calc X := random(Me_1, 3)];"),
    ("membership-attr", "DS_r <- DS_1#At_1;"),
    ("unpivot-mixed-types", "DS_r <- DS_1[unpivot Id_9, Me_9];"),
    ("pivot", "DS_r <- DS_1[keep Me_1][pivot Id_2, Me_1];"),
    ("left-join-calc-null", "DS_r <- left_join(DS_1 as a, DS_2 as b calc X := a#Me_1 / b#Me_2 keep X);"),
    ("aggr-string-min", "DS_r <- min(DS_1[keep At_1] group by Id_1);"),
    ("median-even", "DS_r <- median(DS_1 group by Id_2);"),
]


def table_item(item, rec):
    V = harness.boot()
    for label, tmpl, typ, bad, ok in item:
        found = {}
        for shape, script, dss in shapes(label, tmpl, typ, bad, ok):
            structs = {"datasets": [d.structure() for d in dss]}
            sem = harness.call(V.semantic_analysis, script, structs)
            if sem[0] != "ok":
                rec.case(("table", label, shape, "semantic-reject"), "semantic-reject:" + str(sem[2]), nontrivial=False)
                if sem[1] == "raw":   # outside the property's domain (script does not pass semantic analysis); counted only
                    rec.count("raw_errors_in_semantic_analysis")
                    rec.note("semantic_analysis(%r) raises raw %s" % (script, sem[2]))
                continue
            if dss:
                ld = refbase.run("DS_x <- DS_1;", dss)
                if ld[0] != "ok":
                    rec.case(("table", label, shape, "load-reject"), "load-reject", nontrivial=False)
                    continue
            fmts = FORMATS if typ in ("Time_Period", "Date") else ("vtl",)
            for f in fmts:
                out = refbase.run(script, dss, time_period_output_format=f)
                cls = "returns" if out[0] == "ok" else "%s:%s" % (out[1], out[2])
                rec.case(("table", label, shape, cls), cls, sample={"label": label, "shape": shape, "script": script, "outcome": cls} if out[0] != "ok" else None)
                if out[0] == "err":
                    bad_raw = monitors.mon32(out) or monitors.mon26(out)
                    if bad_raw:
                        found.setdefault((label, bad_raw), {}).setdefault(f, (script, shape, out))
        # one key per (label, kind of escape); the output format is part of the key only when the failure depends on it
        for (label, bad_raw), byf in found.items():
            fmts_all = FORMATS if typ in ("Time_Period", "Date") else ("vtl",)
            fkey = "any" if set(byf) == set(fmts_all) else "+".join(sorted(byf))
            f0 = sorted(byf)[0]
            script, shape, out = byf[f0]
            rec.violation("C32:%s:%s:%s" % (label, fkey, bad_raw),
                          "run(%r) [%s] raises %s %s: %s" % (script, f0, out[1], out[2], out[4][:200]),
                          {"kind": "table", "label": label, "shape": shape, "format": f0})


def extra_item(item, rec):
    V = harness.boot()
    dss = [programs.ds1(), programs.ds2(), programs.dst()]
    for label, script in item:
        structs = {"datasets": [d.structure() for d in dss]}
        sem = harness.call(V.semantic_analysis, script, structs)
        if sem[0] != "ok":
            rec.case(("extra", label, "semantic-reject"), "semantic-reject:" + str(sem[2]), nontrivial=False)
            if sem[1] == "raw":
                rec.count("raw_errors_in_semantic_analysis")
                rec.note("semantic_analysis(%r) raises raw %s" % (script, sem[2]))
            continue
        out = refbase.run(script, dss)
        cls = "returns" if out[0] == "ok" else "%s:%s" % (out[1], out[2])
        rec.case(("extra", label, cls), cls)
        if out[0] == "err" and (monitors.mon32(out) or monitors.mon26(out)):
            rec.violation("C32:%s:%s" % (label, monitors.mon32(out) or monitors.mon26(out)),
                          "run(%r) raises %s %s: %s" % (script, out[1], out[2], out[4][:200]), {"kind": "extra", "label": label})


def mapper_keywords():
    """string constants the engine's DuckDB-error mapper looks for in error messages (read from the working tree): failing
    user values / component names containing them must not derail the mapping"""
    import ast as pyast
    import os
    src = open(os.path.join(harness.REPO, "src/vtlengine/duckdb_transpiler/io/_execution.py"), encoding="utf-8").read()
    words = set()
    for node in pyast.walk(pyast.parse(src)):
        if isinstance(node, pyast.Compare) and any(isinstance(o, pyast.In) for o in node.ops):
            if isinstance(node.left, pyast.Constant) and isinstance(node.left.value, str) and 2 < len(node.left.value) < 40:
                words.add(node.left.value)
    return sorted(words)


def injection_item(item, rec):
    """failing casts whose VALUE or whose COMPONENT NAME contains a word the error mapper pattern-matches on"""
    words = item
    V = harness.boot()
    import re
    for w in words:
        ident = re.sub(r"[^A-Za-z0-9]+", "_", w).strip("_") or "x"
        for target in ("integer", "number", "date", "boolean"):
            for name, val in (("Me_1", "some %s here" % w), ("Me_%s" % ident, "n/a")):
                ds = DS("DS_1", [("Id_1", "Integer", ID), (name, "String", ME)], [{"Id_1": 1, name: "10"}, {"Id_1": 2, name: val}])
                script = "DS_r <- DS_1[calc Me_9 := cast(%s, %s)];" % (name, target)
                out = refbase.run(script, [ds])
                cls = "returns" if out[0] == "ok" else "%s:%s" % (out[1], out[2])
                rec.case(("inject", target, name == "Me_1", cls), cls, sample={"script": script, "value": val, "outcome": cls} if out[0] != "ok" else None)
                if out[0] == "err" and (monitors.mon32(out) or monitors.mon26(out)):
                    where = "value" if name == "Me_1" else "component-name"
                    rec.violation("C32:cast-unparsable-%s:%s-contains-error-mapper-keyword:%s" % (target, where, monitors.mon32(out) or monitors.mon26(out)),
                                  "run(%r) with %s=%r raises %s %s: %s" % (script, name, val, out[1], out[2], out[4][:200]),
                                  {"kind": "inject", "word": w})


def corpus_item(item, rec):
    V = harness.boot()
    for r in item:
        kw = corpus.run_kwargs(r)
        if kw.get("output_folder"):
            continue
        out = harness.call(V.run, **kw)
        area = r["test"].split("/")[1] if "/" in r["test"] else "?"
        cls = "returns" if out[0] == "ok" else "%s:%s" % (out[1], out[2])
        rec.case(("corpus", area, cls), cls, nontrivial=out[0] != "ok" or True)
        if out[0] == "err" and out[1] == "raw":
            # only inputs that pass semantic analysis and load validation are in the property's domain
            sem_kw = {k: kw[k] for k in ("script", "data_structures", "value_domains", "external_routines", "sdmx_mappings") if k in kw}
            sem = harness.call(V.semantic_analysis, **sem_kw)
            if sem[0] != "ok":
                rec.count("corpus_raw_but_semantic_reject")
                continue
            rec.violation("C32:corpus:%s:raw-error:%s" % (area, out[2]), "corpus call %s (%s) raises raw %s: %s" % (r["id"], r["test"], out[2], out[4][:200]),
                          {"kind": "corpus", "corpus_id": r["id"]})
        elif out[0] == "err" and monitors.mon26(out):
            rec.violation("C32:corpus:%s:%s" % (area, monitors.mon26(out)), "corpus call %s raises %s" % (r["id"], out[1:4]), {"kind": "corpus", "corpus_id": r["id"]})


class Check:
    ID = "C32"
    LEVEL = "exploration"
    RULE = ("a table of ~34 run-time failing values x 6 shapes (scalar, calc component, filter, dataset, aggregate body, join body) "
            "x output formats (time types), 20 awkward-but-valid statements, the program alphabet, and every corpus run() in both "
            "outcomes (quick: every failing corpus call + 400 successful; thorough: all); valid input by construction (semantic "
            "analysis passes, data loads alone); oracle: returns, or raises a VTLEngineException with catalogued code. distinct key "
            "= (source, label, shape, outcome class)")
    ASSUMPTIONS = ["scripts that do not pass semantic_analysis() are outside the property's domain; raw errors raised there are only counted"]

    def run(self, tier, seed, rec):
        harness.boot()
        T = table()
        harness.pmap(table_item, [[t] for t in harness.seeded_order(T, seed)], rec)
        harness.pmap(extra_item, list(harness.chunks(EXTRA, 4)), rec)
        kws = mapper_keywords()
        if not kws:
            rec.tool_error("no keyword extracted from the error mapper (moved?)")
        harness.pmap(injection_item, list(harness.chunks(kws, 3)), rec)
        ok = corpus.load(fn="run", outcome="ok")
        bad = corpus.load(fn="run", outcome="fail")
        rs = bad + (ok if tier == "thorough" else ok[::6])
        harness.pmap(corpus_item, list(harness.chunks(harness.seeded_order(rs, seed), 25)), rec)
        return {"exhaustive": tier == "thorough", "table_rows": len(T), "corpus_calls": len(rs)}

    def replay(self, data):
        rec = harness.Recorder()
        if data["kind"] == "table":
            table_item([t for t in table() if t[0] == data["label"]], rec)
        elif data["kind"] == "inject":
            injection_item([data["word"]], rec)
        elif data["kind"] == "extra":
            extra_item([e for e in EXTRA if e[0] == data["label"]], rec)
        else:
            corpus_item([r for r in corpus.load(fn="run") if r["id"] == data["corpus_id"]], rec)
        return bool(rec.violations)

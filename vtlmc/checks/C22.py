"""C22 — public API calls never modify the caller's arguments.

Bounded exhaustive exploration (E1) with a differential oracle (O1: arguments before vs after the call).

The space is the cartesian product, per public function, of the shapes its arguments can take and of the
outcome class the call is driven into (vtlmc/c22_space.py):

  run               script kind x data_structures kind x (datapoints kind x frame variant) x value_domains shape
                    x external_routines shape x scalar_values x outcome
  run_sdmx          script kind x mappings kind x frame variant (inside a PandasDataset with a pysdmx Schema)
                    x value_domains shape x external_routines shape x outcome
  semantic_analysis script kind x data_structures kind x value_domains shape x external_routines shape x outcome
  validate_dataset  data_structures kind x (datapoints kind x frame variant | no datapoints) x scalar_values x outcome
  prettify          script kind x script
  generate_sdmx     script kind x script

Every case builds *fresh* caller objects (and files below the scratch directory), takes a deep snapshot of the
observable content of each of them (vtlmc/c22_snap.py), performs the real call, snapshots again and diffs.
Any difference is a violation, whether the call returned or raised.
"""
import os
import shutil
import time

from vtlmc import c22_snap as S
from vtlmc import c22_space as SP
from vtlmc import harness

CHUNK = 60
DEFAULT_BUDGET_S = 1500

_ERR_CLASS = {"VTLSyntaxError": "syntax-error", "SemanticError": "semantic-error", "DataLoadError": "load-error",
              "RunTimeError": "runtime-error", "InputValidationException": "input-error"}

# which observed outcome class counts as "the script drove the call where it was meant to go"
_INTENDED = {"success": "ok", "success-output-folder": "ok", "syntax-error": "syntax-error",
             "semantic-error": "semantic-error", "load-error": "load-error", "runtime-error": "runtime-error"}

_ARGKIND = {"script": "script", "data_structures": "data-structures", "datapoints": "datapoints",
            "value_domains": "value-domains", "external_routines": "external-routines",
            "scalar_values": "scalar-values", "datasets": "pandas-datasets", "mappings": "mappings"}
_ARGCLASS_AXIS = {"script": "script_kind", "data_structures": "ds", "datapoints": "dp", "value_domains": "vd",
                  "external_routines": "er", "scalar_values": "sv", "datasets": "fv", "mappings": "mp"}


def observed_class(out):
    if out[0] == "ok":
        return "ok"
    _, kind, cls, code, _ = out
    if kind == "vtl":
        return _ERR_CLASS.get(cls, "vtl:" + cls)
    return "raw:" + cls


def execute(c, workdir):
    """build the caller's objects, snapshot, call, snapshot -> (built, outcome tuple, mutations)"""
    harness.boot()
    SP.install_stub()
    import vtlengine.API as A
    b = SP.build_corpus(c, workdir) if "corpus" in c else SP.build(c, workdir)
    keep = []
    b["description"] = describe_call(c, b)      # rendered before the call: afterwards the arguments may differ
    before = {k: S.snap(v, keep) for k, v in b["owned"].items()}
    saved = {k: os.environ.get(k) for k in b.get("env", {})}
    os.environ.update({k: str(v) for k, v in b.get("env", {}).items()})
    try:
        out = harness.call(getattr(A, c["fn"]), *b["args"], **b["kwargs"])
    finally:
        for k, v in saved.items():
            if v is None:
                os.environ.pop(k, None)
            else:
                os.environ[k] = v
    after = {k: S.snap(v) for k, v in b["owned"].items()}
    muts = []
    for k in before:
        for d in S.diff(before[k], after[k], k):
            d["arg"] = k
            muts.append(d)
    del keep
    return b, out, before, muts


def _entry_class(old):
    if old is None:
        return None
    if old["t"] == "atom" and old["v"].startswith("str:'http"):
        return "url-entry"
    if old["t"] == "df":
        return "dataframe-entry"
    if old["t"] == "path":
        return "path-entry"
    return None


def finding_key(c, d, registry):
    """C22:<function>:<argument kind>:<equivalence class of the mutated input>:<kind of mutation>"""
    node = d["node"]
    arg = d["arg"].split("/")[0]
    t = node["t"]
    base = _ARGKIND.get(arg, arg)
    if t in ("df", "ndarray") and node["id"] in registry:
        argkind, cls = registry[node["id"]]
    elif t == "df":
        argkind, cls = "dataframe", c.get("fv", "corpus-frame")
    elif t == "path":
        argkind, cls = base + "-file", c.get(_ARGCLASS_AXIS.get(arg, "dp"), "corpus-call")
    else:
        argkind = base + ("-" + node["pytype"].lower() if t in ("dict", "list", "struct") else "")
        cls = _entry_class(d.get("old")) or c.get(_ARGCLASS_AXIS.get(arg, "dp"), "corpus-call")
    return "C22:%s:%s:%s:%s" % (c["fn"], argkind, cls, d["kind"])


def describe_call(c, b):
    def br(v):
        import pandas as pd
        if isinstance(v, pd.DataFrame):
            return "DataFrame(columns=%r, index=%r, dtypes=%s)" % (list(v.columns), list(v.index), [str(x) for x in v.dtypes])
        if isinstance(v, dict) and "datasets" in v:
            return "{'datasets': [%s]%s}" % (
                ", ".join("%s(%s)" % (d.get("name"), ",".join(x["name"] for x in d.get("DataStructure", []))) for d in v["datasets"]),
                ", 'scalars': [%s]" % ",".join(x["name"] for x in v["scalars"]) if v.get("scalars") else "")
        if isinstance(v, dict):
            return "{" + ", ".join("%r: %s" % (k, br(x)) for k, x in v.items()) + "}"
        if isinstance(v, (list, tuple)):
            return "[" + ", ".join(br(x) for x in v) + "]"
        s = repr(v)
        return s if len(s) < 160 else s[:160] + "..."
    parts = [br(a) for a in b["args"]] + ["%s=%s" % (k, br(v)) for k, v in b["kwargs"].items() if v is not None]
    return "%s(%s)" % (c["fn"], ", ".join(parts))


_REPORTED = set()


def run_case(c, rec, workdir):
    stub0 = SP.STUB_CALLS["n"]
    b, out, before, muts = execute(c, workdir)
    oc = observed_class(out)
    nodes = {}
    for s in before.values():
        S.count_nodes(s, nodes)
    mutable = any(S.contains_mutable(s) for s in before.values())
    corpus = "corpus" in c
    if corpus:
        key = (c["fn"], "corpus", c["corpus"], oc)
    else:
        key = tuple(c[k] for k in ("fn", "script_kind", "outcome", "ds", "dp", "fv", "vd", "er", "sv", "mp")) + (oc,)
    sample = None
    if not corpus and (c["fv"] in ("bom-column", "readonly-numpy") or c["dp"] == "dict-frame+url"):
        sample = {"case": c, "observed": oc, "snapshot_nodes": nodes, "mutations": [m["kind"] for m in muts]}
    rec.case(key, oc, nontrivial=mutable, sample=sample)
    rec.count(("corpus_calls:" if corpus else "calls:") + c["fn"])
    if corpus:
        c = dict(c, outcome="-")
    rec.count("frames_snapshotted", nodes.get("df", 0))
    rec.count("files_snapshotted", nodes.get("path", 0))
    rec.count("containers_snapshotted", nodes.get("dict", 0) + nodes.get("list", 0) + nodes.get("struct", 0))
    rec.count("url_stub_calls", SP.STUB_CALLS["n"] - stub0)
    if corpus:
        pass
    elif _INTENDED.get(c["outcome"]) == oc:
        rec.count("intended_outcome_met")
        rec.count("met:%s:%s" % (c["fn"], c["outcome"]))
    else:
        rec.count("intended_outcome_not_met")
    if out[0] == "err" and out[1] == "raw":
        rec.count("raw_exceptions_seen(not C22's concern)")
    if muts:
        rec.count("cases_with_mutation")
        rec.count("mutation_after_%s" % ("success" if oc == "ok" else "failure"))
    seen = set()
    for d in muts:
        fk = finding_key(c, d, b["registry"])
        if fk in seen:
            continue
        seen.add(fk)
        rec.count("cases:" + fk)
        if fk in _REPORTED:      # one example per key and worker process is enough (the recorder keeps at most 2000)
            continue
        _REPORTED.add(fk)
        what = ("%s %s (call %s): caller's %s at %s: %s -- expected: argument unchanged. Call: %s" % (
            c["fn"], "returned" if oc == "ok" else "raised " + (out[2] + ("/" + str(out[3]) if out[3] else "")),
            ("corpus call %s of %s" % (c["corpus"], c.get("test")) if corpus else SP.case_id(c)),
            d["node"].get("pytype", d["node"]["t"]), d["path"], d["detail"], b["description"]))
        rec.violation(fk, what, {"case": c, "key": fk})
    return oc, muts


def _work(item, rec):
    deadline, chunk = item
    base = os.path.join(harness.scratch(), "c22", "w%d" % os.getpid())
    for i, c in enumerate(chunk):
        if deadline is not None and time.time() > deadline:
            rec.count("cases_skipped_budget", len(chunk) - i)
            return
        wd = os.path.join(base, "c%d" % i)
        shutil.rmtree(wd, ignore_errors=True)
        try:
            run_case(c, rec, wd)
        finally:
            shutil.rmtree(wd, ignore_errors=True)


# ------------------------------------------------------------------------------------------------
# the oracle is tested on its own before it is trusted: planted mutations must be seen, harmless
# operations must not
# ------------------------------------------------------------------------------------------------

def oracle_selftest(rec):
    import numpy as np
    import pandas as pd
    harness.boot()
    wd = os.path.join(harness.scratch(), "c22", "selftest")
    shutil.rmtree(wd, ignore_errors=True)
    problems = []

    def fresh():
        c = {"fn": "run", "script_kind": "vtl-path", "outcome": "success", "ds": "list-dict+path", "dp": "dict-frame+csv",
             "fv": "native-default", "vd": "dict", "er": "list-of-dicts", "sv": "dict", "mp": "-"}
        shutil.rmtree(wd, ignore_errors=True)
        return SP.build(c, wd)

    def check(label, mutate, expect_kind):
        b = fresh()
        keep = []
        before = {k: S.snap(v, keep) for k, v in b["owned"].items()}
        mutate(b["owned"])
        after = {k: S.snap(v) for k, v in b["owned"].items()}
        kinds = [d["kind"] for k in before for d in S.diff(before[k], after[k], k)]
        if expect_kind is None:
            if kinds:
                problems.append("harmless operation %r reported %s" % (label, kinds))
        elif expect_kind not in kinds:
            problems.append("planted mutation %r not seen (got %s, wanted %s)" % (label, kinds, expect_kind))
        rec.count("oracle_selftest_probes")

    def df(o):
        return o["datapoints"]["DS_1"]

    def rename(o):
        df(o).columns = ["X"] + list(df(o).columns[1:])

    def addcol(o):
        df(o)["New"] = None

    def dropcol(o):
        df(o).drop(columns=["Me_2"], inplace=True)

    def setval(o):
        df(o).loc[0, "Me_2"] = 99.0

    def dtype(o):
        d = df(o)
        d["Id_1"] = d["Id_1"].astype("float64")

    def index(o):
        df(o).index = [5, 6, 7]

    def attrs(o):
        df(o).attrs["x"] = 1

    def flags(o):
        df(o).flags.allows_duplicate_labels = False

    def reorder(o):
        d = df(o)
        cols = list(d.columns)
        first = d.pop(cols[0])
        d[cols[0]] = first

    def replace_entry(o):
        o["datapoints"]["DS_1"] = df(o).copy()

    def del_entry(o):
        del o["datapoints"]["DS_2"]

    def add_entry(o):
        o["datapoints"]["DS_3"] = 1

    def nested(o):
        o["data_structures"][0]["datasets"][0]["DataStructure"][1]["nullable"] = False

    def list_len(o):
        o["external_routines"].append({})

    def setlist(o):
        o["value_domains"]["setlist"].sort(reverse=True)

    def scalar(o):
        o["scalar_values"]["sc_1"] = 6

    def filemod(o):
        with open(o["datapoints"]["DS_2"], "a") as f:
            f.write("9,9.0\n")

    def filedel(o):
        os.remove(str(o["data_structures"][1]))

    def scriptmod(o):
        with open(o["script"], "w") as f:
            f.write("x")

    for label, fn, kind in [("rename", rename, "columns-renamed"), ("add column", addcol, "column-added"),
                            ("drop column", dropcol, "column-removed"), ("set value", setval, "values-changed"),
                            ("dtype", dtype, "dtype-changed"),
                            ("index", index, "index-changed"), ("attrs", attrs, "attrs-changed"), ("flags", flags, "flags-changed"),
                            ("reorder", reorder, "columns-reordered"), ("replace entry", replace_entry, "value-replaced"),
                            ("delete entry", del_entry, "key-removed"), ("add entry", add_entry, "key-added"),
                            ("nested structure", nested, "value-changed"), ("list length", list_len, "length-changed"),
                            ("setlist order", setlist, "value-changed"), ("scalar", scalar, "value-changed"),
                            ("file append", filemod, "file-modified"), ("file delete", filedel, "file-removed"),
                            ("script file", scriptmod, "file-modified")]:
        try:
            check(label, fn, kind)
        except Exception as e:  # noqa: BLE001
            problems.append("self-test probe %r crashed: %s: %s" % (label, type(e).__name__, e))

    # harmless: reads, copies, consolidation, a registered DuckDB view, an equal re-assignment of an atom
    def reads(o):
        d = df(o)
        d.copy()
        d.to_numpy()
        d.fillna(0)
        d.rename(columns=str.lower)
        d._consolidate_inplace() if hasattr(d, "_consolidate_inplace") else None
        list(d.itertuples())
        o["scalar_values"]["sc_1"] = int("5")
        o["value_domains"]["name"] = "".join(["VD", "_1"])

    def duck(o):
        import duckdb
        con = duckdb.connect()
        con.register("v", df(o))
        con.execute("select * from v").fetchall()
        con.unregister("v")
        con.close()

    for label, fn in [("reads/copies/consolidation", reads), ("duckdb register", duck)]:
        try:
            check(label, fn, None)
        except Exception as e:  # noqa: BLE001
            problems.append("self-test probe %r crashed: %s: %s" % (label, type(e).__name__, e))
    # a many-block frame that pandas consolidates lazily must snapshot identically before and after
    d = pd.DataFrame({"a": [1, 2]})
    for i in range(5):
        d["c%d" % i] = [float(i), 2.0]
    s1 = S.snap(d)
    d2 = d.copy()  # copy() consolidates the copy, not d; then force consolidation of d itself
    getattr(d, "_consolidate_inplace", lambda: None)()
    if S.diff(s1, S.snap(d)):
        problems.append("block consolidation was reported as a change")
    del d2
    # None / NaN / NA in an object column are three different observable cells
    for a, b2 in ((None, np.nan), (np.nan, pd.NA), (1, 1.0), (1, np.int64(1))):
        d = pd.DataFrame({"a": pd.Series([a, "x"], dtype=object)})
        s1 = S.snap(d)
        d.iloc[0, 0] = b2
        if "values-changed" not in [x["kind"] for x in S.diff(s1, S.snap(d))]:
            problems.append("cell %r -> %r in an object column not seen" % (a, b2))
        rec.count("oracle_selftest_probes")
    shutil.rmtree(wd, ignore_errors=True)
    for p in problems:
        rec.tool_error("C22 oracle self-test: " + p)
    return not problems



def structure_forms_item(item, rec):
    """every alternative spelling / layout the structure JSON schema admits (read from the schema at run time): the caller's
    dicts must come back untouched from semantic_analysis, run and validate_dataset"""
    import copy
    import json
    import pandas as pd
    V = harness.boot()
    schema = json.load(open(os.path.join(harness.REPO, "src/vtlengine/API/data/schema/json_schema_2.1.json")))
    roles = schema["$defs"]["role"]["enum"]
    type_keys = [alt["required"][0] for alt in schema["$defs"]["component"]["oneOf"]]
    for role in roles:
        for tkey in type_keys:
            for layout in ("inline", "shared-structure"):
                for with_nullable in (True, False):
                    comps = [{"name": "Id_1", "role": "Identifier", tkey: "Integer"}, {"name": "Me_1", "role": "Measure", tkey: "Number"},
                             {"name": "X_1", "role": role, tkey: "String" if role != "Identifier" else "Integer", "description": "varied component"}]
                    if with_nullable:
                        for c in comps:
                            c["nullable"] = c["role"] != "Identifier"
                    if layout == "inline":
                        ds = {"datasets": [{"name": "DS_1", "DataStructure": comps}]}
                    else:
                        ds = {"structures": [{"name": "STR_1", "components": comps}], "datasets": [{"name": "DS_1", "structure": "STR_1"}]}
                    viral = "viral" in role.lower()
                    script = ("define viral propagation VP (variable X_1) is aggregate max end viral propagation;\n" if viral else "") + "DS_r <- DS_1;"
                    df = pd.DataFrame({"Id_1": [1, 2], "Me_1": [1.5, None], "X_1": ["a", "b"] if role != "Identifier" else [7, 8]})
                    for fn, call in (("semantic_analysis", lambda d: V.semantic_analysis(script, d)),
                                     ("run", lambda d: V.run(script, d, {"DS_1": df.copy()})),
                                     ("validate_dataset", lambda d: V.validate_dataset(d, {"DS_1": df.copy()}))):
                        before = copy.deepcopy(ds)
                        out = harness.call(call, ds)
                        same = ds == before and json.dumps(ds, sort_keys=False) == json.dumps(before, sort_keys=False)
                        rec.case(("structure-form", fn, role, tkey, layout, with_nullable, out[0], same), "unchanged" if same else "mutated",
                                 nontrivial=True, sample={"fn": fn, "data_structures": before} if role == roles[-1] else None)
                        rec.count("structure_form_calls")
                        if out[0] != "ok":
                            rec.count("structure_form_calls_failed")
                        if not same:
                            rec.violation("C22:%s:structure-dict:role-spelling=%s:dict-rewritten" % (fn, role.replace(" ", "_")),
                                          "%s(...) with data_structures given as a dict (role %r, key %r, %s layout) changed the caller's dict: %s -> %s" % (
                                              fn, role, tkey, layout, json.dumps(before)[:200], json.dumps(ds)[:200]),
                                          {"structure_form": [role, tkey, layout, with_nullable]})
                        ds = copy.deepcopy(before)


class Check:
    ID = "C22"
    LEVEL = "exploration"
    RULE = ("one case = one real call of a public function with freshly built caller objects; the cases are the cartesian "
            "product function x script kind (str / Path to .vtl / TransformationScheme) x data_structures kind (dict / list "
            "of dicts / Path to json / list mixing dict and Path / list of pysdmx Schemas) x datapoints kind (dict of "
            "frames / frame + CSV path / frame + URL / dict of CSV paths / CSV path + URL / list of paths / single path / "
            "none) x frame variant of the caller's DS_1 frame (native default, non-default index, BOM-prefixed first "
            "column, missing nullable column, extra column, categorical, object dtype, object dtype with an empty string "
            "in a Number column, pyarrow strings, frame on read-only numpy arrays, slice of a parent frame; the CSV kinds "
            "use the 4 variants that exist for a file) x value_domains shape x external_routines shape (none / dict / "
            "list of dicts / Path) x scalar_values (none / dict) x mappings (none / dict / VtlDataflowMapping) x outcome "
            "class forced by the script (success, syntax, semantic, data-load, run-time error, success with "
            "output_folder), restricted to the axes the function has. distinct = distinct (case, observed outcome "
            "class); non-trivial = at least one argument of the call is an object a callee could modify (dict, list, "
            "DataFrame, pysdmx object or an existing file). thorough additionally re-executes every recorded public-API call "
            "of the upstream test-suite corpus (those without an output folder) with the same snapshot around it. "
            + SP.QUICK_RULE)
    ASSUMPTIONS = [
        "the network fetch vtlengine.API._InternalApi._handle_url_datapoints (also bound as vtlengine.API._handle_url_datapoints) "
        "is replaced by a local function with the same contract ({name: Dataset}, {}, {name: DataFrame}); the substitution "
        "of the fetched frames into the caller's dict is the real code of run()",
        "with URL datapoints data_structures is a Path to a VTL-JSON file (an SDMX-ML structure file cannot be read here: "
        "pysdmx is installed without its xml extra)",
        "observable content only: block layout, ids and the writeable flag of the arrays pandas hands out are not compared; "
        "key order of dicts is not compared (== semantics)",
        "the output_folder argument is expected to receive files and is not part of the snapshot",
        "str paths, S3 URIs, directories as datapoints/data_structures, SDMX-ML/SDMX-CSV datapoint files, parquet files, "
        "Dataflow/DataStructureDefinition objects and the sdmx_mappings argument of run()/semantic_analysis() are outside "
        "the enumerated shapes",
    ]

    def run(self, tier, seed, rec):
        harness.boot()
        if not oracle_selftest(rec):
            return {"exhaustive": False}
        first, rest = SP.space(tier)
        corpus_cases = SP.corpus_cases() if tier == "thorough" else []
        full = sum(1 for _ in SP.full_space())
        budget = float(os.environ.get("VTLMC_C22_BUDGET_S", DEFAULT_BUDGET_S))
        t0 = time.time()
        # the quick sub-lattice: always complete (both tiers)
        harness.pmap(_work, [(None, ch) for ch in harness.chunks(harness.seeded_order(first, seed), CHUNK)], rec)
        if rest:
            deadline = (t0 + budget) if budget > 0 else None
            items = [(deadline, ch) for ch in harness.chunks(harness.seeded_order(corpus_cases, seed), CHUNK)]
            items += [(deadline, ch) for ch in harness.chunks(harness.seeded_order(rest, seed), CHUNK)]
            harness.pmap(_work, items, rec)      # in this order: the recorded corpus calls, then the rest of the product
            if not corpus_cases:
                rec.tool_error("the corpus index gave no call to re-execute")
        harness.pmap(structure_forms_item, [0], rec)
        if rec.counters.get("structure_form_calls_failed", 0) * 2 > rec.counters.get("structure_form_calls", 1):
            rec.tool_error("most structure-form calls fail: the structure-form space is not exercised")
        cases = first + corpus_cases + rest
        skipped = rec.counters.get("cases_skipped_budget", 0)
        done = sum(v for k, v in rec.counters.items() if k.startswith(("calls:", "corpus_calls:")))
        if skipped:
            rec.note("budget of %.0f s exhausted: %d of %d cases executed (the quick sub-lattice of %d completely), %d skipped"
                     % (budget, done, len(cases), len(first), skipped))
        # non-vacuity
        if done + skipped != len(cases):
            rec.tool_error("executed %d + skipped %d of %d cases" % (done, skipped, len(cases)))
        for name in ("frames_snapshotted", "files_snapshotted", "containers_snapshotted", "url_stub_calls"):
            if not rec.counters.get(name):
                rec.tool_error("mechanism never exercised: %s = 0" % name)
        for fn, ocs in (("run", SP.OUTCOMES), ("run_sdmx", SP.OUTCOMES),
                        ("semantic_analysis", ("success", "syntax-error", "semantic-error")),
                        ("validate_dataset", ("success", "load-error")),
                        ("prettify", ("success", "syntax-error")), ("generate_sdmx", ("success", "syntax-error"))):
            for oc in ocs:
                if not rec.counters.get("met:%s:%s" % (fn, oc)):
                    rec.tool_error("no %s call reached the intended outcome class %s" % (fn, oc))
        for k in [k for k in rec.counters if k.startswith("met:")]:
            del rec.counters[k]
        return {"exhaustive": skipped == 0, "cases_in_tier": len(cases), "cases_executed": done,
                "cases_skipped_budget": skipped, "cases_in_full_space": full, "corpus_calls_in_tier": len(corpus_cases),
                "tier_is_full_space": len(first) + len(rest) == full, "budget_s": budget if rest else None,
                "axes": {"functions": list(SP.FUNCS), "script_kinds": list(SP.SCRIPT_KINDS), "outcomes": list(SP.OUTCOMES),
                         "data_structures": list(SP.DS_KINDS), "datapoints_frame_kinds": list(SP.DP_FRAME_KINDS),
                         "datapoints_path_kinds": list(SP.DP_PATH_KINDS), "frame_variants": list(SP.FRAME_VARIANTS),
                         "csv_variants": list(SP.CSV_VARIANTS), "library_shapes": list(SP.LIB_SHAPES),
                         "scalar_values": list(SP.SV_KINDS), "mappings": list(SP.MAPPINGS)}}

    def replay(self, data):
        harness.boot()
        if "structure_form" in data:
            rec = harness.Recorder()
            structure_forms_item(0, rec)
            return bool(rec.violations)
        c = data["case"]
        wd = os.path.join(harness.scratch(), "c22", "replay")
        shutil.rmtree(wd, ignore_errors=True)
        try:
            b, out, before, muts = execute(c, wd)
            keys = sorted({finding_key(c, d, b["registry"]) for d in muts})
            print("C22 replay: %s -> %s; mutations: %s" % (
                "corpus call " + c["corpus"] if "corpus" in c else SP.case_id(c), observed_class(out), keys or "none"))
            for d in muts:
                print("   %s %s: %s" % (d["path"], d["kind"], d["detail"][:300]))
            return data.get("key") in keys if data.get("key") else bool(keys)
        finally:
            shutil.rmtree(wd, ignore_errors=True)

"""C17 — concurrent API calls behave like sequential ones.

Explorer E3: every schedule of a pair (quick) / triple (thorough) of real API calls, one per thread, with
at most B forced preemptions at the engine's shared-state switch points; oracle O1: the outcome of each
call equals its outcome alone in a fresh process.
"""
import itertools
import os
import pickle
import sys

from vtlmc import harness, sched


# ---------------------------------------------------------------------------------------------------
# call alphabet (fixed arguments)
# ---------------------------------------------------------------------------------------------------

def _S(name, comps):
    return {"name": name, "DataStructure": [{"name": n, "type": t, "role": r, "nullable": r != "Identifier"} for n, t, r in comps]}


def alphabet():
    import pandas as pd
    import vtlengine as V
    viral = {"datasets": [
        _S("DS_1", [("Id_1", "Integer", "Identifier"), ("Me_1", "Number", "Measure"), ("VAt_1", "String", "ViralAttribute")]),
        _S("DS_2", [("Id_1", "Integer", "Identifier"), ("Me_1", "Number", "Measure"), ("VAt_1", "String", "ViralAttribute")])]}
    vdp = lambda: {"DS_1": pd.DataFrame({"Id_1": [1, 2], "Me_1": [1.0, 2.0], "VAt_1": ["A", "B"]}),
                   "DS_2": pd.DataFrame({"Id_1": [1, 2], "Me_1": [1.0, 2.0], "VAt_1": ["B", "A"]})}
    plain = {"datasets": [
        _S("DS_1", [("Id_1", "Integer", "Identifier"), ("Me_1", "Number", "Measure"), ("At_1", "String", "Attribute")]),
        _S("DS_2", [("Id_1", "Integer", "Identifier"), ("Me_1", "Number", "Measure"), ("At_1", "String", "Attribute")])]}
    pdp = lambda: {"DS_1": pd.DataFrame({"Id_1": [1, 2, 3], "Me_1": [1.0, 2.0, 3.0], "At_1": ["x", "y", "z"]}),
                   "DS_2": pd.DataFrame({"Id_1": [1, 2], "Me_1": [10.0, 20.0], "At_1": ["p", "q"]})}
    tp = {"datasets": [_S("DS_T", [("Id_1", "Integer", "Identifier"), ("Me_1", "Time_Period", "Measure")])]}
    tdp = lambda: {"DS_T": pd.DataFrame({"Id_1": [1, 2], "Me_1": ["2020A", "2021M03"]})}
    dup = lambda: {"DS_1": pd.DataFrame({"Id_1": [1, 1], "Me_1": [1.0, 2.0], "At_1": ["x", "y"]}),
                   "DS_2": pd.DataFrame({"Id_1": [1, 2], "Me_1": [10.0, 20.0], "At_1": ["p", "q"]})}
    sA = ('define viral propagation VP (variable VAt_1) is when "A" then "Z"; else "D" end viral propagation;\n'
          'DS_r <- DS_1 + DS_2;')
    sB = ('define viral propagation VP (variable VAt_1) is aggregate max end viral propagation;\n'
          'DS_r <- DS_1 + DS_2;')
    sP = "DS_a := DS_1 + DS_2; DS_r <- DS_a[calc Me_2 := Me_1 * 2];"
    sErr = 'DS_a := DS_1 * 2; DS_bad <- DS_a + DS_1[calc x := At_1 + 1];'
    sVirt = "DS_r <- (DS_1 + DS_2) * (DS_1 - DS_2) + abs(DS_1);"
    pret = "/* head */ DS_r<-DS_1+DS_2; // tail\nDS_x := DS_r [ filter Me_1>1 ];"
    return {
        "run-viral-enum": lambda: V.run(sA, viral, vdp()),
        "run-viral-aggr": lambda: V.run(sB, viral, vdp()),
        "run-plain": lambda: V.run(sP, plain, pdp()),
        "run-tp-vtl": lambda: V.run("DS_r <- DS_T;", tp, tdp(), time_period_output_format="vtl"),
        "run-tp-gregorian": lambda: V.run("DS_r <- DS_T;", tp, tdp(), time_period_output_format="sdmx_gregorian"),
        "run-semantic-error": lambda: V.run(sErr, plain, pdp()),
        "run-load-error": lambda: V.run("DS_r <- DS_1 + DS_2;", plain, dup()),
        "semantic-virtual-names": lambda: V.semantic_analysis(sVirt, plain),
        "prettify-comments": lambda: V.prettify(pret),
        "create-ast-ok": lambda: V.create_ast("DS_r := DS_1 [ calc Me_9 := Me_1 + 1 ] ;"),
        "create-ast-syntax-error": lambda: V.create_ast("DS_r := DS_1 + ;"),
    }


def outcome_of(name, thunk):
    """canonical, picklable outcome of one call"""
    out = harness.call(thunk)
    if out[0] == "err":
        return ("err",) + tuple(out[1:])
    r = out[1]
    if isinstance(r, str):
        return ("ok", "text", r)
    if isinstance(r, dict):
        from vtlengine.Model import Dataset, Scalar
        if all(isinstance(v, (Dataset, Scalar)) for v in r.values()):
            return ("ok", "results", harness.canon_results(r))
    return ("ok", "repr", repr(r))


def same_outcome(a, b):
    if a[0] != b[0]:
        return False, "ok-vs-error"
    if a[0] == "err":
        if a[1:4] != b[1:4]:
            return False, "wrong-error:%s:%s" % (b[2], b[3])
        if a[4] != b[4]:
            return False, "wrong-message"
        return True, None
    if a[1] != b[1]:
        return False, "wrong-kind"
    if a[1] == "results":
        if not harness.results_equal(a[2], b[2]):
            return False, "wrong-value"
        return True, None
    return (a[2] == b[2]), "wrong-value"


def fresh_outcomes(names):
    """outcome of each call alone, each in a freshly forked child (no earlier call has touched the engine)"""
    res = {}
    for n in names:
        r, w = os.pipe()
        pid = os.fork()
        if pid == 0:
            try:
                os.close(r)
                from frontend import fe
                fe._State.proc = None
                o = outcome_of(n, alphabet()[n])
                with os.fdopen(w, "wb") as f:
                    pickle.dump(o, f)
                fe.shutdown()
            finally:
                os._exit(0)
        os.close(w)
        with os.fdopen(r, "rb") as f:
            data = f.read()
        os.waitpid(pid, 0)
        res[n] = pickle.loads(data)
    return res


def explore_group(item, rec):
    """one worker item: a tuple of call names + preemption bound (+ alone outcomes)"""
    names, bound, alone, cap = item
    harness.boot()
    import vtlengine  # noqa: F401
    import vtlengine.AST.ASTComment  # noqa: F401  (imports parser_lock by name)
    lock = sched.install_coop_lock()
    alpha = alphabet()
    label = "‖".join(names)
    states = set()
    seen_viol = set()

    def make():
        return {i: (lambda n=n: outcome_of(n, alpha[n])) for i, n in enumerate(names)}

    def on_exec(x):
        pre = sched.preemptions_before(x.trace, len(x.trace))
        outs = []
        bad = False
        # interleaving-lattice states visited: per-thread progress vector after each decision
        prog = [0] * len(names)
        for d in x.trace:
            prog[d["enabled"][d["chosen"]]] += 1
            states.add(tuple(prog))
        rec.count("transitions", len(x.trace))
        if "__deadlock__" in x.results:
            bad = True
            key = "C17:%s:deadlock" % label
            if key not in seen_viol:
                seen_viol.add(key)
                rec.violation(key, "threads %s never finish under schedule %s" % (x.results["__deadlock__"], x.choices()),
                              {"names": list(names), "schedule": x.choices()})
        for i, n in enumerate(names):
            o = x.results.get(i)
            if o is None:
                continue
            if o[0] == "harness-exc":
                rec.tool_error("controlled thread crashed: %s" % (o,))
                continue
            ok, kind = same_outcome(alone[n], o)
            outs.append((n, o[0], kind))
            if not ok:
                bad = True
                # where the first preemption happened (for the human; not part of the key)
                first = next((d["tag"] for d in x.trace if d["chosen"] != 0 and d["running_enabled"]), "serial-order")
                stale = "StaleParseTree" in str(o)
                key = "C17:%s:victim=%s:%s%s" % (label, n, kind, ":stale-parse-tree" if stale else "")
                if pre == 0:
                    key += ":serial"
                if key not in seen_viol:
                    seen_viol.add(key)
                    rec.violation(key, "%s under schedule %s (%d preemption(s), first at %s): got %s, alone %s" % (
                        n, x.choices(), pre, first, str(o)[:300], str(alone[n])[:300]),
                        {"names": list(names), "schedule": x.choices(), "victim": n})
        rec.case((label, pre, tuple(sorted(outs))), "violating" if bad else "as-alone", nontrivial=pre > 0 or len(names) > 1,
                 sample={"calls": list(names), "schedule": x.choices(), "preemptions": pre,
                         "points": [d["tag"] for d in x.trace][:40]} if pre > 0 else None)

    try:
        st = sched.explore(make, lock, bound, on_exec, max_executions=cap)
    except (sched.Divergence, sched.HarnessDeadlock) as e:
        rec.tool_error("%s: %s: %s" % (label, type(e).__name__, e))
        return
    rec.count("states", len(states))
    rec.count("executions", st["executions"])
    rec.count("max_points_per_execution_sum", st["max_points"])
    if st["truncated"]:
        rec.count("groups_truncated")
        rec.note("group %s truncated at %d executions" % (label, cap))
    from frontend import fe
    if fe._State.stale_events:
        rec.count("stale_parse_tree_events", len(fe._State.stale_events))


class Check:
    ID = "C17"
    LEVEL = "model_checking"
    RULE = ("stateless exploration of thread schedules of real API calls: all unordered pairs (quick) / pairs + triples "
            "(thorough) over an 11-call alphabet, one call per thread, every schedule with <= 1 (quick) / <= 2 (thorough) "
            "preemptions at the switch points of vtlmc/sched.py; a case = one complete execution; distinct key = (calls, "
            "preemptions, per-call outcome class); non-trivial = at least two threads")
    ASSUMPTIONS = ["interleavings only at the declared switch points (function entries of the shared-state accessors and "
                   "API phase boundaries, parser_lock acquire/release); not every bytecode boundary, not native code",
                   "parse-tree lifetime of the C++ extension is modelled by the stand-in's generation check"]

    def run(self, tier, seed, rec):
        harness.boot()
        names = sorted(alphabet())
        alone = fresh_outcomes(names)
        for n, o in alone.items():
            rec.note("alone %s -> %s" % (n, str(o)[:80]))
        bound = 1 if tier == "quick" else 2
        groups = [(a, b) for a, b in itertools.combinations_with_replacement(names, 2)]
        cap = 400 if tier == "quick" else 6000
        items = [(g, bound, {n: alone[n] for n in g}, cap) for g in groups]
        if tier == "thorough":
            tri = ["run-viral-enum", "run-viral-aggr", "run-semantic-error", "prettify-comments", "create-ast-syntax-error"]
            items += [(g, 1, {n: alone[n] for n in g}, 4000) for g in itertools.combinations(tri, 3)]
        only = os.environ.get("VTLMC_C17_ONLY")
        if only:
            items = [it for it in items if only in "|".join(it[0])]
        items = harness.seeded_order(items, seed)
        harness.pmap(explore_group, items, rec)
        st = rec.counters.get("states", 0)
        tr = rec.counters.get("transitions", 0)
        ex = rec.counters.get("executions", 0)
        if ex < len(items) * 2:
            rec.tool_error("vacuous: %d executions for %d groups (no switch point was reached?)" % (ex, len(items)))
        return {"states": st, "transitions": tr, "traces_validated_against_impl": ex,
                "exhaustive": rec.counters.get("groups_truncated", 0) == 0,
                "preemption_bound_completed": bound, "groups": len(items)}

    def replay(self, data):
        harness.boot()
        import vtlengine.AST.ASTComment  # noqa: F401
        lock = sched.install_coop_lock()
        alpha = alphabet()
        names = data["names"]
        alone = fresh_outcomes(sorted(set(names)))
        verdicts = []
        for _ in range(2):   # a schedule must fail identically twice
            x = sched.Execution({i: (lambda n=n: outcome_of(n, alpha[n])) for i, n in enumerate(names)}, data["schedule"], lock).run()
            bad = "__deadlock__" in x.results
            for i, n in enumerate(names):
                ok, _ = same_outcome(alone[n], x.results[i])
                bad = bad or not ok
            verdicts.append(bad)
        if verdicts[0] != verdicts[1]:
            raise RuntimeError("schedule does not reproduce deterministically")
        return verdicts[0]

"""C09 — cast converts values according to the documented conversion table.

Exhaustive: all 8 x 8 (source type, target type) pairs x the whole value pool of the source type x the three
levels {scalar literal expression, component inside ``calc``, mono-measure dataset} (x the four
``time_period_output_format`` values for the pairs that render periods, thorough tier) + every pair once more
with a mask.  The oracle is ``docs/data_types.rst`` parsed at run time (vtlmc/c09_ref.py): explicit / implicit /
with-mask tables, dataset-cast renaming table, "Conversion details" / "Key rules" bullets and the type reference
sections; the reference conversion rules are calibrated against the worked examples of the document itself.
"""
import hashlib
import re

from vtlmc import c09_ref as R
from vtlmc import harness

LEVELS = ("scalar", "component", "dataset")
MASK = "YYYY-MM-DD"
MASK_VALUE = {"Integer": 3, "Number": 3.5, "Boolean": True, "String": "2020-01-15", "Date": "2020-01-15",
              "Time_Period": "2020Q1", "Time": "2020-01-01/2020-12-31", "Duration": "A"}
_DOC_NAME = {v: k for k, v in R.ENGINE_NAME.items()}
_DOCS = None


def docs():
    global _DOCS
    if _DOCS is None:
        _DOCS = R.parse_docs(harness.REPO)
    return _DOCS


def renders_periods(src, tgt):
    return tgt == "Time_Period" or (src == "Time_Period" and tgt == "String")


# ---------------------------------------------------------------------------------------------------------
# building and executing one call of the public API
# ---------------------------------------------------------------------------------------------------------

def literal(src, v):
    """(VTL expression of type src denoting v, needs a guard because it goes through cast(<string>, src))"""
    kw = R.KEYWORD[src]
    if v is None:
        return "cast(null, %s)" % kw, True
    if src == "Integer":
        return str(v), False
    if src == "Number":
        s = ("%.10f" % v).rstrip("0")
        return (s + "0" if s.endswith(".") else s), False
    if src == "Boolean":
        return ("true" if v else "false"), False
    if src == "String":
        return '"%s"' % v, False
    return 'cast("%s", %s)' % (v, kw), True


def _column(src, values):
    import pandas as pd
    if src == "Integer":
        return pd.array(values, dtype="Int64")
    if src == "Number":
        return pd.array(values, dtype="Float64")
    if src == "Boolean":
        return pd.array(values, dtype="boolean")
    return pd.array(values, dtype=object)


def _tname(data_type):
    n = getattr(data_type, "__name__", str(data_type))
    return _DOC_NAME.get(n, n)


def script_for(level, src, tgt, entries, mask=None, guards="with"):
    """guards (scalar level): 'with' = guard statement g_<label> before every nested-cast literal, 'none', 'only'"""
    m = ', "%s"' % mask if mask else ""
    kw = R.KEYWORD[tgt]
    if level == "dataset":
        return "DS_r <- cast(DS_1, %s%s);" % (kw, m)
    if level == "component":
        return "DS_r <- DS_1[calc Me_2 := cast(Me_1, %s%s)];" % (kw, m)
    out = []
    for i, (lab, v) in enumerate(entries):
        lit, guard = literal(src, v)
        if guard and guards != "none":
            out.append("g_%s <- %s;" % (lab, lit))
        if guards != "only":
            out.append("x_%s <- cast(%s, %s%s);" % (lab, lit, kw, m))
    return "\n".join(out)


def run_level(V, d, level, src, tgt, fmt, entries, sa=False, mask=None):
    """one call of run() / semantic_analysis() -> (overall, per_label)
    overall: ('ok', info) | ('err', kind, cls, code, msg);  per_label[label]: ('ok', value, type) | err tuple |
    ('unavailable', why)"""
    script = script_for(level, src, tgt, entries, mask)
    if level == "scalar":
        st = harness.structures()
        if len(entries) == 1 and not sa and not mask and literal(src, entries[0][1])[1]:
            # a single value whose source literal is itself a cast: the literal is evaluated on its own first, so
            # that a failure of the inner cast is never attributed to the cast under test
            lab, v = entries[0]
            g = harness.call(V.run, script_for(level, src, tgt, entries, guards="only"), st, {}, time_period_output_format=fmt)
            gv = harness.canon_value(g[1]["g_" + lab].value) if g[0] == "ok" and "g_" + lab in g[1] else "<%s>" % (g[2] if g[0] == "err" else "missing")
            if g[0] != "ok" or not R.expect(d, src, src, v, fmt).check(gv):
                return ("ok", {}), {lab: ("unavailable", "the source literal %s evaluates to %r, not to %r" % (literal(src, v)[0], gv, v))}
            script = script_for(level, src, tgt, entries, guards="none")
        out = harness.call(V.semantic_analysis, script, st) if sa else \
            harness.call(V.run, script, st, {}, time_period_output_format=fmt)
        if out[0] == "err":
            return out, {lab: out for lab, _ in entries}
        per = {}
        for lab, v in entries:
            _, guard = literal(src, v)
            x = out[1].get("x_" + lab)
            if x is None:
                per[lab] = ("err", "raw", "MissingResult", None, "no result x_%s" % lab)
                continue
            if guard and not sa and ("g_" + lab) in script:
                g = out[1].get("g_" + lab)
                gv = harness.canon_value(g.value) if g is not None else "<missing>"
                if not R.expect(d, src, src, v, fmt).check(gv):
                    per[lab] = ("unavailable", "the source literal %s evaluates to %r, not to %r" % (literal(src, v)[0], gv, v))
                    continue
            per[lab] = ("ok", None if sa else harness.canon_value(x.value), _tname(x.data_type))
        return ("ok", {}), per
    st = harness.structures(harness.structure("DS_1", [harness.comp("Id_1", "Integer", "Identifier"),
                                                        harness.comp("Me_1", src, "Measure")]))
    if sa:
        out = harness.call(V.semantic_analysis, script, st)
    else:
        import pandas as pd
        df = pd.DataFrame({"Id_1": pd.array(list(range(1, len(entries) + 1)), dtype="Int64"),
                           "Me_1": _column(src, [v for _, v in entries])})
        out = harness.call(V.run, script, st, {"DS_1": df}, time_period_output_format=fmt)
    if out[0] == "err":
        return out, {lab: out for lab, _ in entries}
    ds = out[1]["DS_r"]
    comps = [(c.name, _tname(c.data_type), c.role.value if hasattr(c.role, "value") else str(c.role)) for c in ds.components.values()]
    measures = [c for c in comps if c[2] == "Measure"]
    info = {"components": comps, "measures": measures}
    if level == "dataset":
        col = measures[0][0] if len(measures) == 1 else None
    else:
        col = "Me_2" if any(c[0] == "Me_2" for c in comps) else None
    ctype = dict((c[0], c[1]) for c in comps).get(col)
    per = {}
    if sa:
        for lab, _ in entries:
            per[lab] = ("ok", None, ctype) if col else ("err", "raw", "MissingResult", None, "components %s" % comps)
        return ("ok", info), per
    rows = harness.dataset_rows(ds) or []
    by_id = {r.get("Id_1"): r for r in rows}
    for i, (lab, _) in enumerate(entries):
        r = by_id.get(i + 1)
        if r is None or col is None or col not in r:
            per[lab] = ("err", "raw", "MissingResult", None, "no datapoint / column for Id_1=%d (components %s, %d rows)" % (i + 1, comps, len(rows)))
        else:
            per[lab] = ("ok", r[col], ctype)
    return ("ok", info), per


def _short(o):
    if o[0] == "ok":
        return "%r" % (o[1],) if len(o) > 2 else "ok"
    if o[0] == "unavailable":
        return "n/a"
    return "%s%s: %s" % (o[2], "(%s)" % o[3] if o[3] else "", re.sub(r"\s+", " ", o[4])[:140])


def _at(levels_with, levels_available):
    return "" if set(levels_with) >= set(levels_available) else ":at=" + "+".join(l for l in LEVELS if l in levels_with)


# ---------------------------------------------------------------------------------------------------------
# judging one (source, target) pair
# ---------------------------------------------------------------------------------------------------------

def deviation(d, exp, tgt, fmt, sa, rn):
    """kind of deviation of one (value, level) from the documented outcome, or None"""
    for o in (rn, sa):
        if o is not None and o[0] == "err" and o[1] == "raw":
            return "raw-error"
    if rn[0] == "unavailable":
        return None
    if sa is not None and sa[0] == "ok" and sa[2] != tgt:
        return "wrong-result-type"
    if rn[0] == "ok":
        if rn[2] != tgt:
            return "wrong-result-type"
        if sa is not None and sa[0] == "err":
            return "semantic_analysis-rejects-but-run-converts"
        if exp.kind == "value":
            return None if exp.check(rn[1]) else "wrong-value"
        if not R.in_domain(d, tgt, rn[1], fmt):
            return "returns-value-outside-target-domain"
        return "converted-but-docs-reject" if exp.kind == "error" else None
    return "rejected-but-docs-convert" if exp.kind == "value" else None


class PairJudge:
    def __init__(self, V, d, src, tgt, formats, labels=None):
        self.V, self.d, self.src, self.tgt, self.formats = V, d, src, tgt, formats
        self.full = labels is None          # value classes are only merged when the whole pool is judged
        self.entries = [(lab, v) for lab, v in R.pool(d, src) if labels is None or lab in labels]
        self.values = dict(self.entries)
        self.status = R.pair_status(d, src, tgt)
        self.cases = []        # (coverage key, outcome, nontrivial, sample)
        self.violations = {}   # key -> (what, labels for replay)
        self.calls = 0

    # -- bookkeeping
    def case(self, vclass, level, fmt, outcome, nontrivial=True, sample=None):
        key = (self.src, self.tgt, vclass, level, outcome) + ((fmt,) if fmt != "vtl" else ())
        self.cases.append((key, outcome, nontrivial, sample))

    def rl(self, level, fmt, entries, sa=False):
        self.calls += 1
        return run_level(self.V, self.d, level, self.src, self.tgt, fmt, entries, sa=sa)

    def judge(self):
        per_fmt = {}
        for fmt in self.formats:
            found = {}
            if self.status == "forbidden":
                self.forbidden(fmt, found)
            else:
                self.allowed(fmt, found)
            per_fmt[fmt] = found
        base = per_fmt.get("vtl", {})
        self.violations.update(base)
        extra = {}
        for fmt in self.formats:
            if fmt == "vtl":
                continue
            for k, v in per_fmt[fmt].items():
                if k not in base:
                    extra.setdefault(k, []).append((fmt, v))
        for k, lst in extra.items():
            self.violations[k + ":format=" + "+".join(f for f, _ in lst)] = lst[0][1]
        return self

    # -- pairs the documented table forbids
    def forbidden(self, fmt, found):
        accepted, raws, seen = {}, {}, {}
        for level in LEVELS:
            sa = self.rl(level, fmt, self.entries, sa=True)[0]
            rn = self.rl(level, fmt, self.entries)[0]
            seen[level] = "semantic_analysis: %s; run: %s" % (_short(sa), _short(rn))
            oc = "rejected-SemanticError"
            for name, o in (("semantic_analysis()", sa), ("run()", rn)):
                if o[0] == "ok":
                    accepted.setdefault(level, []).append(name + " accepts it")
                    oc = "VIOLATION:accepted"
                elif o[1] == "raw":
                    raws.setdefault(level, []).append("%s raises %s" % (name, _short(o)))
                    oc = "VIOLATION:raw-error"
                elif o[2] != "SemanticError":
                    accepted.setdefault(level, []).append("%s raises %s, not a SemanticError" % (name, _short(o)))
                    oc = "VIOLATION:accepted"
            for i, (lab, v) in enumerate(self.entries):
                self.case("any-value", level, fmt, "forbidden-pair:" + oc, nontrivial=(i == 0),
                          sample={"pair": "%s->%s" % (self.src, self.tgt), "level": level, "docs": "forbidden",
                                  "observed": seen[level]} if i == 0 else None)
        if accepted:
            key = "C09:pair:%s->%s:accepted-but-table-forbids%s" % (self.src, self.tgt, _at(accepted, LEVELS))
            found[key] = ("cast from %s to %s is marked '—' in both the explicit and the implicit cast table of docs/data_types.rst "
                          "(must be a SemanticError), but: %s" % (self.src, self.tgt, "; ".join(
                              "%s level [%s]: %s" % (l, script_for(l, self.src, self.tgt, self.entries[:1]).replace("\n", " "),
                                                     ", ".join(accepted[l])) for l in LEVELS if l in accepted)), None)
        if accepted and fmt == "vtl":
            # the pair is a violation whatever it returns; what it returns is part of the finding's identity, so that a
            # change of the undocumented conversion (another violation of the same property) is not hidden by a known finding
            groups = {}
            for e in self.entries:
                lab, v = e
                if v is None:
                    continue
                shown = {}
                for level in LEVELS:
                    if level not in accepted:
                        continue
                    o = self.rl(level, fmt, [e])[1].get(lab)
                    if o is None or o[0] == "unavailable":
                        continue
                    shown[level] = ("%r" % (o[1],)) if o[0] == "ok" else ("%s:%s" % (o[2], o[3] or o[1]))
                if not any(not x.startswith(("RunTimeError", "SemanticError", "InputValidationException")) for x in shown.values()):
                    continue        # nothing is converted for this value
                vals = sorted(set(shown.values()))
                res = vals[0] if len(vals) == 1 else "+".join("%s=%s" % (l, shown[l]) for l in LEVELS if l in shown)
                groups.setdefault(res, []).append((lab, v))
            for res, members in groups.items():
                vs = [v for _, v in members]
                ident = re.sub(r"[\s\[\]*?]", "_", str(vs[0])) if len(vs) == 1 else "%d-values-%s" % (
                    len(vs), hashlib.sha1(repr(sorted(map(str, vs))).encode()).hexdigest()[:8])
                key = "C09:forbidden-pair-value:%s->%s:%s:returns:%s" % (self.src, self.tgt, ident, re.sub(r"[\s\[\]*?]", "_", res))
                found[key] = ("cast from %s to %s is forbidden by the documented tables (must be a SemanticError) but the value(s) %s "
                              "are converted: result %s" % (self.src, self.tgt, vs, res), [lab for lab, _ in members])
        if raws:
            key = "C09:pair:%s->%s:raw-error%s" % (self.src, self.tgt, _at(raws, LEVELS))
            found[key] = ("cast from %s to %s (forbidden by the documented table) does not raise a SemanticError but a raw error: %s"
                          % (self.src, self.tgt, "; ".join("%s: %s" % (l, ", ".join(x)) for l, x in raws.items())), None)

    # -- pairs the document allows (or is ambiguous about)
    def allowed(self, fmt, found):
        d, src, tgt = self.d, self.src, self.tgt
        exps = {lab: R.expect(d, src, tgt, v, fmt) for lab, v in self.entries}
        pack = [e for e in self.entries if exps[e[0]].kind == "value"]
        singles = [e for e in self.entries if exps[e[0]].kind != "value"]
        sa_out, rn_out, level_info, pack_failed = {}, {}, {}, {}
        for level in LEVELS:
            sa_out[level], rn_out[level] = {}, {}
            if level == "scalar":
                # semantic_analysis of the scalar statements of the values that must convert (run() repeats the
                # semantic pass for every other value)
                if pack:
                    sa_out[level].update(self.rl(level, fmt, pack, sa=True)[1])
                level_info[level] = None
            else:
                o, per = self.rl(level, fmt, self.entries, sa=True)
                sa_out[level].update(per)
                level_info[level] = o
            if pack:
                o, per = self.rl(level, fmt, pack)
                rn_out[level].update(per)
                pack_failed[level] = o if o[0] == "err" else None
                if o[0] == "ok" and level_info[level] is not None and level_info[level][0] == "ok":
                    level_info[level] = ("ok", level_info[level][1], o[1])
            for e in singles:
                rn_out[level].update(self.rl(level, fmt, [e])[1])
        # does the engine reject the pair itself (SemanticError whatever the value)?
        rejecting = []
        for l in LEVELS:
            outs = list(sa_out[l].values()) if l != "scalar" else [rn_out[l][lab] for lab, _ in self.entries]
            if outs and all(o[0] == "err" and o[2] == "SemanticError" for o in outs):
                rejecting.append(l)
        if rejecting:
            shown = "; ".join("%s: %s" % (l, _short(rn_out[l][self.entries[0][0]])) for l in rejecting)
            if self.status == "allowed":
                found["C09:pair:%s->%s:rejected-but-table-allows%s" % (src, tgt, _at(rejecting, LEVELS))] = (
                    "cast from %s to %s is marked implemented in the explicit cast table but a SemanticError is raised whatever "
                    "the value (%s)" % (src, tgt, shown), None)
            elif len(rejecting) < len(LEVELS):
                found["C09:pair:%s->%s:levels-disagree-on-acceptance" % (src, tgt)] = (
                    "cast from %s to %s (explicit table '—', implicit table yes) is rejected at %s but accepted at the other levels (%s)"
                    % (src, tgt, rejecting, shown), None)
            for l in rejecting:
                for lab, _ in self.entries:
                    self.case(exps[lab].vclass, l, fmt, "pair-rejected-SemanticError", nontrivial=True)
        live = [l for l in LEVELS if l not in rejecting]
        # structure of the dataset-level result: measure renamed as documented
        if "dataset" in live:
            want = R.renamed_measure(d, src, tgt, "Me_1")
            info = level_info["dataset"]
            for which, inf in (("semantic_analysis()", info[1] if info and info[0] == "ok" else None),
                               ("run()", info[2] if info and len(info) > 2 else None)):
                if inf is None:
                    continue
                names = [m[0] for m in inf["measures"]]
                if names != [want]:
                    dev = "measure-renamed-despite-implicit-promotion" if R.implicit(d, src, tgt) else "measure-not-renamed-as-documented"
                    found["C09:dataset:%s->%s:%s" % (src, tgt, dev)] = (
                        "%s of 'DS_r <- cast(DS_1, %s);' on a dataset with the single %s measure Me_1: measures of the result are %s, "
                        "documented ('Cast on datasets' table, implicit-promotion note): %s" % (which, R.KEYWORD[tgt], src, names, [want]), None)
                    self.case("structure", "dataset", fmt, "VIOLATION:" + dev)
                else:
                    self.case("structure", "dataset", fmt, "measure-kept" if want == "Me_1" else "measure-renamed", sample=None)
        # per value and level
        devs = {}
        for lab, v in self.entries:
            devs[lab] = {l: deviation(d, exps[lab], tgt, fmt, sa_out[l].get(lab), rn_out[l][lab]) for l in live}
        # a deviation seen inside a packed run is confirmed on a run of that value alone
        records = []      # (label, deviation, levels)
        if len(pack) > 1:
            for level in live:
                suspects = [e for e in pack if devs[e[0]][level] is not None]
                for e in suspects:
                    lab = e[0]
                    sa1 = self.rl(level, fmt, [e], sa=True)[1][lab] if level == "scalar" else sa_out[level].get(lab)
                    rn1 = self.rl(level, fmt, [e])[1][lab]
                    d1 = deviation(d, exps[lab], tgt, fmt, sa1, rn1)
                    if d1 is None and pack_failed.get(level) is None:
                        records.append((lab, devs[lab][level] + ":only-with-other-values-in-the-same-run", [level], rn_out[level][lab]))
                    sa_out[level][lab], rn_out[level][lab], devs[lab][level] = sa1, rn1, d1
                if pack_failed.get(level) is not None and suspects and all(devs[e[0]][level] is None for e in suspects):
                    o = pack_failed[level]
                    found["C09:value:%s->%s:several-values-in-one-run:%s%s" % (
                        src, tgt, "raw-error" if o[1] == "raw" else "rejected-but-docs-convert", _at([level], live))] = (
                        "cast %s -> %s at the %s level fails on the values %s together (%s) although every value converts alone"
                        % (src, tgt, level, [v for _, v in pack], _short(o)), [lab for lab, _ in pack])
        avail = {}
        for lab, v in self.entries:
            avail[lab] = [l for l in live if rn_out[l][lab][0] != "unavailable"]
            bykind = {}
            for l in avail[lab]:
                if devs[lab][l] is not None:
                    bykind.setdefault(devs[lab][l], []).append(l)
            for dv, ls in bykind.items():
                records.append((lab, dv, ls, None))
            if not bykind and len(avail[lab]) > 1:
                oks = [l for l in avail[lab] if rn_out[l][lab][0] == "ok"]
                if (oks and len(oks) != len(avail[lab])) or any(
                        not R.same_value(rn_out[oks[0]][lab][1], rn_out[l][lab][1], tgt) for l in oks[1:]):
                    records.append((lab, "levels-disagree", list(avail[lab]), None))
        self.report(fmt, found, exps, records, rn_out, live, avail, pack)
        flagged = {}
        for lab, dv, ls, _ in records:
            for l in ls:
                flagged.setdefault((lab, l), dv)
        for lab, v in self.entries:
            exp = exps[lab]
            for l in live:
                o = rn_out[l][lab]
                if o[0] == "unavailable":
                    self.case(exp.vclass, l, fmt, "scalar-source-literal-unavailable", nontrivial=False)
                    continue
                dv = flagged.get((lab, l))
                if dv:
                    oc = "VIOLATION:" + dv.split(":")[0]
                elif o[0] == "ok":
                    oc = "converts-as-documented" if exp.kind == "value" else "undocumented:value-in-target-domain"
                else:
                    oc = "rejected-as-documented" if exp.kind == "error" else "undocumented:vtl-error"
                self.case(exp.vclass, l, fmt, oc, sample={"pair": "%s->%s" % (src, tgt), "value": v, "level": l, "format": fmt,
                                                           "script": script_for(l, src, tgt, [(lab, v)]), "documented": exp.doc,
                                                           "expected": exp.shown if exp.kind == "value" else exp.kind,
                                                           "observed": _short(o)})

    def describe(self, fmt, exp, lab, rn_out, live):
        v = self.values[lab]
        head = "cast of the %s value %r to %s%s" % (self.src, v, self.tgt, " (time_period_output_format=%s)" % fmt if fmt != "vtl" else "")
        obs = "; ".join("%s [%s]: %s" % (l, script_for(l, self.src, self.tgt, [(lab, v)]).split("\n")[-1], _short(rn_out[l][lab])) for l in live)
        doc = "docs/data_types.rst: %s" % exp.doc + (
            " -> expected %r" % (exp.shown,) if exp.kind == "value" else
            (" -> expected a RunTimeError" if exp.kind == "error" else
             " -> expected a VTL error or a value of the %s domain, the same at every level" % self.tgt))
        return "%s: observed %s; %s" % (head, obs, doc)

    def report(self, fmt, found, exps, records, rn_out, live, avail, pack):
        """one finding per (value class, kind of deviation); classes are merged when the whole pool deviates alike"""
        src, tgt = self.src, self.tgt
        order = {lab: i for i, (lab, _) in enumerate(self.entries)}
        groups = {}
        for lab, dv, ls, _ in sorted(records, key=lambda r: (order[r[0]], r[1])):
            g = groups.setdefault((exps[lab].vclass, dv), {"labels": [], "levels": set(), "avail": set()})
            if lab not in g["labels"]:
                g["labels"].append(lab)
            g["levels"].update(ls)
        for (vc, dv), g in groups.items():
            for lab, _ in self.entries:       # levels at which the class was observable at all
                if exps[lab].vclass == vc:
                    g["avail"].update(avail[lab])
            g["at"] = _at(g["levels"], g["avail"])
            g["replay"] = [l for l, _ in pack] if "only-with-other-values" in dv else list(g["labels"])
        crisp = [lab for lab, v in self.entries if v is not None and exps[lab].kind == "value"]
        if self.full and len(crisp) >= 2:
            per_label = {}
            for lab, dv, ls, _ in records:
                per_label.setdefault(lab, {}).update({l: dv for l in ls})
            dead = all(avail[lab] and all(l in per_label.get(lab, {}) for l in avail[lab]) for lab in crisp)
            shapes = set((dv, g["at"]) for (vc, dv), g in groups.items() if any(lab in crisp for lab in g["labels"]))
            if dead and len(shapes) > 1:
                # nothing converts as documented and the levels fail differently: one finding for the pair
                ex = [crisp[0]] + [lab for lab in crisp[1:] if exps[lab].vclass != exps[crisp[0]].vclass][:1]
                found["C09:pair:%s->%s:no-value-converts-as-documented" % (src, tgt)] = (
                    "cast from %s to %s is accepted but no non-null value of the pool converts as documented at any level (%s); e.g. %s"
                    % (src, tgt, ", ".join(sorted("%s%s" % (dv, at.replace(":at=", " at ")) for dv, at in shapes)),
                       " || ".join(self.describe(fmt, exps[lab], lab, rn_out, live) for lab in ex)), None)
                return
            crisp_classes = set(exps[lab].vclass for lab in crisp)
            by_shape = {}
            for (vc, dv), g in groups.items():
                by_shape.setdefault((dv, g["at"]), set()).add(vc)
            for (dv, at), vcs in by_shape.items():
                if len(crisp_classes) >= 2 and crisp_classes <= vcs:
                    first = min((lab for vc in crisp_classes for lab in groups[(vc, dv)]["labels"]), key=lambda x: order[x])
                    found["C09:value:%s->%s:every-value:%s%s" % (src, tgt, dv, at)] = (
                        "every non-null value of the pool; e.g. " + self.describe(fmt, exps[first], first, rn_out, live), None)
                    for vc in crisp_classes:
                        del groups[(vc, dv)]
        for (vc, dv), g in groups.items():
            nlev = {}
            for l2, dv2, ls2, _ in records:
                if dv2 == dv and l2 in g["labels"]:
                    nlev[l2] = max(nlev.get(l2, 0), len(ls2))
            lab = max(g["labels"], key=lambda x: (nlev.get(x, 0), -order[x]))   # the value showing it at most levels
            found["C09:value:%s->%s:%s:%s%s" % (src, tgt, vc, dv, g["at"])] = (self.describe(fmt, exps[lab], lab, rn_out, live), g["replay"])


def judge_mask(V, d, src, tgt):
    """-> (cases, violations) for cast(<src value>, tgt, MASK) at the three levels"""
    cases, found = [], {}
    st = R.mask_status(d, src, tgt)
    entry = [("m", MASK_VALUE[src])]
    bad_ok, bad_raw = {}, {}
    for level in LEVELS:
        sa = run_level(V, d, level, src, tgt, "vtl", entry, sa=True, mask=MASK)[0]
        rn = run_level(V, d, level, src, tgt, "vtl", entry, mask=MASK)[0]
        oc = None
        for name, o in (("semantic_analysis()", sa), ("run()", rn)):
            if o[0] == "ok":
                bad_ok.setdefault(level, []).append(name + " returns a result")
                oc = "VIOLATION:mask-ignored"
            elif o[1] == "raw" and o[2] != d["mask_exception"]:
                bad_raw.setdefault(level, []).append("%s raises %s" % (name, _short(o)))
                oc = oc or "VIOLATION:raw-error"
            else:
                oc = oc or ("documented-" + o[2] if o[1] == "raw" else "vtl-error-" + o[2])
        cases.append(((src, tgt, "mask", level, "table:" + st, oc), "mask:" + oc, True,
                      {"pair": "%s->%s" % (src, tgt), "level": level, "script": script_for(level, src, tgt, entry, MASK),
                       "mask_table": st, "observed": "semantic_analysis: %s; run: %s" % (_short(sa), _short(rn))}))
    if bad_ok:
        found["C09:mask:%s->%s:mask-ignored-result-returned%s" % (src, tgt, _at(bad_ok, LEVELS))] = (
            "cast from %s to %s with the mask %r: the document says casts with a mask are not implemented (%s for the pending "
            "conversions) but %s" % (src, tgt, MASK, d["mask_exception"], "; ".join("%s: %s" % (l, ", ".join(x)) for l, x in bad_ok.items())), None)
    if bad_raw:
        found["C09:mask:%s->%s:raw-error%s" % (src, tgt, _at(bad_raw, LEVELS))] = (
            "cast from %s to %s with the mask %r raises a raw error (documented: %s or a VTL error): %s"
            % (src, tgt, MASK, d["mask_exception"], "; ".join("%s: %s" % (l, ", ".join(x)) for l, x in bad_raw.items())), None)
    return cases, found


# ---------------------------------------------------------------------------------------------------------
# work items
# ---------------------------------------------------------------------------------------------------------

def work(item, rec):
    V = harness.boot()
    d = docs()
    if item[0] == "pair":
        _, src, tgt, formats, labels = item
        j = PairJudge(V, d, src, tgt, list(formats), labels=labels).judge()
        for key, oc, nt, sample in j.cases:
            rec.case(key, oc, nontrivial=nt, sample=sample if oc.startswith("VIOLATION") or key[2] not in ("null", "any-value") else None)
        rec.count("api_calls", j.calls)
        rec.count("pairs_" + j.status)
        for key, (what, labs) in sorted(j.violations.items()):
            rec.violation(key, what, {"kind": "pair", "src": src, "tgt": tgt, "formats": list(formats), "key": key,
                                      "values": None if labs is None else [j.values[l] for l in labs]})
    else:
        _, src = item
        for tgt in R.TYPES:
            cases, found = judge_mask(V, d, src, tgt)
            for key, oc, nt, sample in cases:
                rec.case(key, oc, nontrivial=nt, sample=None)
            rec.count("api_calls", 6)
            for key, what in sorted(found.items()):
                rec.violation(key, what[0], {"kind": "mask", "src": src, "tgt": tgt, "key": key})


# ---------------------------------------------------------------------------------------------------------
# several casts in one script: the result of a cast must not depend on the other statements of the script
# ---------------------------------------------------------------------------------------------------------

MULTI_MEASURES = [
    ("M_int", "Integer", [1, 0, -4]), ("M_num", "Number", [1.5, 0.0, -3.75]), ("M_bool", "Boolean", [True, False, True]),
    ("M_date", "Date", ["2020-01-15", "2021-02-03", "1999-12-31"]), ("M_tp", "Time_Period", ["2020Q1", "2020M2", "2020"]),
    ("M_time", "Time", ["2020-01-01/2020-12-31", "2020-01-01/2020-03-31", "2020-01-15/2020-01-15"]),
    ("M_dur", "Duration", ["A", "M", "D"]), ("M_str", "String", ["3", "-4", "15"]),
    ("M_strdate", "String", ["2020-01-15", "2021-02-03", "1999-12-31"]), ("M_strtp", "String", ["2020Q1", "2020M2", "2020"]),
    ("M_strbool", "String", ["true", "false", "true"]), ("M_strdur", "String", ["A", "M", "D"]),
]


def multi_dataset():
    from vtlmc.refbase import DS, ID, ME
    rows = [dict({"Id_1": i + 1}, **{n: vals[i] for n, _, vals in MULTI_MEASURES}) for i in range(3)]
    return DS("DS_1", [("Id_1", "Integer", ID)] + [(n, t, ME) for n, t, _ in MULTI_MEASURES], rows)


def _multi_outcome(out, name):
    if out[0] != "ok":
        return ("err", out[2], out[3])
    ds = out[1].get(name)
    if ds is None:
        return ("err", "MissingResult", None)
    rows = harness.dataset_rows(ds) or []
    cols = sorted(c for c in (rows[0] if rows else {}) if c != "Id_1")
    return ("ok", tuple(sorted((r.get("Id_1"),) + tuple(repr(harness.canon_value(r.get(c))) for c in cols) for r in rows)),
            tuple(sorted((c.name, getattr(c.data_type, "__name__", str(c.data_type))) for c in ds.components.values())))


def multi_cast_item(item, rec):
    """item = list of ((measure, target keyword), (measure2, target2)) ordered pairs; each statement's result in the
    two-statement script must equal its result when it is the only statement"""
    from vtlmc import refbase
    harness.boot()
    ds = multi_dataset()
    alone = {}

    def run_alone(m, kw):
        if (m, kw) not in alone:
            alone[(m, kw)] = _multi_outcome(refbase.run("R_1 <- cast(DS_1#%s, %s);" % (m, kw), [ds]), "R_1")
        return alone[(m, kw)]
    for (m1, k1), (m2, k2) in item:
        a1, a2 = run_alone(m1, k1), run_alone(m2, k2)
        if a1[0] != "ok" or a2[0] != "ok":
            # a script with a statement that fails alone fails as a whole: nothing to compare (a first version of this
            # space compared anyway and raised 64 false alarms on the unchanged tree; corrected, see DESIGN 10.1)
            rec.case(("multi-cast", m1, k1, m2, k2, "partner-fails-alone"), "not-applicable", nontrivial=False)
            continue
        script = "R_1 <- cast(DS_1#%s, %s);\nR_2 <- cast(DS_1#%s, %s);" % (m1, k1, m2, k2)
        out = refbase.run(script, [ds])
        for name, a, (m, kw), other in (("R_1", a1, (m1, k1), (m2, k2)), ("R_2", a2, (m2, k2), (m1, k1))):
            if a[0] != "ok":
                continue           # only conversions that work alone are judged here (the rest is the pair space's business)
            got = _multi_outcome(out, name)
            same = got == a
            rec.case(("multi-cast", m, kw, "first" if name == "R_1" else "second", same), "same-as-alone" if same else "differs-from-alone",
                     sample={"script": script} if name == "R_2" else None)
            if not same:
                stype = dict((n, t) for n, t, _ in MULTI_MEASURES)[m]
                rec.violation("C09:several-casts-in-one-script:%s->%s:%s-statement:differs-from-the-cast-alone" % (stype, kw, "first" if name == "R_1" else "second"),
                              "script %r: result %s of cast(DS_1#%s, %s) is %s, the same statement alone gives %s" % (
                                  script.replace("\n", " "), name, m, kw, str(got)[:200], str(a)[:200]),
                              {"kind": "multi", "pair": [[m1, k1], [m2, k2]]})


class Check:
    ID = "C09"
    LEVEL = "exploration"
    RULE = ("one case = (source type, target type, value of the source pool, level in {scalar literal expression, component in "
            "calc, mono-measure dataset}[, time_period_output_format]) executed through run() and semantic_analysis(), plus every "
            "pair once per level with a mask; all 64 pairs x the whole pool x 3 levels are enumerated (values expected to convert "
            "share one run per level, one row / statement per value; every other value and every suspected deviation is run alone). "
            "distinct = (source, target, documented value class, level, outcome class); for a pair the documented table forbids the "
            "value cannot matter, so only its first value counts as non-trivial. Plus: every ordered pair of dataset-level casts of two "
            "different measures of one 12-measure dataset in one script (quick: partners = the next two measures), each result "
            "compared with the same statement alone.")
    ASSUMPTIONS = [
        "oracle = docs/data_types.rst parsed at run time; the reference rules reproduce every worked example of the document "
        "(calibration failure = tooling error, exit 2)",
        "a pair is forbidden when BOTH the explicit and the implicit table say '—'; Date->Time and Time_Period->Time ('—' in the "
        "explicit table, yes in the implicit one, and the dataset-cast note presupposes casts along implicit promotions) are treated "
        "as ambiguous: either a SemanticError at every level, or the conversion of the implicit 'Key rules'",
        "'runtime error for values that cannot be converted' is read as: any catalogued VTL exception (RunTimeError, "
        "InputValidationException, ...), never a raw duckdb / Python exception and never a value",
        "where the document is silent only 'VTL error, or a value of the documented domain of the target type, identical at the three "
        "levels' is required: fractional Number -> Integer; '3.0', '1e5', ' 3 ' -> Integer/Number ('1e5', ' 3 '); year-led strings that "
        "are not a plain date / documented in-range period spelling / interval -> Date / Time_Period / Time; reversed intervals; ISO 8601 "
        "duration codes -> Duration; a Date with a time component -> String / Time_Period / Time; weekly Time_Period -> Time; periods an "
        "output format marks 'Not supported'; zero padding the format table does not show (2020-D015 vs 2020-D15, W1 vs W01)",
        "Integer/Number -> String: any numeric string equal to the source value; Time_Period -> String: any documented spelling of the same "
        "period; identity casts return the same value in the documented output representation; null casts to null",
        "strings that do not even start with a 4-digit year cannot denote a Date / Time_Period / Time; strings other than the six letters "
        "and P<n>Y|M|W|D cannot denote a Duration: a VTL error is required",
        "scalar level of Date / Time_Period / Time / Duration and of null: the source literal is cast(\"<text>\", <source type>) / "
        "cast(null, <source type>); when that inner cast alone does not yield the source value the scalar case is skipped (it is reported "
        "under the String -> source pair)",
        "with a mask: the documented NotImplementedError or any VTL error is accepted for every pair; a returned result is a violation",
        "the empty string and NaN / infinity are not in the pools (their null-ness / representation is examined by C18 / C19 / C30)",
    ]

    def run(self, tier, seed, rec):
        harness.boot()
        try:
            d = docs()
        except R.DocsError as e:
            rec.tool_error("cannot parse the cast documentation: %s" % e)
            return {"exhaustive": False}
        problems, n_examples = R.calibrate(d)
        for p in problems:
            rec.tool_error("oracle not calibrated against docs/data_types.rst: " + p)
        if problems:
            return {"exhaustive": False}
        items = []
        for src in R.TYPES:
            for tgt in R.TYPES:
                fm = ("vtl",)
                if tier == "thorough" and renders_periods(src, tgt) and R.pair_status(d, src, tgt) != "forbidden":
                    fm = tuple(R.FORMATS)
                items.append(("pair", src, tgt, fm, None))
            items.append(("mask", src))
        status = {s: sum(1 for a in R.TYPES for b in R.TYPES if R.pair_status(d, a, b) == s) for s in ("allowed", "ambiguous", "forbidden")}
        if not status["allowed"] or not status["forbidden"]:
            rec.tool_error("degenerate documented table: %s" % status)
        # the seed only permutes the order; the heaviest items (String source: biggest pool) are started first
        items = harness.seeded_order(items, seed)
        items.sort(key=lambda it: 0 if (it[0] == "pair" and it[1] == "String") else 1)
        harness.pmap(work, items, rec)
        kws = [R.KEYWORD[t] for t in R.TYPES]
        sts = [(m, kw) for m, _, _ in MULTI_MEASURES for kw in kws]
        pairs = [(a, b) for a in sts for b in sts if a[0] != b[0]]
        if tier == "quick":      # quick: every statement once in each position, partner = every target of the next two measures
            names = [m for m, _, _ in MULTI_MEASURES]
            pairs = [(a, b) for a, b in pairs if (names.index(b[0]) - names.index(a[0])) % len(names) in (1, 2)]
        pairs = harness.seeded_order(pairs, seed)
        harness.pmap(multi_cast_item, list(harness.chunks(pairs, 40)), rec)
        if not rec.outcomes.get("converts-as-documented") or not rec.outcomes.get("rejected-as-documented") \
                or not rec.outcomes.get("forbidden-pair:rejected-SemanticError"):
            rec.tool_error("non-vacuity: no conversion / no rejection / no forbidden pair was verified: %s" % rec.outcomes)
        return {"exhaustive": True, "pairs": 64, "documented_pairs": status,
                "pool_sizes": {t: len(R.pool(d, t)) for t in R.TYPES},
                "formats": list(R.FORMATS) if tier == "thorough" else ["vtl"],
                "docs_examples_reproduced_by_reference": n_examples}

    def replay(self, data):
        V = harness.boot()
        d = docs()
        if data["kind"] == "multi":
            r2 = harness.Recorder()
            multi_cast_item([tuple(tuple(x) for x in data["pair"])], r2)
            return bool(r2.violations)
        if data["kind"] == "mask":
            _, found = judge_mask(V, d, data["src"], data["tgt"])
            return data["key"] in found
        labels = data.get("labels")
        if data.get("values") is not None:      # values of the source pool to re-judge (None = the whole pool)
            labels = [lab for lab, v in R.pool(d, data["src"]) if any(v is w or (type(v) is type(w) and v == w) for w in data["values"])]
        j = PairJudge(V, d, data["src"], data["tgt"], list(data["formats"]), labels=labels).judge()
        for k, (what, _) in sorted(j.violations.items()):
            print("   replayed: %s :: %s" % (k, what[:300]))
        return data["key"] in j.violations

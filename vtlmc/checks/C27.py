"""C27 — SDMX structures map to VTL structures as documented.

Bounded exhaustive enumeration of pysdmx structures, each one pushed through the real engine, with the
role / nullability / type tables of ``docs/data_structures.rst`` (parsed from the .rst at run time) as oracle.

Spaces (all complete within their bound, VERIF_SEED only permutes the walk):

* A  — every member of the installed ``pysdmx.model.DataType`` x every ``Role`` as the single varying
       component (data type given locally / through the concept / not at all / concept only referenced;
       attribute attached to the observation / the dataset), alone and inside a fixed
       [String dimension, Decimal measure] context.  thorough: every container x every entry point;
       quick: alone -> every entry point on the Schema + to_vtl_json on the other containers,
       in context -> to_vtl_json on every container + semantic_analysis on the Schema.
* Bf — every multiset of n (role, representative type) components, one representative SDMX type per VTL type
       named by the documentation (8 x 3 = 24 kinds of component).  ``to_vtl_json`` through every container;
       n <= 3 quick, n <= 5 thorough (thorough also ``semantic_analysis`` for n <= 3).
* Br — every composition of {D, M, A} of size n (in canonical and reversed component order) x the 8 cyclic
       rotations of the representative types.  Every container x every entry point; n <= 3 quick, <= 5 thorough.
* C  — containers without a usable structure (Dataflow without DSD, Dataflow with a DSD reference,
       PandasDataset whose structure is not a Schema) x every entry point.

Containers: Schema, DataStructureDefinition, Dataflow with embedded DSD.  Entry points: ``to_vtl_json``,
``semantic_analysis``, ``run``, ``run_sdmx`` (PandasDataset, with and without an explicit mapping).

Oracle: one VTL component per SDMX component, role / nullable from the role table, type from the type table;
a component whose role or data type has no cell in the tables is "not mappable" and the structure must be
rejected with an InputValidationException.  For semantic_analysis / run / run_sdmx the same script is also
executed on the *documented* VTL JSON structure (control): an error that the control reproduces identically
is not attributed to the SDMX mapping.
"""
import itertools
import os
import re

from vtlmc import harness

SCRIPT = "DS_r <- DS_1;"
DS = "DS_1"
ROLES = ("DIMENSION", "MEASURE", "ATTRIBUTE")
PREFIX = {"DIMENSION": "DIM", "MEASURE": "MEAS", "ATTRIBUTE": "ATT"}
CONTAINERS = ("Schema", "DataStructureDefinition", "Dataflow")
ENTRIES = ("to_vtl_json", "semantic_analysis", "run", "run_sdmx", "run_sdmx_mapped")
SCHEMA_ONLY = ("run_sdmx", "run_sdmx_mapped")
# class name used by the engine for a VTL JSON type name (only the two that differ)
TYPE_ALIAS = {"TimePeriod": "Time_Period", "TimeInterval": "Time"}
# two distinct valid values per VTL type (the second row carries nulls in every non-identifier)
VALUES = {"String": ["a", "b"], "Integer": [1, 2], "Number": [1.5, 2.5], "Boolean": [True, False],
          "Date": ["2020-01-01", "2021-02-03"], "Time_Period": ["2020Q1", "2021Q2"],
          "Time": ["2020-01-01/2020-12-31", "2021-01-01/2021-12-31"], "Duration": ["A", "M"]}


# values that are valid for the documented VTL type *and* for the Arrow dtype pysdmx casts the column to
# when the frame is put into a PandasDataset (Month -> int8)
SDMX_VALUES = {"Month": ["1", "2"]}


# ------------------------------------------------------------------------------------------------
# O2: the documentation tables, parsed from the .rst
# ------------------------------------------------------------------------------------------------

def parse_list_tables(text):
    """-> list of tables; a table is a list of rows; a row is a list of cell strings"""
    lines = text.splitlines()
    tables, i = [], 0
    while i < len(lines):
        m = re.match(r"^(\s*)\.\. list-table::", lines[i])
        if not m:
            i += 1
            continue
        base = len(m.group(1))
        i += 1
        rows, cell = [], None
        while i < len(lines):
            ln = lines[i]
            if ln.strip() and len(ln) - len(ln.lstrip()) <= base:
                break
            s = ln.strip()
            i += 1
            if not s or re.match(r"^:[\w-]+:", s):
                continue
            if s.startswith("* - "):
                rows.append([s[4:].strip()])
                cell = True
            elif s.startswith("- ") and rows:
                rows[-1].append(s[2:].strip())
            elif rows and cell:
                rows[-1][-1] += " " + s
        tables.append(rows)
    return tables


def _unquote(s):
    return s.replace("`", "").strip()


def load_oracle(path=None):
    """-> dict(roles: SDMX role -> (VTL role, nullable), types: SDMX dtype -> VTL type, rows, problems)"""
    path = path or os.path.join(harness.REPO, "docs", "data_structures.rst")
    text = open(path, encoding="utf-8").read()
    roles, types, order, problems = {}, {}, [], []
    for rows in parse_list_tables(text):
        if not rows or not rows[0]:
            continue
        head = _unquote(rows[0][0]).lower()
        if head == "sdmx role":
            for r in rows[1:]:
                m = re.search(r"Role\.(\w+)", r[0])
                if not m or len(r) < 3:
                    problems.append("role table: unreadable row %r" % (r,))
                    continue
                nul = _unquote(r[2]).lower()
                if nul not in ("true", "false"):
                    problems.append("role table: nullable cell %r of %s" % (r[2], m.group(1)))
                    continue
                if m.group(1) in roles:
                    problems.append("role table: %s listed twice" % m.group(1))
                roles[m.group(1)] = (_unquote(r[1]), nul == "true")
        elif head == "sdmx data type":
            for r in rows[1:]:
                if len(r) < 2:
                    problems.append("type table: unreadable row %r" % (r,))
                    continue
                names = re.findall(r"``(\w+)``", r[0])
                mv = re.search(r"all\s+(\w+)\s+period\s+variants\s*\(([^)]*)\)", r[0])
                if mv:  # "ReportingTimePeriod and all reporting period variants (Year, Semester, ...)"
                    names += [mv.group(1).capitalize() + w.strip() for w in mv.group(2).split(",") if w.strip()]
                vt = re.findall(r"``(\w+)``", r[1])
                if not names or len(vt) != 1:
                    problems.append("type table: unreadable row %r" % (r,))
                    continue
                for n in names:
                    if n in types:
                        problems.append("type table: %s listed twice" % n)
                    types[n] = vt[0]
                order.append((vt[0], names))
    return {"roles": roles, "types": types, "rows": order, "problems": problems}


_ORACLE = None


def oracle():
    global _ORACLE
    if _ORACLE is None:
        _ORACLE = load_oracle()
    return _ORACLE


# ------------------------------------------------------------------------------------------------
# specs: a structure is a tuple of components (role, dtype value, source, attachment)
#   source: local = Component.local_dtype, concept = Concept.dtype, default = no data type anywhere,
#           ref = the concept is only an ItemReference (pysdmx documents String as the default type)
# ------------------------------------------------------------------------------------------------

def comp_name(i, role):
    return "%s_%d" % (PREFIX[role], i + 1)


def effective_dtype(c):
    # "both": the concept carries another data type than the component's local representation; the local one wins (SDMX /
    # pysdmx Component.dtype), the concept's type is String, or Integer when the local type is String itself
    return c[1] if c[2] in ("local", "concept", "both") else "String"


def expected_of(spec):
    """-> (list of (name, vtl role, vtl type, nullable) | None, list of unmappable subjects)"""
    o = oracle()
    exp, unm = [], []
    for i, c in enumerate(spec):
        r = o["roles"].get(c[0])
        t = o["types"].get(effective_dtype(c))
        if r is None:
            unm.append("role:" + c[0])
        if t is None:
            unm.append("dtype:" + effective_dtype(c))
        if r is not None and t is not None:
            exp.append((comp_name(i, c[0]), r[0], t, r[1]))
    return (exp, []) if not unm else (None, sorted(set(unm)))


def build_components(spec):
    from pysdmx.model import Concept, DataType, ItemReference
    from pysdmx.model.dataflow import Component, Components, Role
    out = []
    for i, (role, dt, src, att) in enumerate(spec):
        name = comp_name(i, role)
        kw = {}
        if src == "local":
            concept = Concept(id=name)
            kw["local_dtype"] = DataType(dt)
        elif src == "concept":
            concept = Concept(id=name, dtype=DataType(dt))
        elif src == "both":
            concept = Concept(id=name, dtype=DataType("Integer" if dt == "String" else "String"))
            kw["local_dtype"] = DataType(dt)
        elif src == "default":
            concept = Concept(id=name)
        else:
            concept = ItemReference(sdmx_type="Concept", agency="MD", id="CS", version="1.0", item_id=name)
        if role == "ATTRIBUTE":
            kw["attachment_level"] = att or "O"
        out.append(Component(id=name, required=(role == "DIMENSION"), role=Role[role], concept=concept, **kw))
    return Components(out)


def build_container(kind, spec):
    from pysdmx.model.dataflow import Dataflow, DataStructureDefinition, Schema
    if kind == "Schema":
        return Schema(id=DS, components=build_components(spec), agency="MD", context="datastructure")
    if kind == "DataStructureDefinition":
        return DataStructureDefinition(id=DS, agency="MD", components=build_components(spec))
    if kind == "Dataflow":  # the documentation says the Dataflow's id names the dataset, not the DSD's
        return Dataflow(id=DS, agency="MD", structure=DataStructureDefinition(id="DSD_X", agency="MD", components=build_components(spec)))
    if kind == "Dataflow-without-DSD":
        return Dataflow(id=DS, agency="MD")
    if kind == "Dataflow-with-DSD-reference":
        return Dataflow(id=DS, agency="MD", structure="urn:sdmx:org.sdmx.infomodel.datastructure.DataStructure=MD:DSD_X(1.0)")
    raise ValueError(kind)


def build_frame(spec):
    """two rows (one if there is no dimension); the second row is null in every non-dimension"""
    import pandas as pd
    o = oracle()
    nrows = 2 if any(c[0] == "DIMENSION" for c in spec) else 1
    cols = {}
    for i, c in enumerate(spec):
        vals = SDMX_VALUES.get(effective_dtype(c)) or VALUES.get(o["types"].get(effective_dtype(c)), VALUES["String"])
        col = [vals[0]] if nrows == 1 else [vals[0], vals[1] if c[0] == "DIMENSION" else None]
        cols[comp_name(i, c[0])] = pd.Series(col, dtype=object)
    return pd.DataFrame(cols)


def control_json(exp):
    return {"datasets": [{"name": DS, "DataStructure": [
        {"name": n, "role": r, "type": t, "nullable": nul} for n, r, t, nul in exp]}]}


def spec_label(spec):
    return ",".join("%s:%s%s" % (c[0][0], c[1], "" if c[2] == "local" else "/" + c[2]) + ("@" + c[3] if c[3] not in (None, "O") else "")
                    for c in spec)


# ------------------------------------------------------------------------------------------------
# executing one (container, entry point, structure) and reducing the outcome
# ------------------------------------------------------------------------------------------------

def _reduce(entry, out):
    """-> ('ok', [(name, role, json type name, nullable)...] | None, rows | None) | ('err', kind, cls, code, msg)"""
    if out[0] == "err":
        return out
    res = out[1]
    try:
        if entry == "to_vtl_json":
            dss = res["datasets"]
            if not isinstance(dss, list) or len(dss) != 1:
                return ("ok", None, None)
            return ("ok", [(c["name"], c["role"], c["type"], c["nullable"]) for c in dss[0]["DataStructure"]], None)
        ds = res.get("DS_r")
        if ds is None:
            return ("ok", None, None)
        comps = [(n, r, TYPE_ALIAS.get(t, t), nul) for n, r, t, nul in harness.canon_components(ds)]
        rows = harness.canon_dataset(ds)["rows"] if entry != "semantic_analysis" else None
        return ("ok", comps, rows)
    except Exception:  # noqa: BLE001  (shape of the result is not what the API documents)
        return ("ok", None, None)


def pandas_dataset(obj, spec):
    """the PandasDataset a pysdmx user holds: pysdmx itself casts the frame to the Schema's Arrow dtypes on
    construction -> ('ok', dataset) | ('skip', reason) when pysdmx refuses the input before the engine is called"""
    from pysdmx.io.pd import PandasDataset
    try:
        return ("ok", PandasDataset(structure=obj, data=build_frame(spec)))
    except Exception as e:  # noqa: BLE001  (pysdmx.errors.Invalid: not an engine outcome)
        return ("skip", "%s: %s" % (type(e).__name__, str(e)[:200]))


def execute(kind, entry, spec):
    harness.boot()
    from vtlengine import run, run_sdmx, semantic_analysis
    from vtlengine.files.sdmx_handler import to_vtl_json
    obj = build_container(kind, spec)
    if entry == "to_vtl_json":
        out = harness.call(to_vtl_json, obj)
    elif entry == "semantic_analysis":
        out = harness.call(semantic_analysis, script=SCRIPT, data_structures=obj)
    elif entry == "run":
        out = harness.call(run, script=SCRIPT, data_structures=obj, datapoints={DS: build_frame(spec)})
    elif entry in SCHEMA_ONLY:
        pds = pandas_dataset(obj, spec)
        if pds[0] == "skip":
            return pds
        if entry == "run_sdmx":
            out = harness.call(run_sdmx, SCRIPT, [pds[1]])
        else:
            urn = getattr(obj, "short_urn", None) or "DataStructure=MD:%s(1.0)" % DS
            out = harness.call(run_sdmx, SCRIPT, [pds[1]], mappings={urn: DS})
    else:
        raise ValueError(entry)
    return _reduce(entry, out)


_CONTROL = {}


def control(entry, spec, exp):
    """the same script on the documented VTL JSON structure, with the very frame the entry point received
    (run_sdmx: the frame as cast by pysdmx for this Schema)"""
    if entry == "semantic_analysis":
        k, frame = ("semantic_analysis", tuple(exp)), None
    elif entry == "run":
        frame = build_frame(spec)
        k = ("run", tuple(exp), repr(frame.to_dict("list")))
    else:
        pds = pandas_dataset(build_container("Schema", spec), spec)
        if pds[0] == "skip":
            return pds
        frame = pds[1].data
        k = ("run_sdmx", tuple(exp), repr(frame.to_dict("list")), tuple(str(t) for t in frame.dtypes))
    if k not in _CONTROL:
        harness.boot()
        from vtlengine import run, semantic_analysis
        if frame is None:
            out = harness.call(semantic_analysis, script=SCRIPT, data_structures=control_json(exp))
        else:
            out = harness.call(run, script=SCRIPT, data_structures=control_json(exp), datapoints={DS: frame})
        _CONTROL[k] = _reduce(k[0] if k[0] != "run_sdmx" else "run", out)
    return _CONTROL[k]


def compare(spec, exp, comps):
    """component-level deviations: [(kind, component index | None, observed, expected)]"""
    sigs = []
    names = [c[0] for c in comps]
    for i, (n, r, t, nul) in enumerate(exp):
        k = names.count(n)
        if k == 0:
            sigs.append(("missing-component", i, None, n))
            continue
        if k > 1:
            sigs.append(("duplicate-component", i, k, 1))
        got = comps[names.index(n)]
        if got[1] != r:
            sigs.append(("wrong-role", i, got[1], r))
        if got[2] != t:
            sigs.append(("wrong-type", i, got[2], t))
        if got[3] is not nul:
            sigs.append(("wrong-nullable", i, got[3], nul))
    extra = sorted(set(names) - {e[0] for e in exp})
    if extra:
        sigs.append(("extra-component", None, len(extra), 0))
    return sigs


_OBS = {}


def observe(kind, entry, spec):
    """-> (outcome class, [deviation signature...], reduced result, control-agreement flag)"""
    key = (kind, entry, spec)
    if key in _OBS:
        return _OBS[key]
    exp, unm = expected_of(spec)
    red = execute(kind, entry, spec)
    sigs, agree = [], None
    if red[0] == "skip":
        outcome = "input-refused-by-pysdmx"
    elif red[0] == "err":
        _, ekind, cls, code, _msg = red
        if ekind == "raw":
            if exp is not None and entry != "to_vtl_json" and control(entry, spec, exp)[:4] == red[:4]:
                outcome, agree = "raw-error-also-on-documented-vtl-json", True
            else:
                outcome = "raw-error"
                sigs.append(("raw-error:" + cls, None, cls, "InputValidationException" if exp is None else "mapped"))
        elif exp is None:
            if cls == "InputValidationException":
                outcome = "rejected-unmappable"
            else:
                outcome = "rejected-unmappable-wrong-class"
                sigs.append(("wrong-error-class:" + cls, None, cls, "InputValidationException"))
        else:
            if entry != "to_vtl_json" and control(entry, spec, exp)[:4] == red[:4]:
                outcome, agree = "vtl-error-also-on-documented-vtl-json", True
            else:
                outcome = "rejected-mappable"
                sigs.append(("rejected-mappable:%s%s" % (cls, ":" + code if code else ""), None, cls, "mapped"))
    else:
        comps, rows = red[1], red[2]
        if comps is None:
            outcome = "malformed-output"
            sigs.append(("malformed-output", None, None, None))
        elif exp is None:
            outcome = "accepted-unmappable"
            got = {c[0]: c[2] for c in comps}
            shown = [got.get(comp_name(i, c[0]), "?") for i, c in enumerate(spec)
                     if "dtype:" + effective_dtype(c) in unm or "role:" + c[0] in unm]
            sigs.append(("undocumented-mapping:" + "+".join(sorted(set(shown))), None, shown, "InputValidationException"))
        else:
            sigs = compare(spec, exp, comps)
            outcome = "mapped-as-documented" if not sigs else "mapped-differently"
            if entry != "to_vtl_json":
                ctl = control(entry, spec, exp)
                if ctl[0] != "ok":
                    agree = False
                    sigs.append(("accepted-but-documented-vtl-json-rejected", None, "ok", ctl[2]))
                    outcome = "differs-from-control"
                elif entry != "semantic_analysis" and not harness.rows_equal(rows, ctl[2]):
                    agree = False
                    sigs.append(("result-differs-from-documented-vtl-json", None, rows, ctl[2]))
                    outcome = "differs-from-control"
                else:
                    agree = True
    _OBS[key] = (outcome, sigs, red, agree)
    return _OBS[key]


# ------------------------------------------------------------------------------------------------
# finding keys: scope (is the deviation specific to a container / an entry point?) + subject (which
# role / data type / shape) + kind
# ------------------------------------------------------------------------------------------------

BASELINE = (("DIMENSION", "String", "local", None),)


def _has(kind, entry, spec, sig):
    return any(s[:2] == sig[:2] and s[2] == sig[2] for s in observe(kind, entry, spec)[1])


def _has_kind(kind, entry, spec, sig):
    return any(s[0] == sig[0] for s in observe(kind, entry, spec)[1])


def scope_of(kind, entry, spec, sig):
    """the most general (container, entry point) at which the same deviation already shows, walking the entry
    points from to_vtl_json upwards and trying the Schema before the container at hand
    -> (scope suffix of the key, container to probe with, entry to probe with)"""
    for e2 in ENTRIES[:ENTRIES.index(entry) + 1]:
        for k2 in (("Schema",) if kind == "Schema" else ("Schema", kind)):
            if (k2, e2) != (kind, entry) and not _has(k2, e2, spec, sig):
                continue
            if e2 == "to_vtl_json":
                return ("" if k2 == "Schema" else "@" + k2), k2, e2
            return ("@" + e2 if k2 == "Schema" else "@%s+%s" % (k2, e2)), k2, e2
    return "@%s+%s" % (kind, entry), kind, entry


def subjects_of(kind, entry, spec, sig):
    """-> list of (construct, equivalence class) the deviation is attributed to"""
    exp, unm = expected_of(spec)
    if sig[1] is not None:  # component-level
        c = spec[sig[1]]
        return [("dtype", effective_dtype(c))] if sig[0] == "wrong-type" else [("role", c[0])]
    if sig[0] == "extra-component":
        return [("structure", "any")]
    if exp is None:
        return [tuple(u.split(":", 1)) for u in unm]
    # an error on a mappable structure: does everything fail, or which single component reproduces it?
    if _has_kind(kind, entry, BASELINE, sig):
        return [("structure", "any")]
    out = []
    for c in sorted(set(spec), key=repr):
        if not _has_kind(kind, entry, (c,), sig):
            continue
        if _has_kind(kind, entry, ((c[0], "String", "local", None),), sig):
            out.append(("role", c[0]))
        elif c[0] == "DIMENSION" or _has_kind(kind, entry, (("DIMENSION", c[1], c[2], None),), sig):
            out.append(("dtype", effective_dtype(c)))
        else:
            out.append(("component", "%s-of-type-%s" % (c[0], effective_dtype(c))))
    if not out:
        n = {r: sum(1 for c in spec if c[0] == r) for r in ROLES}
        out = [("structure", "D%dM%dA%d" % (n["DIMENSION"], n["MEASURE"], n["ATTRIBUTE"]))]
    return sorted(set(out))


def findings(kind, entry, spec):
    """-> [(finding key, sentence)] for one executed case"""
    outcome, sigs, red, _ = observe(kind, entry, spec)
    res = []
    for sig in sigs:
        if sig[1] is None and entry != "to_vtl_json" and expected_of(spec)[0] is not None and any(
                x[1] is not None for k2 in {"Schema", kind} for x in observe(k2, "to_vtl_json", spec)[1]):
            # the structure handed to the engine already deviates from the documentation (reported under the
            # component's own key by the to_vtl_json case of the same unit): an error / different result of
            # the heavier entry point on that structure is its consequence, not another defect
            continue
        suffix, pk, pe = scope_of(kind, entry, spec, sig)
        for construct, cls in subjects_of(pk, pe, spec, sig):
            if sig[1] is not None and sig[0] in ("wrong-type", "wrong-role", "wrong-nullable"):
                kindtxt = "%s:%s-not-%s" % (sig[0], str(sig[2]).lower() if isinstance(sig[2], bool) else sig[2],
                                            str(sig[3]).lower() if isinstance(sig[3], bool) else sig[3])
            else:
                kindtxt = sig[0]
            key = "C27:%s:%s%s:%s" % (construct, cls, suffix, kindtxt)
            res.append((key, describe(kind, entry, spec, sig, red)))
    return res


def describe(kind, entry, spec, sig, red):
    exp, unm = expected_of(spec)
    head = "%s(%s[%s])" % (entry, kind, spec_label(spec))
    if red[0] == "err":
        seen = "raised %s %s%s: %s" % ("raw" if red[1] == "raw" else "VTL", red[2], "(%s)" % red[3] if red[3] else "", red[4][:160])
    else:
        seen = "returned components %s" % (red[1],)
    if exp is None:
        want = ("%s has no cell in the tables of docs/data_structures.rst, so the structure must be rejected with an "
                "InputValidationException" % ", ".join(unm))
    elif sig[1] is not None:
        c = spec[sig[1]]
        cell = ("type table cell %s -> %s" % (effective_dtype(c), exp[sig[1]][2]) if sig[0] == "wrong-type"
                else "role table row Role.%s -> %s, nullable %s" % (c[0], exp[sig[1]][1], str(exp[sig[1]][3]).lower()))
        want = "docs/data_structures.rst %s; component %s deviates (%s: observed %r, documented %r)" % (
            cell, comp_name(sig[1], c[0]), sig[0], sig[2], sig[3])
    else:
        want = "documented structure %s (%s)" % (exp, sig[0])
    return "%s %s; expected: %s" % (head, seen, want)


# ------------------------------------------------------------------------------------------------
# enumeration
# ------------------------------------------------------------------------------------------------

def representatives():
    """one installed SDMX data type per VTL type named by the documentation (first listed)"""
    from pysdmx.model import DataType
    installed = {d.value for d in DataType}
    reps = []
    for vt, names in oracle()["rows"]:
        if vt in [r[0] for r in reps]:
            continue
        for n in names:
            if n in installed:
                reps.append((vt, n))
                break
    return reps


def space_a():
    from pysdmx.model import DataType
    ctx = (("DIMENSION", "String", "local", None), ("MEASURE", "Decimal", "local", None))
    out = []
    for role in ROLES:
        atts = ("O", "D") if role == "ATTRIBUTE" else (None,)
        variants = [(d.value, s) for d in DataType for s in ("local", "concept", "both")] + [("-", "default"), ("-", "ref")]
        for dt, src in variants:
            for att in atts:
                c = (role, dt, src, att)
                out.append((c,))
                out.append(ctx + (c,))
    return out


def space_full(n, reps):
    kinds = [(r, t, "local", None) for r in ROLES for _, t in reps]
    return [tuple(m) for m in itertools.combinations_with_replacement(kinds, n)]


def space_rot(n, reps):
    out = []
    types = [t for _, t in reps]
    for nd in range(n, -1, -1):
        for nm in range(n - nd, -1, -1):
            roles = ["DIMENSION"] * nd + ["MEASURE"] * nm + ["ATTRIBUTE"] * (n - nd - nm)
            for order in {tuple(roles), tuple(reversed(roles))}:
                for k in range(len(types)):
                    out.append(tuple((r, types[(k + i) % len(types)], "local", None) for i, r in enumerate(order)))
    return sorted(set(out))


PLANS = {
    # every container x every entry point (run_sdmx takes Schema structures only; the others are space C)
    "full": [(k, e) for k in CONTAINERS for e in ENTRIES if k == "Schema" or e not in SCHEMA_ONLY],
    # every entry point on the Schema, to_vtl_json on every container
    "entries": [("Schema", e) for e in ENTRIES] + [(k, "to_vtl_json") for k in CONTAINERS[1:]],
    "sem": [(k, e) for k in CONTAINERS for e in ("to_vtl_json", "semantic_analysis")],
    # to_vtl_json on every container, semantic_analysis on the Schema
    "ctx": [(k, "to_vtl_json") for k in CONTAINERS] + [("Schema", "semantic_analysis")],
    "json": [(k, "to_vtl_json") for k in CONTAINERS],
}
COST = {"full": 0.6, "entries": 0.3, "sem": 0.1, "ctx": 0.04, "json": 0.0004}  # seconds of work on an idle core (chunking only)


def cover_key(kind, entry, spec, outcome):
    return "%s|%s|%s|%s" % (entry, kind, spec_label(spec), outcome)


def _vsort(v):
    r = v["replay"] or {}
    return (v["key"], len(r.get("spec", [])), ENTRIES.index(r["entry"]) if r.get("entry") in ENTRIES else 0,
            CONTAINERS.index(r["container"]) if r.get("container") in CONTAINERS else 0, repr(r))


def work(item, rec):
    harness.boot()
    best = {}  # finding key -> smallest failing case of this item (the globally smallest is always among them)
    for plan, spec in item:
        for kind, entry in PLANS[plan]:
            outcome, sigs, red, agree = observe(kind, entry, spec)
            trivial = outcome.endswith("also-on-documented-vtl-json") or red[0] == "skip"
            sample = None
            if entry == "run" and outcome == "mapped-as-documented" and len(spec) == 3:
                sample = {"container": kind, "entry": entry, "structure": spec_label(spec), "components": red[1], "rows": red[2]}
            rec.case(cover_key(kind, entry, spec, outcome), outcome, nontrivial=not trivial, sample=sample)
            rec.count("calls:" + entry)
            if red[0] == "ok" and red[2] is not None and any(v is not None for r in red[2] for _, v in r):
                rec.count("results-with-data:" + entry)
            if agree is True and red[0] == "ok":
                rec.count("agrees-with-documented-vtl-json:" + entry)
            if red[0] == "skip":
                rec.count("input-refused-by-pysdmx:" + entry)
                rec.note("%s on %s[%s]: pysdmx refuses to build the PandasDataset (%s)" % (entry, kind, spec_label(spec), red[1]))
            elif trivial:
                rec.note("%s on %s[%s]: %s %s also raised by the documented VTL JSON structure (not attributed to the SDMX mapping)" % (
                    entry, kind, spec_label(spec), red[2], red[3]))
            if sigs:
                rec.count("deviating-calls:" + entry)
                for key, what in findings(kind, entry, spec):
                    v = {"key": key, "what": what, "replay": {"kind": "structure", "container": kind, "entry": entry,
                                                               "spec": [list(c) for c in spec], "finding": key}}
                    if key not in best or _vsort(v) < _vsort(best[key]):
                        best[key] = v
        for k in [k for k in _OBS if len(k[2]) > 1]:  # bounded memory; single-component probes and controls stay
            del _OBS[k]
    for key in sorted(best):
        rec.violation(key, best[key]["what"], best[key]["replay"])


def unusable_containers(rec):
    """space C: containers that carry no usable structure must be rejected with an InputValidationException"""
    spec = (("DIMENSION", "String", "local", None), ("MEASURE", "Decimal", "local", None))
    cases = [(k, e) for k in ("Dataflow-without-DSD", "Dataflow-with-DSD-reference") for e in ENTRIES]
    cases += [(k, e) for k in ("DataStructureDefinition", "Dataflow") for e in SCHEMA_ONLY]
    for kind, entry in cases:
        dev = unusable_case(kind, entry, spec)
        red = dev[1]
        rec.case("%s|%s|unusable|%s" % (entry, kind, dev[0]), dev[0])
        rec.count("calls:" + entry)
        if dev[2]:
            what = "%s(%s) %s; expected: InputValidationException (%s)" % (
                entry, kind, "raised %s %s: %s" % (red[1], red[2], red[4][:160]) if red[0] == "err" else "returned a result",
                "run_sdmx accepts Schema structures only" if entry in SCHEMA_ONLY and not kind.startswith("Dataflow-w")
                else "docs/data_structures.rst: a Dataflow with no resolved DSD raises InputValidationException")
            rec.violation(dev[2], what, {"kind": "unusable", "container": kind, "entry": entry, "finding": dev[2]})


def unusable_case(kind, entry, spec):
    red = execute(kind, entry, spec)
    cls_ = "non-Schema-in-PandasDataset(%s)" % kind if entry in SCHEMA_ONLY and kind in CONTAINERS else kind
    # the to_vtl_json outcome of the same container decides whether the entry point goes into the key
    suffix = ""
    if entry != "to_vtl_json" and kind not in CONTAINERS:
        if execute(kind, "to_vtl_json", spec)[:4] != red[:4]:
            suffix = "@" + entry
    if red[0] == "skip":  # pysdmx refused to build the PandasDataset: the engine was never reached
        return ("input-refused-by-pysdmx", red, None)
    if red[0] == "ok":
        return ("accepted-unusable", red, "C27:container:%s%s:accepted" % (cls_, suffix))
    if red[1] == "raw":
        return ("raw-error", red, "C27:container:%s%s:raw-error:%s" % (cls_, suffix, red[2]))
    if red[2] != "InputValidationException":
        return ("rejected-unusable-wrong-class", red, "C27:container:%s%s:wrong-error-class:%s" % (cls_, suffix, red[2]))
    return ("rejected-unusable", red, None)


class Check:
    ID = "C27"
    LEVEL = "exploration"
    RULE = ("a case = one call of one entry point (to_vtl_json, semantic_analysis, run, run_sdmx with/without mapping) "
            "on one container (Schema, DataStructureDefinition, Dataflow with embedded DSD) built from one structure. "
            "Structures: (A) every installed pysdmx DataType x every Role as the single varying component (data type "
            "given locally / by the concept / defaulted / concept referenced; alone and inside a 2-component context; "
            "thorough: every container x entry point, quick: every entry point on the Schema + to_vtl_json "
            "on the other containers); "
            "(Bf) every multiset of n (role, representative SDMX type per documented VTL type) components, through "
            "to_vtl_json (n<=3 quick, n<=5 thorough; thorough also semantic_analysis for n<=3); (Br) every composition "
            "of {D,M,A} of size n in both component orders x the 8 rotations of the representative types, through every "
            "container x entry point (n<=3 quick, n<=5 thorough); (C) containers without a usable structure. "
            "distinct = distinct (entry point, container, structure, outcome class); a case whose error is reproduced "
            "identically by the documented VTL JSON structure is trivial (not attributable to the SDMX mapping).")
    ASSUMPTIONS = [
        "the oracle is the pair of list-tables of docs/data_structures.rst as parsed at run time; the sentence "
        "'all reporting period variants (Year, Semester, ...)' is read as ReportingYear, ReportingSemester, ...",
        "a component without any data type has SDMX type String (the default documented by pysdmx Component.dtype)",
        "pysdmx objects are built in Python (no SDMX-ML/JSON files: the xml extra is not installed); the .xml/.json "
        "structure-file path of load_sdmx_structure is not exercised",
        "run()/run_sdmx() use a 2-row frame (1 row when the structure has no dimension) with nulls in every "
        "non-dimension of the second row; the order of components in the result is not compared",
        "VtlDataflowMapping objects are not enumerated (run_sdmx is called without mappings and with a dict mapping)",
    ]

    def run(self, tier, seed, rec):
        harness.boot()
        from pysdmx.model import DataType
        from pysdmx.model.dataflow import Role
        o = oracle()
        for p in o["problems"]:
            rec.tool_error("docs/data_structures.rst: " + p)
        if len(o["roles"]) < 1 or len(o["types"]) < 8 or len(set(o["types"].values())) < 2:
            rec.tool_error("the role / type tables of docs/data_structures.rst were not found (%d roles, %d types)" % (
                len(o["roles"]), len(o["types"])))
            return {"exhaustive": False}
        if [r.name for r in Role] != list(ROLES):
            rec.tool_error("installed pysdmx Role members %s differ from the enumerated %s" % ([r.name for r in Role], ROLES))
        installed = {d.value for d in DataType}
        for n in sorted(set(o["types"]) - installed):
            rec.note("documented SDMX data type %s is not a member of the installed pysdmx DataType (not executable)" % n)
        for n in sorted(installed - set(o["types"])):
            rec.note("installed pysdmx DataType %s has no cell in the type table: must be rejected" % n)
        # the property statement itself: dimensions are the only non-nullable components
        for r, (vr, nul) in sorted(o["roles"].items()):
            ok = nul == (r != "DIMENSION")
            rec.case("docs|role-table|%s" % r, "docs-consistent" if ok else "docs-inconsistent")
            if not ok:
                rec.violation("C27:docs:role-table-%s:nullable-cell-contradicts-statement" % r,
                              "docs/data_structures.rst role table says Role.%s nullable=%s; the property says dimensions are "
                              "the only non-nullable components" % (r, str(nul).lower()), {"kind": "docs", "role": r})
        reps = representatives()
        nmax = 3 if tier == "quick" else 5
        # A: thorough = every container x entry point; quick = every entry point on the Schema (+ to_vtl_json on the
        # other containers) for the component alone, to_vtl_json on every container + semantic_analysis on the
        # Schema for the component in its context
        units = [("full" if tier == "thorough" else "entries" if len(s) == 1 else "ctx", s) for s in space_a()]
        for n in range(1, nmax + 1):
            units += [("full", s) for s in space_rot(n, reps)]
            units += [("sem" if tier == "thorough" and n <= 3 else "json", s) for s in space_full(n, reps)]
        sizes = {"A": len(space_a()), "Br": sum(len(space_rot(n, reps)) for n in range(1, nmax + 1)),
                 "Bf": sum(len(space_full(n, reps)) for n in range(1, nmax + 1))}
        # units that share the documented structure are walked together (the control run is cached per worker);
        # the seed permutes the groups and the units inside a group
        groups = {}
        for u in units:
            groups.setdefault((u[0], "" if u[0] == "json" else repr(expected_of(u[1]))), []).append(u)
        units = [u for _, g in harness.seeded_order(sorted(groups.items()), seed) for u in harness.seeded_order(g, seed)]
        # chunk by estimated cost (about 5 s of work per item)
        items, cur, cost = [], [], 0.0
        for u in units:
            cur.append(u)
            cost += COST[u[0]]
            if cost >= 5.0:
                items.append(cur)
                cur, cost = [], 0.0
        if cur:
            items.append(cur)
        harness.pmap(work, items, rec)
        unusable_containers(rec)
        # smallest failing structure first, so that the replay written for a key is the same under every seed
        rec.violations.sort(key=_vsort)
        # non-vacuity
        seen_dtypes = len(installed)
        if sizes["A"] != len(installed) * 3 * 4 * 2 + 2 * 4 * 2:   # 3 sources (local, concept, both) x (3 roles + 1 extra attachment) x (alone, in context)
            rec.tool_error("space A has %d structures, expected %d" % (sizes["A"], len(installed) * 24 + 16))
        for e in ENTRIES:
            if not rec.counters.get("calls:" + e):
                rec.tool_error("entry point %s was never called" % e)
        # an entry point whose calls were all trivial (refused by pysdmx / error shared with the control) was not examined
        for e in ENTRIES[1:]:
            compared = rec.counters.get("agrees-with-documented-vtl-json:" + e, 0) + rec.counters.get("deviating-calls:" + e, 0)
            if not compared:
                rec.tool_error("%s: no call was compared with the documentation (all %d calls trivial)" % (e, rec.counters.get("calls:" + e, 0)))
        for e in ("run", "run_sdmx", "run_sdmx_mapped"):
            if not rec.counters.get("results-with-data:" + e) and not rec.counters.get("deviating-calls:" + e):
                rec.tool_error("%s never returned a dataset with a non-null value" % e)
        if not rec.outcomes.get("mapped-as-documented") and not rec.violations:
            rec.tool_error("no structure was mapped and no violation was reported")
        return {"exhaustive": True, "installed_datatypes": seen_dtypes, "documented_datatypes": len(o["types"]),
                "documented_roles": len(o["roles"]), "representative_types": ["%s<-%s" % r for r in reps],
                "structures": sizes, "max_components": nmax, "work_items": len(items)}

    def replay(self, data):
        harness.boot()
        global _ORACLE
        _ORACLE = None
        _OBS.clear()
        _CONTROL.clear()
        if data["kind"] == "docs":
            r = oracle()["roles"].get(data["role"])
            return r is not None and r[1] != (data["role"] != "DIMENSION")
        if data["kind"] == "unusable":
            spec = (("DIMENSION", "String", "local", None), ("MEASURE", "Decimal", "local", None))
            return unusable_case(data["container"], data["entry"], spec)[2] is not None
        spec = tuple(tuple(c) for c in data["spec"])
        found = findings(data["container"], data["entry"], spec)
        for key, what in found:
            print("   %s :: %s" % (key, what[:400]))
        return any(key == data["finding"] for key, _ in found) if data.get("finding") else bool(found)

"""C04 — joins combine datasets as specified (explorer E1, oracle O4 = vtlmc/ref_c04.py).

Programs: {inner, left, full, cross}_join x 2-3 operands x identifier configuration x alias {none, ``as d1``} x
measure-name clash x body (none / filter / calc / aggr / apply / keep / drop / rename, thorough: every grammatical
body of length <= 2 over the clause alphabets below).  Only combinations the VTL manual allows *and* the engine's
semantic analysis admits are generated; a body the reference semantics calls ill-formed (unknown / ambiguous
component left after the body) is not a member of the space and is discarded by the generator.

Inputs: every key-presence pattern over a 3-key universe per operand (8 patterns per operand, 8^n combinations),
packed into one execution through the extra identifier ``C_id`` (an identifier of every operand, hence a join key in
every configuration).  The measure of operand i holds 100*i + (ordinal of the key), so a value taken from the
wrong operand, a spurious match or a missing null is visible.  ``cross_join`` does not match on identifiers, so it
cannot be packed: it is run unpacked over a 2-key universe (2 operands: all 4^2 presence combinations; 3 operands: 0, 1
or 2 datapoints per operand = 27 combinations, bodies of length <= 1 plus the mandatory rename of equally named
identifiers), all bodies of one head as statements of one script.  Empty operands (not expressible in a packed run) are covered for the other
joins by a small unpacked sweep.

Execution: all bodies of one head are submitted as the statements of one script (chunks of 40 statements) on the
packed data - one run() costs ~45 ms whatever the number of statements - and every statement is judged on its own; a
statement that differs is re-executed alone on its smallest failing C_id slice, and that single statement on that
slice is the replay (if it does not differ alone, the combined execution is the replay: it is itself a member of the
property's domain).  A failure of a body on cases on which the bare join of the same head already fails is the same
defect and gets the same finding key.

Oracle: the reference evaluator computes the relational join with nested loops, applies the clauses, removes the
alias prefixes and checks identifier uniqueness; the engine's datapoints are compared as a set (refbase.compare).
"""
import ast
import itertools
import os
import random

from vtlmc import harness, refbase
from vtlmc import ref_c04 as R
from vtlmc.refbase import DS, ID, ME

# ---------------------------------------------------------------------------------------------------
# calibration corpus
# ---------------------------------------------------------------------------------------------------

RM_NUMBERS = (6, 7, 8, 9, 10, 11, 12)


def joins_cases():
    """(code, number_inputs, references_names, expects_error) of every active test in tests/Joins/test_joins.py"""
    base = os.path.join(harness.REPO, "tests", "Joins")
    tree = ast.parse(open(os.path.join(base, "test_joins.py"), encoding="utf-8").read())
    for fn in ast.walk(tree):
        if not isinstance(fn, ast.FunctionDef) or not fn.name.startswith("test_"):
            continue
        vals, err = {}, False
        for n in ast.walk(fn):
            if isinstance(n, ast.Assign) and len(n.targets) == 1 and isinstance(n.targets[0], ast.Name):
                try:
                    vals[n.targets[0].id] = ast.literal_eval(n.value)
                except Exception:  # noqa: BLE001
                    pass
            if isinstance(n, ast.Call):
                f = n.func.attr if isinstance(n.func, ast.Attribute) else getattr(n.func, "id", None)
                if (f and "Exception" in f) or any(k.arg == "exception_code" for k in n.keywords):
                    err = True
        if "code" in vals and isinstance(vals.get("number_inputs"), int):
            yield vals["code"], vals["number_inputs"], vals.get("references_names"), err


def load_joins_case(code, n_in, refs):
    d = os.path.join(harness.REPO, "tests", "Joins", "data")
    script = open(os.path.join(d, "vtl", code + ".vtl"), encoding="utf-8").read()
    ins, outs = [], {}
    for i in range(1, n_in + 1):
        for ds in refbase._load_ds(os.path.join(d, "DataStructure", "input", "%s-%d.json" % (code, i)),
                                   os.path.join(d, "DataSet", "input", "%s-%d.csv" % (code, i))):
            ins.append(refbase.typed(ds))
    for r in refs or []:
        for ds in refbase._load_ds(os.path.join(d, "DataStructure", "output", "%s-%s.json" % (code, r)),
                                   os.path.join(d, "DataSet", "output", "%s-%s.csv" % (code, r))):
            outs[ds.name] = refbase.typed(ds)
    return script, ins, outs


def corpus_problems(script, ins, outs):
    got = R.evaluate(R.parse(script), ins)
    problems = []
    for name, exp in outs.items():
        if name not in got:
            problems.append("no result %s" % name)
            continue
        g = got[name]
        if set(g.names()) != set(exp.names()):
            problems.append("components %s, stored %s" % (g.names(), exp.names()))
            continue
        if set(g.ids()) != set(exp.ids()):
            problems.append("identifiers %s, stored %s" % (g.ids(), exp.ids()))
        problems += [repr(x)[:200] for x in refbase.compare(g.rows, exp.rows, exp.ids())[:3]]
    return problems


def calibrate(rec):
    """-> (number of stored expectations reproduced, list of failures)"""
    ok, failures, not_modelled, err_agreed, err_outside = 0, [], [], 0, 0
    seen_rm = set()
    for num, script, ins, outs in refbase.reference_manual_cases(RM_NUMBERS):
        seen_rm.add(num)
        try:
            pr = corpus_problems(script, ins, outs)
        except Exception as e:  # noqa: BLE001
            pr = ["%s: %s" % (type(e).__name__, e)]
        if pr:
            failures.append("RM%03d: %s" % (num, pr[:2]))
        else:
            ok += 1
    for num in RM_NUMBERS:
        if num not in seen_rm:
            failures.append("RM%03d not found in the repository" % num)
    for code, n_in, refs, err in joins_cases():
        try:
            script, ins, outs = load_joins_case(code, n_in, refs)
        except Exception as e:  # noqa: BLE001
            not_modelled.append("%s(load: %s)" % (code, type(e).__name__))
            continue
        try:
            pr = corpus_problems(script, ins, outs)
        except R.NotModelled as e:
            not_modelled.append("%s(%s)" % (code, str(e)[:30]))
            continue
        except R.RefError as e:
            if err:
                err_agreed += 1
                continue
            pr = ["RefError: %s" % e]
        except Exception as e:  # noqa: BLE001
            pr = ["%s: %s" % (type(e).__name__, e)]
        if err:
            err_outside += 1      # the stored expectation is a type / nullability error: outside the value semantics
            continue
        if pr:
            failures.append("Joins %s: %s" % (code, pr[:2]))
        elif outs:
            ok += 1
    rec.count("calibration_reproduced", ok)
    rec.count("calibration_expected_errors_agreed", err_agreed)
    rec.count("calibration_expected_errors_outside_model", err_outside)
    rec.count("calibration_not_modelled", len(not_modelled))
    rec.note("calibration: not modelled corpus cases: " + " ".join(not_modelled)[:900])
    return ok, failures


# ---------------------------------------------------------------------------------------------------
# the space: heads (join kind x operands x identifier configuration x alias x clash) and bodies
# ---------------------------------------------------------------------------------------------------

TYPES = {"C_id": "Integer", "Id_1": "Integer", "Id_2": "String", "Id_3": "Integer", "K": "Integer"}
UNIV = {("Id_1",): [(1,), (2,), (3,)], ("Id_1", "Id_2"): [(1, "a"), (1, "b"), (2, "a")],
        ("Id_2",): [("a",), ("b",), ("c",)], ("K",): [(10,), (20,), (30,)], ("Id_3",): [(1,), (2,), (3,)]}
KMEAS = [10, 10, 20]        # values of the non-identifier join key K in the reference operand (using-measure)
I1, I12, I2, IK = ("Id_1",), ("Id_1", "Id_2"), ("Id_2",), ("K",)
INNER, LEFT, FULL, CROSS = "inner_join", "left_join", "full_join", "cross_join"


def configurations(tier):
    """[(name, family, n, kinds, [(identifiers, has K measure)], using)]"""
    out = []

    def add(name, family, kinds, ops, using=None):
        out.append((name, family, len(ops), kinds, ops, using))
    e = lambda ids: (ids, False)  # noqa: E731
    add("equal1", "equal-ids", (INNER, LEFT, FULL), [e(I1), e(I1)])
    add("nested", "nested", (INNER, LEFT), [e(I12), e(I1)])
    add("nested-rev", "nested", (INNER,), [e(I1), e(I12)])
    add("using-all", "using-ids", (INNER, LEFT), [e(I1), e(I1)], ["C_id", "Id_1"])
    add("using-ids", "using-ids", (INNER, LEFT), [e(I12), e(I1)], ["C_id", "Id_1"])
    add("using-measure", "using-measure", (INNER, LEFT), [(I1, True), e(IK)], ["C_id", "K"])
    add("using-measure-rev", "using-measure", (INNER,), [e(IK), (I12, True)], ["C_id", "K"])     # the key is a measure of a later operand
    add("equal1", "equal-ids", (INNER, LEFT, FULL), [e(I1), e(I1), e(I1)])
    add("nested-rev3", "nested", (INNER,), [e(I1), e(I12), e(I12)])     # two later operands share identifiers the first lacks
    add("disjoint", "cross-disjoint", (CROSS,), [e(I1), e(I2)])
    add("same", "cross-same", (CROSS,), [e(I1), e(I1)])
    if tier == "thorough":
        add("nested-ref2", "nested", (INNER, LEFT), [e(I12), e(I12), e(I1)])
        add("nested-last2", "nested", (INNER,), [e(I1), e(I1), e(I12)])
        add("equal2", "equal-ids", (INNER, LEFT, FULL), [e(I12), e(I12)])
        add("equal2", "equal-ids", (INNER, LEFT, FULL), [e(I12), e(I12), e(I12)])
        add("nested", "nested", (INNER, LEFT), [e(I12), e(I1), e(I1)])
        add("nested-chain", "nested", (INNER, LEFT), [e(I12), e(I1), e(I12)])
        add("nested-fork", "nested", (INNER, LEFT), [e(I12), e(I1), e(I2)])
        add("nested-mid", "nested", (INNER,), [e(I1), e(I12), e(I1)])
        add("nested-last", "nested", (INNER,), [e(I1), e(I2), e(I12)])
        add("using-all", "using-ids", (INNER, LEFT), [e(I1), e(I1), e(I1)], ["C_id", "Id_1"])
        add("using-ids", "using-ids", (INNER, LEFT), [e(I12), e(I1), e(I1)], ["C_id", "Id_1"])
        add("using-measure", "using-measure", (INNER, LEFT), [(I1, True), e(IK), e(IK)], ["C_id", "K"])
        add("disjoint", "cross-disjoint", (CROSS,), [e(I1), e(I2), e(("Id_3",))])
        add("same", "cross-same", (CROSS,), [e(I1), e(I1), e(I1)])
    return out


def heads(tier):
    out = []
    for name, family, n, kinds, ops, using in configurations(tier):
        clashes = ["none", "m12"] + (["m23", "m123"] if n == 3 and tier == "thorough" else [])
        for kind in kinds:
            for alias in ("none", "as"):
                for clash in clashes:
                    out.append({"config": name, "family": family, "n": n, "kind": kind, "ops": ops, "using": using,
                                "alias": alias, "clash": clash, "tier": tier})
    return out


class Head:
    def __init__(self, d):
        self.__dict__.update(d)
        self.cross = self.kind == CROSS
        self.names = ["DS_%d" % (i + 1) for i in range(self.n)]
        self.aliases = ["d%d" % (i + 1) for i in range(self.n)] if self.alias == "as" else list(self.names)
        base = ["Me_%d" % (i + 1) for i in range(self.n)]
        if self.clash == "m12":
            base[1] = "Me_1"
        elif self.clash == "m23":
            base[2] = "Me_2"
        elif self.clash == "m123":
            base = ["Me_1"] * self.n
        self.mnames = base
        # how a clause refers to operand i's measure / identifier
        self.mref = [m if base.count(m) == 1 else "%s#%s" % (self.aliases[i], m) for i, m in enumerate(base)]
        allids = [x for ids, _ in self.ops for x in ids]
        self.idref = [[x if (not self.cross or allids.count(x) == 1) else "%s#%s" % (self.aliases[i], x) for x in ids]
                      for i, (ids, _) in enumerate(self.ops)]
        self.nkeys = 2 if self.cross else 3

    def label(self):
        return "%s/%d/%s/alias=%s/clash=%s" % (self.kind, self.n, self.config, self.alias, self.clash)

    def comps(self, i, packed):
        ids, kme = self.ops[i]
        c = ([("C_id", "Integer", ID)] if packed else []) + [(x, TYPES[x], ID) for x in ids]
        if kme:
            c.append(("K", "Integer", ME))
        c.append((self.mnames[i], "Integer", ME))
        return c

    def rows(self, i, pattern, cid=None):
        ids, kme = self.ops[i]
        out = []
        for j in range(self.nkeys):
            if pattern >> j & 1:
                r = dict(zip(ids, UNIV[ids][j]))
                if cid is not None:
                    r["C_id"] = cid
                if kme:
                    r["K"] = KMEAS[j]
                r[self.mnames[i]] = 100 * (i + 1) + j + 1
                out.append(r)
        return out

    def cases(self):
        if self.cross and self.n == 3:
            return list(itertools.product((0, 1, 3), repeat=3))      # 0, 1 or 2 datapoints per operand
        return list(itertools.product(range(2 ** self.nkeys), repeat=self.n))

    def packed_data(self, seed):
        rows = [[] for _ in range(self.n)]
        for cid, pats in enumerate(self.cases()):
            for i, p in enumerate(pats):
                rows[i].extend(self.rows(i, p, cid))
        return [DS(self.names[i], self.comps(i, True), shuffled(rows[i], seed)) for i in range(self.n)]

    def single_data(self, pats, seed, cid=None):
        packed = not self.cross
        return [DS(self.names[i], self.comps(i, packed), shuffled(self.rows(i, p, (cid if packed else None)), seed))
                for i, p in enumerate(pats)]

    def join_ast(self, body):
        ops = [R.Operand(self.names[i], self.aliases[i] if self.alias == "as" else None) for i in range(self.n)]
        return R.Join(self.kind, ops, self.using, body)

    # ---- clause alphabets ---------------------------------------------------------------------------
    def alphabets(self):
        m, n = self.mref, self.n
        c = lambda x: ("c", x)  # noqa: E731
        k = lambda v: ("k", v)  # noqa: E731
        first_id = self.idref[0][0]
        F = [("filter", ("bin", ">=", c(m[-1]), k(100 * n + 2))),
             ("filter", ("bin", "or", ("fn", "isnull", [c(m[0])]), ("fn", "isnull", [c(m[-1])]))),
             ("filter", ("bin", "<>", c(first_id), k(2)))]
        nvl_sum = ("fn", "nvl", [c(m[0]), k(0)])
        for x in m[1:]:
            nvl_sum = ("bin", "+", nvl_sum, ("fn", "nvl", [c(x), k(0)]))
        MID = [("calc", [(None, "x", ("bin", "+", c(m[0]), c(m[-1])))]),
               ("calc", [(None, "x", nvl_sum)])]
        if "#" not in m[0]:
            MID.append(("calc", [(None, m[0], c(m[-1]))]))
        if self.cross:
            g0, g1, gx = [first_id], [first_id, self.idref[1][0]], [self.idref[-1][0]]
        else:
            g0, g1, gx = ["C_id"], ["C_id", "Id_1"], ["Id_1"]
        MID += [("aggr", [(None, "Ms", ("agg", "sum", c(m[-1])))], "by", g0),
                ("aggr", [(None, "Ms", ("agg", "sum", c(m[0]))), (None, "Mm", ("agg", "max", c(m[-1])))], "by", g1),
                ("aggr", [(None, "Ms", ("agg", "min", c(m[0])))], "except", gx)]
        pairs = [(i, j) for i in range(n) for j in range(i + 1, n) if self.mnames[i] == self.mnames[j]]
        if len(pairs) == 1:
            # (with three homonymous measures the manual does not say what becomes of the third one: not generated)
            i, j = pairs[0]
            MID.append(("apply", "+", self.aliases[i], self.aliases[j]))
        KD = [("keep", [x]) for x in m] + [("drop", [x]) for x in m]
        KD += [("keep", ["x"]), ("drop", ["x"]), ("keep", ["Ms"]), ("drop", ["Mm"])]
        RN = [("rename", [(x, "Mx_%d" % (i + 1))]) for i, x in enumerate(m)]
        RN += [("rename", [(x, "Mx_%d" % (i + 1)) for i, x in enumerate(m)]),
               ("rename", [("x", "y")]), ("rename", [("Ms", "y")])]
        if len(pairs) == 1:
            # after apply the clashing measure exists once, without prefix
            cname = self.mnames[pairs[0][0]]
            KD += [("keep", [cname]), ("drop", [cname])]
            RN.append(("rename", [(cname, "Mz")]))
        pref_ids = [(x, "Id_%d%s" % (i + 1, x.split("#", 1)[1][3:])) for i, ids in enumerate(self.idref) for x in ids if "#" in x]
        if pref_ids:
            # cross_join of operands with equally named identifiers: they must be renamed apart
            RN += [("rename", pref_ids), ("rename", pref_ids + [(x, "Mx_%d" % (i + 1)) for i, x in enumerate(m)]),
                   ("rename", pref_ids + [("x", "y")]), ("rename", pref_ids + [("Ms", "y")])]
        return F, MID, KD, RN

    def candidate_bodies(self):
        """the base body first: nothing, or - when names clash - the rename that only takes the clashing names apart (it
        exposes the whole virtual dataset, so a defect of the join itself shows there and is keyed once)"""
        F, MID, KD, RN = self.alphabets()
        layers = [F, MID, KD, RN]
        n = self.n
        idren = [c for c in RN if any("#" in a and a.split("#", 1)[1].startswith("Id_") for a, _ in c[1])]
        out = [[]] + [[c] for c in RN[n:n + 1] + idren]
        for layer in layers:
            out += [[c] for c in layer if [c] not in out]
        if self.tier == "thorough" and not (self.cross and n == 3):
            for a in range(4):
                for b in range(a + 1, 4):
                    out += [[x, y] for x in layers[a] for y in layers[b]]
        else:
            # (quick) apply followed by one more clause: the only way to reach the components apply creates
            out += [[x, y] for x in MID if x[0] == "apply" for y in KD + RN]
        if not (self.tier == "thorough" and not (self.cross and n == 3)) and idren:
            # cross_join of operands with equally named identifiers: the rename of the identifiers is mandatory, so a
            # one-clause body needs it as a second clause
            for a in range(3):
                out += [[x, y] for x in layers[a] for y in idren]
        return out


def shuffled(rows, seed):
    rows = list(rows)
    if seed:
        random.Random(seed * 7919 + len(rows)).shuffle(rows)
    return rows


def shape(body):
    return "+".join(c[0] for c in body) or "none"


# ---------------------------------------------------------------------------------------------------
# executing programs and comparing
# ---------------------------------------------------------------------------------------------------

CHUNK = 40      # statements per script


def engine_rows(out, name):
    """harness.call tuple -> (rows, names, ids) or raises KeyError"""
    ds = out[1][name]
    rows = harness.dataset_rows(ds) or []
    names = [c.name for c in ds.components.values()]
    ids = [c.name for c in ds.components.values() if c.role.value == "Identifier"]
    return rows, names, ids


def diff(got, names, ids, exp):
    """-> list of (kind, key tuple in exp.ids() order, detail)"""
    if set(names) != set(exp.names()) or set(ids) != set(exp.ids()):
        return [("wrong-structure", (), "components %s identifiers %s, expected %s / %s" % (names, ids, exp.names(), exp.ids()))]
    return refbase.compare(got, exp.rows, exp.ids())


def deviation(diffs):
    kinds = {d[0] for d in diffs}
    for k, name in (("wrong-structure", "wrong-structure"), ("duplicate-identifiers", "extra-datapoint"),
                    ("extra-datapoint", "extra-datapoint"), ("missing-datapoint", "missing-datapoint"),
                    ("missing-column", "wrong-structure"), ("wrong-value", "wrong-value")):
        if k in kinds:
            return name
    return "wrong-value"


def ds_json(d):
    return {"name": d.name, "comps": [list(c) for c in d.comps], "rows": d.rows}


def ds_from_json(j):
    return DS(j["name"], [tuple(c) for c in j["comps"]], j["rows"])


def check_single(script, dss, name="DS_r"):
    """full path (text -> reference parser -> reference evaluator) against the engine on the given datasets.
    -> ("agree", None) | ("differs", (diffs, got, exp)) | ("engine-error", call tuple) | ("ref-error", exception)"""
    try:
        exp = R.evaluate(R.parse(script), dss)[name]
    except (R.RefError, R.NotModelled) as e:
        return "ref-error", e
    out = refbase.run(script, dss)
    if out[0] != "ok":
        return "engine-error", out
    got, names, ids = engine_rows(out, name)
    d = diff(got, names, ids, exp)
    return ("differs", (d, got, exp)) if d else ("agree", None)


def describe(script, dss, got, exp, diffs):
    def rows(rs, cols):
        return "[" + "; ".join(",".join("%s" % ("null" if r.get(c) is None else r.get(c)) for c in cols) for r in rs[:8]) + "]"
    data = " ".join("%s(%s)=%s" % (d.name, ",".join(d.names()), rows(sorted(d.rows, key=repr), d.names())) for d in dss)
    cols = exp.names()
    return "%s on %s: engine returned (%s) %s, reference semantics gives %s; first difference %s" % (
        script, data, ",".join(cols), rows(sorted(got, key=repr), cols), rows(sorted(exp.rows, key=repr), cols), repr(diffs[0])[:160])


def finding(h, bodypart, inputclass, dev, n=None):
    return "C04:%s:%s-operands/%s/%s:%s:%s" % (h.kind, h.n if n is None else n, h.family, bodypart, inputclass, dev)


class Run:
    """all programs of one head: statement i = body i; executes them in scripts of CHUNK statements"""

    def __init__(self, h, seed, rec):
        self.h, self.seed, self.rec = h, seed, rec
        probe = h.single_data(tuple(2 ** h.nkeys - 1 for _ in range(h.n)), 0, 0)
        self.bodies = []
        for body in h.candidate_bodies():
            try:
                R.evaluate([("DS_r", h.join_ast(body))], probe)
                self.bodies.append(body)
            except R.RefError as e:
                if e.kind != "structure":
                    rec.tool_error("generator: %s body %s raises a data error in the reference model: %s" % (h.label(), body, e))
                rec.count("bodies_discarded_as_ill_formed")
        self.names = ["R_%d" % i for i in range(len(self.bodies))]
        self.stmts = [R.render(h.join_ast(b), self.names[i]) for i, b in enumerate(self.bodies)]
        self.shapes = [shape(b) for b in self.bodies]
        self.dead = set()           # statements the engine refuses whatever the data
        self.raw_count = {}
        self.key = {}               # statement -> finding key of its first failure
        self.failed = {}            # statement -> set of failing case ids
        rec.count("programs", len(self.bodies))

    def ckey(self, i):
        h = self.h
        return (h.kind, h.n, h.config, h.alias, h.clash, self.shapes[i])

    def execute(self, dss, inputclass, only=None):
        """-> {statement: call tuple} for the live statements (restricted to ``only``)"""
        live = [i for i in range(len(self.bodies)) if i not in self.dead and (only is None or i in only)]
        results = {}
        for chunk in harness.chunks(live, CHUNK):
            self._execute(chunk, dss, inputclass, results)
        return results

    def _execute(self, chunk, dss, inputclass, results):
        self.rec.count("engine_runs")
        out = refbase.run("\n".join(self.stmts[i] for i in chunk), dss)
        if out[0] == "ok":
            for i in chunk:
                results[i] = out
        elif len(chunk) == 1:
            self.engine_error(chunk[0], out, dss, inputclass)
        else:
            # one failing statement fails the whole script: find it by bisection
            half = len(chunk) // 2
            self._execute(chunk[:half], dss, inputclass, results)
            self._execute(chunk[half:], dss, inputclass, results)

    def engine_error(self, i, out, dss, inputclass):
        """the engine raised on a program the reference semantics evaluates"""
        h, rec = self.h, self.rec
        sem = refbase.semantic(self.stmts[i], dss)
        in_semantic = sem[0] == "err"
        static = in_semantic
        if not in_semantic:
            # raised while executing: does it depend on the data at all?  (same error on empty operands -> it does not)
            empty = self.h.single_data(tuple(0 for _ in range(self.h.n)), 0, 0)
            o2 = refbase.run(self.stmts[i], empty)
            self.rec.count("engine_runs")
            if o2[0] == "err" and o2[2:4] == out[2:4]:
                static, dss = True, empty
        if static:
            self.dead.add(i)
        if out[1] == "vtl" and in_semantic:
            # semantic analysis refuses a program the reference semantics evaluates: recorded and reported as a note
            # (not a C04 violation unless the rejection is clearly wrong)
            rec.case(self.ckey(i) + ("rejected",), "semantic-analysis-rejects:%s" % out[3], nontrivial=False)
            rec.count("engine_rejections")
            rec.add("rejected", ["%s/%s/%s -> %s" % (h.kind, h.config, self.shapes[i], out[3])])
            rec.note("semantic analysis rejects %s with %s %s: %s" % (self.stmts[i], out[2], out[3], out[4][:160]))
            return
        # a raw exception, or a run-time error on a program semantic analysis accepted: run() does not return the datapoints
        tag = ("raw-error:" + out[2]) if out[1] == "raw" else ("runtime-error:%s" % out[3])
        rec.case(self.ckey(i) + (tag.split(":")[0],), tag)
        self.raw_count[i] = self.raw_count.get(i, 0) + 1
        if self.raw_count[i] >= 2 and not static:
            self.dead.add(i)            # the same error on two different inputs: not executed any more
            rec.count("statements_dropped_after_two_errors")
        if i not in self.key:
            # a two-clause body that fails like one of its clauses alone shows that clause's defect
            for c in self.bodies[i] if len(self.bodies[i]) > 1 else ():
                j = self.bodies.index([c]) if [c] in self.bodies else None
                if j is not None and str(self.key.get(j, "")).endswith(tag):
                    self.key[i] = self.key[j]
                    rec.count("errors_attributed_to_a_single_clause")
                    break
        if i not in self.key:
            self.key[i] = finding(h, self.shapes[i], "any-input" if static else inputclass, tag, "n" if static else None)
            rec.violation(self.key[i], "%s raises %s %s: %s%s" % (
                self.stmts[i], out[2], out[3] or "", out[4][:300], " (whatever the data)" if static else ""),
                {"script": self.stmts[i], "result": self.names[i], "datasets": [ds_json(d) for d in dss]})

    def report(self, i, failing, case_id, sdss, inputclass, packed=None):
        """statement i differs on the cases ``failing``; ``sdss`` = the smallest failing input, run alone for the replay"""
        rec, h = self.rec, self.h
        prev = self.failed.setdefault(i, set())
        prev |= failing
        if i in self.key:
            return                                   # same statement, already keyed by a smaller input
        base_key = self.key.get(0)
        if i != 0 and base_key is not None and failing <= self.failed.get(0, set()):
            self.key[i] = base_key                   # fails only where the bare join already fails: same defect
            rec.count("failures_attributed_to_the_join_itself")
            return
        bodypart = "any-body" if i == 0 else self.shapes[i]
        verdict, info = check_single(self.stmts[i], sdss, self.names[i])
        replay = {"script": self.stmts[i], "result": self.names[i], "datasets": [ds_json(d) for d in sdss]}
        if verdict == "differs":
            d1, g1, e1 = info
            self.key[i] = finding(h, bodypart, inputclass, deviation(d1))
            rec.violation(self.key[i], describe(self.stmts[i], sdss, g1, e1, d1) + " [differs on %d cases of this head]" % len(failing), replay)
        elif verdict == "engine-error" and (info[1] == "raw" or refbase.semantic(self.stmts[i], sdss)[0] == "ok"):
            self.key[i] = finding(h, bodypart, inputclass, ("raw-error:" + info[2]) if info[1] == "raw" else "runtime-error:%s" % info[3])
            rec.violation(self.key[i], "%s raises %s on the single case %s" % (self.stmts[i], info[2:], case_id), replay)
        else:
            # only the multi-statement / packed execution differs; that execution is itself in the property's domain
            script, dss, diffs = packed
            self.key[i] = finding(h, bodypart, inputclass + "/combined-run-only", deviation(diffs))
            rec.violation(self.key[i], "%s differs only in the combined execution (alone on case %s: %s): %s" % (
                self.stmts[i], case_id, verdict, repr(diffs[0])[:200]),
                {"script": script, "result": self.names[i], "datasets": [ds_json(d) for d in dss]})


def run_head(item, rec):
    harness.boot()
    h = Head(item)
    seed = item["seed"]
    run = Run(h, seed, rec)
    if not run.bodies:
        rec.tool_error("generator: no well-formed body for %s" % h.label())
        return
    cases = h.cases()
    if not h.cross:
        run_packed(run, h, seed, rec, cases)
        full_pat = 2 ** h.nkeys - 1
        singles = [tuple(0 for _ in range(h.n))] + [tuple(0 if i == j else full_pat for i in range(h.n)) for j in range(h.n)]
        classes = ["empty-operands=" + ("all" if not any(p) else ",".join(str(i + 1) for i, x in enumerate(p) if not x)) for p in singles]
    else:
        singles = sorted(cases, key=lambda p: (sum(bin(x).count("1") for x in p), p))
        classes = ["rows=" + "x".join(str(bin(x).count("1")) for x in p) for p in singles]
    # unpacked executions: cross_join (cannot be packed) and, for the other joins, the empty operands packing cannot express
    # (the empty-operand sweep of the packed joins uses the bodies of length <= 1)
    only = None if h.cross else {i for i, b in enumerate(run.bodies) if len(b) <= 1 or i == 0}
    for pats, inputclass in zip(singles, classes):
        sdss = h.single_data(pats, seed, 0)
        results = run.execute(sdss, inputclass, only)
        whole = "\n".join(run.stmts[i] for i in sorted(results))
        for i in sorted(results):
            exp = R.evaluate([(run.names[i], h.join_ast(run.bodies[i]))], sdss)[run.names[i]]
            got, cn, ids = engine_rows(results[i], run.names[i])
            diffs = diff(got, cn, ids, exp)
            rec.case(run.ckey(i) + (inputclass,), "differs" if diffs else "agree", nontrivial=bool(exp.rows) or bool(diffs) or not h.cross,
                     sample=({"script": run.stmts[i], "input": inputclass} if (h.cross and i == 0 and pats == singles[-1]) else None))
            if diffs:
                run.report(i, {("single", pats)}, pats, sdss, inputclass, (whole, sdss, diffs))
    if h.cross:
        rec.count("cross_join_programs", len(run.bodies))


def run_packed(run, h, seed, rec, cases):
    dss = h.packed_data(seed)
    named = [(h.aliases[i], dss[i]) for i in range(h.n)]
    vds0 = R.join(h.kind, named, h.using)
    # provenance class of every packed case: which combinations of operands meet in its virtual datapoints
    prov_of = {}
    for r, p in zip(vds0.rows, vds0.prov):
        prov_of.setdefault(r["C_id"], set()).add(p)
    cclass = {cid: "+".join(sorted(prov_of.get(cid, ()))) or "empty" for cid in range(len(cases))}
    size = {cid: sum(bin(p).count("1") for p in pats) for cid, pats in enumerate(cases)}
    rec.count("expected_matched_datapoints", sum(1 for p in vds0.prov if "0" not in p))
    rec.count("expected_null_filled_datapoints", sum(1 for p in vds0.prov if "0" in p))
    results = run.execute(dss, "packed")
    whole = "\n".join(run.stmts[i] for i in sorted(results))
    for i in sorted(results):
        v = vds0
        for c in run.bodies[i]:
            v = R.apply_clause(v, c)
        exp = R.finalize(v, run.names[i])
        if i == 0:
            # self-check of the short cut (join computed once per head): the full path text -> parser -> evaluator
            full = R.evaluate(R.parse(run.stmts[i]), dss)[run.names[i]]
            if refbase.compare(full.rows, exp.rows, exp.ids()) or set(full.names()) != set(exp.names()):
                rec.tool_error("reference evaluator: short cut and full evaluation differ for %s" % run.stmts[i])
        got, names, ids = engine_rows(results[i], run.names[i])
        diffs = diff(got, names, ids, exp)
        failing = set()
        if diffs:
            if diffs[0][0] == "wrong-structure":
                failing = set(range(len(cases)))
            else:
                pos = exp.ids().index("C_id")
                failing = {d[1][pos] for d in diffs}
        exp_cids = {r["C_id"] for r in exp.rows}
        tally = {}
        for cid in range(len(cases)):
            kk = (cclass[cid], cid in failing, cid in exp_cids or cid in failing)
            tally[kk] = tally.get(kk, 0) + 1
        for (cl, bad, nontriv), cnt in tally.items():
            rec.case(run.ckey(i) + (cl,), "differs" if bad else "agree", nontrivial=nontriv, n=cnt,
                     sample=({"script": run.stmts[i], "case_class": cl, "cases": cnt} if i == 0 else None))
        if failing:
            cid = min(failing, key=lambda c: (size[c], c))
            run.report(i, {("packed", c) for c in failing}, cases[cid], h.single_data(cases[cid], seed, cid),
                       "prov=" + cclass[cid], (whole, dss, diffs))


_KIND_ORDER = {INNER: 0, LEFT: 1, FULL: 2, CROSS: 3}


def merge_raw_errors(rec):
    """a data-independent raw error of the SQL generation shows up under every join kind / configuration that can
    express the body: keep one finding per (exception class, first clause of the failing body), the smallest context,
    and list the others in its description"""
    groups, rest = {}, []
    for v in rec.violations:
        parts = v["key"].split(":")
        if len(parts) >= 6 and parts[4] in ("raw-error", "runtime-error") and parts[3] == "any-input":
            ctx = parts[2].split("/")          # n-operands / family / body shape
            groups.setdefault((parts[5], ctx[-1].split("+")[0]), []).append(v)
        else:
            rest.append(v)
    for (_cls, _first), vs in sorted(groups.items()):
        def rank(v):
            parts = v["key"].split(":")
            ctx = parts[2].split("/")
            return (len(ctx[-1].split("+")), ctx[-1], _KIND_ORDER.get(parts[1], 9), ctx[1], v["what"])
        vs.sort(key=rank)
        keep = dict(vs[0])
        others = sorted({"%s %s" % (v["key"].split(":")[1], v["key"].split(":")[2]) for v in vs[1:]} - {
            "%s %s" % (keep["key"].split(":")[1], keep["key"].split(":")[2])})
        if others:
            keep["what"] += " [same error class with the same leading clause also under: %s]" % "; ".join(others)[:600]
        rest.append(keep)
        rec.count("error_reports_merged", len(vs) - 1)
    rest.sort(key=lambda v: (v["key"], v["what"]))      # which of several equal-key reports is kept must not depend on timing
    rec.violations[:] = rest


class Check:
    ID = "C04"
    LEVEL = "exploration"
    RULE = ("program = join kind {inner,left,full,cross} x 2-3 operands x identifier configuration {equal sets (1 or 2 "
            "identifiers); nested (other operands' identifiers a subset of the reference's, reference first / middle / "
            "last); using = all common identifiers; using = a proper subset of the reference's identifiers; using with a "
            "key that is a measure in the reference; cross_join with disjoint / equal identifier names} x alias {none, "
            "as d_i} x measure-name clash {none, operands 1+2, 2+3, 1+2+3} x body over fixed clause alphabets (3 filters, "
            "3 calc, 3 aggr, apply, keep/drop of every measure, renames; quick: bodies of length <= 1, thorough: every "
            "grammatical body of length <= 2); bodies the reference semantics calls ill-formed are not in the space. "
            "input = every key-presence pattern over a 3-key universe per operand (8^n combinations) packed through the "
            "common identifier C_id, measures tagged 100*operand+key; cross_join unpacked over a 2-key universe (2 operands: 4^2 "
            "presence combinations; 3 operands: 0/1/2 datapoints per operand = 27 combinations and bodies of length <= 1 "
            "plus the mandatory identifier rename); "
            "plus unpacked runs with empty operands. the bodies of one head are the statements of one script (40 per "
            "script), each judged separately; a differing statement is re-run alone on its smallest failing slice. one case = one (program, input combination); coverage key = "
            "(kind, n, configuration, alias, clash, body shape, provenance class of the case = which combinations of "
            "operands meet in its virtual datapoints); non-trivial = the expected result of the case is non-empty. "
            "quick = 2 operands in all configurations (one identifier) + 3 operands with equal identifier sets.")
    ASSUMPTIONS = ["the reference evaluator (vtlmc/ref_c04.py) is calibrated at the start of every run against the "
                   "Reference-Manual join examples RM006-RM012 and the tests/Joins expectations inside its subset",
                   "null values in a non-identifier join key (using on a measure) are not in the alphabet: the manual "
                   "does not say whether null matches null",
                   "left_join of operands whose identifiers are a proper subset of the left-most operand's (accepted "
                   "by the engine, case A2 of the manual asks for equal sets) is evaluated as the stepwise join on the "
                   "common identifiers",
                   "count, having, user-defined operators and nested joins are not modelled"]

    def run(self, tier, seed, rec):
        harness.boot()
        ok, failures = calibrate(rec)
        if failures:
            for f in failures[:10]:
                rec.tool_error("oracle not calibrated: " + f)
            return {"exhaustive": False, "traces_validated_against_impl": ok}
        if ok < len(RM_NUMBERS) + 20:
            rec.tool_error("oracle not calibrated: only %d stored expectations could be evaluated" % ok)
            return {"exhaustive": False, "traces_validated_against_impl": ok}
        items = heads(tier)
        for it in items:
            it["seed"] = seed
        # heavier heads first within the seeded order keeps the workers busy until the end
        items = harness.seeded_order(items, seed)
        items.sort(key=lambda it: -it["n"])
        harness.pmap(run_head, items, rec)
        merge_raw_errors(rec)
        if not rec.counters.get("expected_null_filled_datapoints") or not rec.counters.get("expected_matched_datapoints"):
            rec.tool_error("vacuous: no null-filled / matched datapoint was ever expected")
        if not rec.keys:
            rec.tool_error("vacuous: no non-trivial case")
        return {"exhaustive": True, "traces_validated_against_impl": ok, "heads": len(items),
                "engine_runs": rec.counters.get("engine_runs", 0),
                "programs_rejected_by_engine": sorted(rec.sets.get("rejected", ()))[:40]}

    def replay(self, data):
        harness.boot()
        dss = [ds_from_json(j) for j in data["datasets"]]
        name = data.get("result", "DS_r")
        try:
            exp = R.evaluate(R.parse(data["script"]), dss)[name]
        except (R.RefError, R.NotModelled):
            return False
        out = refbase.run(data["script"], dss)
        if out[0] != "ok":
            # a raw exception, or a run-time failure of a program that semantic analysis accepts
            return out[1] == "raw" or refbase.semantic(data["script"], dss)[0] == "ok"
        got, names, ids = engine_rows(out, name)
        return bool(diff(got, names, ids, exp))

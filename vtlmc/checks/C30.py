"""C30 — numeric precision settings are applied and validated as documented.

Complete grid OUTPUT_NUMBER_SIGNIFICANT_DIGITS x VTL_DUCKDB_DECIMAL_WIDTH over -5..45 (quick: the boundary
set squared plus each axis completely with the other variable unset) plus non-integer strings, every setting
executed **from a fresh engine state**: the parent boots the engine (import only, never ``run()``), and for
each setting forks a child which sets the environment, calls ``vtlengine.run`` and reports through a pipe.
The engine keeps the two values in module globals of duckdb_transpiler/Config/config.py, so resetting them
by hand would hide exactly the stickiness this property is about.

Separately, HISTORIES: every ordered pair (A, B) of a 7-element set of settings executed in ONE child process
(set A, run; set B, run); the observation of B must equal the observation of B from a fresh state.

Oracle (O2): the accepted ranges, the disabling value, the defaults and the fall-back of the disabling value
are parsed at run time from docs/environment_variables.rst; the configuration error is the catalogue entry
whose message has the ``{env_var}`` placeholder.  Under an accepted setting DECIMAL(width, scale):

* stored value = input rounded to ``scale`` decimals with Python ``decimal`` (rounding mode calibrated once,
  among the round-to-nearest modes only, on the default setting; the engine uses ROUND_HALF_UP),
* a value whose rounded form needs more than ``width - scale`` integer digits is rejected with a VTL error,
* ``Me_1 + Me_2`` / ``Me_1 - Me_2`` = exact decimal arithmetic on the stored values,

all compared after conversion to float with a pure relative tolerance of 1e-9 (0 must be 0).
"""
import csv
import json
import os
import re
import select
import time
import traceback
from decimal import ROUND_HALF_DOWN, ROUND_HALF_EVEN, ROUND_HALF_UP, Decimal, localcontext

from vtlmc import harness

SCALE_VAR = "OUTPUT_NUMBER_SIGNIFICANT_DIGITS"
WIDTH_VAR = "VTL_DUCKDB_DECIMAL_WIDTH"
VARS = (SCALE_VAR, WIDTH_VAR)
SCRIPT = "DS_r <- DS_1[calc s := Me_1 + Me_2, d := Me_1 - Me_2];"
GRID = list(range(-5, 46))
BOUNDARY = [-5, -2, -1, 0, 5, 6, 7, 10, 14, 15, 16, 28, 37, 38, 39, 45]
STRINGS = ["abc", "", "7.5"]
MODES = {"ROUND_HALF_UP": ROUND_HALF_UP, "ROUND_HALF_EVEN": ROUND_HALF_EVEN, "ROUND_HALF_DOWN": ROUND_HALF_DOWN}
FORMS = ("dataframe-of-strings", "csv-file")
# histories: (label, scale, width); None = variable not defined
HISTORY_SET = [
    ("default", None, None),
    ("valid-small", "6", "12"),
    ("valid-maximum", "15", "38"),
    ("disabled", "-1", "-1"),
    ("scale-below-minimum", "5", None),
    ("width-above-maximum", None, "39"),
    ("scale-non-integer", "abc", None),
]
REL = 1e-9


def data_structures():
    H = harness
    return H.structures(H.structure("DS_1", [H.comp("Id_1", "Integer", "Identifier"), H.comp("Me_1", "Number", "Measure"),
                                             H.comp("Me_2", "Number", "Measure")]))


# ------------------------------------------------------------------------------------------------
# O2: the documentation, parsed at run time
# ------------------------------------------------------------------------------------------------

def parse_docs(path=None):
    """-> {var: {lo, hi, disable, default, disabled_means}} from docs/environment_variables.rst"""
    path = path or os.path.join(harness.REPO, "docs", "environment_variables.rst")
    text = open(path, encoding="utf-8").read()
    lines = text.split("\n")
    out = {}
    for var in VARS:
        start = None
        for i, ln in enumerate(lines[:-1]):
            if ln.strip() == "``%s``" % var and set(lines[i + 1].strip()) == {"="}:
                start = i + 2
                break
        if start is None:
            raise ValueError("section for %s not found in %s" % (var, path))
        end = len(lines)
        for j in range(start, len(lines) - 1):
            nxt = lines[j + 1].strip()
            if lines[j].strip() and nxt and len(set(nxt)) == 1 and nxt[0] in "=*#-~^" and len(nxt) >= 3 and not lines[j].startswith(" "):
                end = j
                break
        rows, cur = [], None
        for ln in lines[start:end]:
            m = re.match(r"\s*\* - (.*)$", ln)
            if m:
                cur = [m.group(1).strip(), ""]
                rows.append(cur)
                continue
            m = re.match(r"\s+- (.*)$", ln)
            if m and cur is not None and cur[1] == "":
                cur[1] = m.group(1).strip()
                continue
            if cur is not None and ln.startswith("       ") and ln.strip():
                cur[1] += " " + ln.strip()
            elif not ln.strip():
                continue
            elif not ln.startswith(" "):
                cur = None
        d = {}
        for val, beh in rows:
            m = re.fullmatch(r"``(-?\d+)`` to ``(-?\d+)``", val)
            if m:
                d["lo"], d["hi"] = int(m.group(1)), int(m.group(2))
                continue
            m = re.fullmatch(r"``(-?\d+)``", val)
            if m:
                d["disable"] = int(m.group(1))
                mm = re.search(r"maximum (?:scale|precision) of (\d+)", beh)
                if mm:
                    d["disabled_means"] = int(mm.group(1))
                continue
            if val.lower().startswith("not defined"):
                mm = re.search(r"\*\*(\d+)\*\*\s*\(DuckDB\)", beh)
                nums = re.findall(r"\*\*(\d+)\*\*", beh)
                if mm:
                    d["default"] = int(mm.group(1))
                elif len(nums) == 1:
                    d["default"] = int(nums[0])
        missing = [k for k in ("lo", "hi", "disable", "default", "disabled_means") if k not in d]
        if missing:
            raise ValueError("cannot read %s of %s from %s (rows: %r)" % (missing, var, path, rows))
        out[var] = d
    return out


def config_error_code():
    from vtlengine.Exceptions.messages import centralised_messages as CAT
    codes = [c for c, e in CAT.items() if "{env_var}" in e["message"]]
    if len(codes) != 1:
        raise ValueError("expected exactly one catalogue entry with an {env_var} placeholder, found %r" % codes)
    return codes[0]


def is_int(raw):
    return re.fullmatch(r"-?\d+", raw) is not None


def classify(doc, raw):
    """equivalence class of one raw variable value against the documented table"""
    if raw is None:
        return "unset"
    if not is_int(raw):
        return "non-integer-string"
    v = int(raw)
    if v == doc["disable"]:
        return "disabled"
    if v < doc["lo"]:
        return "below-documented-min"
    if v > doc["hi"]:
        return "above-documented-max"
    if v == doc["lo"]:
        return "documented-min"
    if v == doc["hi"]:
        return "documented-max"
    return "in-range"


ACCEPTED_CLASSES = ("unset", "disabled", "documented-min", "documented-max", "in-range")


def effective(doc, raw):
    """value the documentation says is in force (empty string planned as 'not defined')"""
    if raw is None or raw == "":
        return doc["default"]
    v = int(raw)
    return doc["disabled_means"] if v == doc["disable"] else v


# ------------------------------------------------------------------------------------------------
# the data programs run under a setting
# ------------------------------------------------------------------------------------------------

BASIC_ROWS = [["1.5", "0.25"], ["0.000001", "-2.5"]]


def value_programs(w, s):
    """[(kind, labels, rows)] for DECIMAL(w, s), w >= s"""
    i = w - s
    ip = ("1234567890" * 4)[:i]
    fp = ("9876543210" * 2)[:s]
    m = (ip or "0") + "." + fp                       # needs exactly all configured digits
    a = ("9" * i or "0") + "." + "9" * s            # largest representable value
    u = "0." + "0" * (s - 1) + "1"
    half = "0." + "0" * s + "5"
    one_half = "0." + "0" * (s - 1) + "15"
    two_half = "0." + "0" * (s - 1) + "25"
    below_half = "0." + "0" * s + "49999"
    small = "1" if i >= 1 else "0.5"
    main = [
        ("all-configured-digits", [m, u]),
        ("one-extra-fraction-digit-below-half", [m + "4", m]),
        ("half-way-at-scale", [m + "5", m]),
        ("negative-half-way-at-scale", ["-" + m + "5", "-" + m]),
        ("largest-representable", [a, "0"]),
        ("largest-representable-plus-extra-digit-below-half", [a + "4", "0"]),
        ("most-negative-representable", ["-" + a, "0"]),
        ("half-unit-in-last-place", [half, "-" + half]),
        ("odd-and-even-half-units", [one_half, two_half]),
        ("just-below-half-unit", [below_half, "0"]),
        ("null-operand", [None, small]),
        ("null-operand", [m, None]),
    ]
    sumfit = [
        ("sum-of-two-largest-representable", [a, a]),
        ("largest-representable-minus-its-negative", [a, "-" + a]),
    ]
    over = "1" + "0" * i
    progs = [("main", [x[0] for x in main], [x[1] for x in main]),
             ("sum-needing-one-more-digit", [x[0] for x in sumfit], [x[1] for x in sumfit]),
             ("reject:one-integer-digit-too-many", ["fits", "one-integer-digit-too-many"], [["0.5", "0.25"], [over, "0"]]),
             ("reject:rounds-up-beyond-largest-representable", ["fits", "rounds-up-beyond-largest-representable"],
              [["0.5", "0.25"], [a + "5", "0"]]),
             ("reject:negative-one-integer-digit-too-many", ["fits", "negative-one-integer-digit-too-many"],
              [["0.5", "0.25"], ["-" + over, "0"]])]
    return progs


def plan(docs, scale, width):
    """-> dict describing what the documentation says about the setting and which programs to run"""
    cs, cw = classify(docs[SCALE_VAR], scale), classify(docs[WIDTH_VAR], width)
    offending = []
    for var, raw, c in ((SCALE_VAR, scale, cs), (WIDTH_VAR, width, cw)):
        if c not in ACCEPTED_CLASSES and raw != "":
            offending.append(var)
    p = {"scale": scale, "width": width, "cs": cs, "cw": cw, "offending": offending, "empty": [v for v, r in ((SCALE_VAR, scale), (WIDTH_VAR, width)) if r == ""]}
    if offending:
        p.update(expect="config-error", rel="n/a", programs=[{"kind": "basic", "form": FORMS[0], "rows": BASIC_ROWS, "labels": ["basic", "basic"]}])
        return p
    s, w = effective(docs[SCALE_VAR], scale), effective(docs[WIDTH_VAR], width)
    p["eff"] = [w, s]
    if w < s:
        p.update(expect="unusable", rel="width<scale", programs=[{"kind": "basic", "form": FORMS[0], "rows": BASIC_ROWS, "labels": ["basic", "basic"]}])
        return p
    p.update(expect="accepted", rel="width=scale" if w == s else "width>scale")
    p["programs"] = [{"kind": k, "form": f, "rows": rows, "labels": labels} for (k, labels, rows) in value_programs(w, s) for f in FORMS]
    return p


# ------------------------------------------------------------------------------------------------
# child side: fresh engine state per setting (or per history)
# ------------------------------------------------------------------------------------------------

def prime():
    """boot the engine and fill the parser cache of the stand-in WITHOUT ever calling run()"""
    V = harness.boot()
    from frontend import fe
    fe._State.cache_on = True
    V.semantic_analysis(script=SCRIPT, data_structures=data_structures())
    from vtlengine.duckdb_transpiler.Config import config as C
    if (C.DECIMAL_WIDTH, C.DECIMAL_SCALE) != (C.DEFAULT_DECIMAL_WIDTH, C.DEFAULT_DECIMAL_SCALE):
        raise RuntimeError("engine configuration globals are not pristine before the first run()")
    _warm_third_party()
    return V


def _warm_third_party():
    """lazy one-time initialisations of pandas / pyarrow / numpy (no engine code, no engine state) done once in the
    parent instead of in every child; gc.freeze() keeps the collector from dirtying the pages shared with the children"""
    import gc
    import encodings.utf_8_sig  # noqa: F401
    import numpy.rec  # noqa: F401
    import pandas as pd
    import pandas.core.methods.to_dict  # noqa: F401
    import pyarrow as pa
    import pyarrow.pandas_compat  # noqa: F401
    df = pd.DataFrame({"a": pd.Series(["1.5", None], dtype=object), "b": [2, 1], "c": [1.5, float("nan")]})
    pa.Table.from_pandas(df)
    df.sort_values("b").to_dict("records")
    pd.isna(df["c"][0])
    gc.collect()
    gc.freeze()


def _run_program(V, prog, wdir):
    import pandas as pd
    rows = prog["rows"]
    if prog["form"] == "csv-file":
        os.makedirs(wdir, exist_ok=True)
        path = os.path.join(wdir, "DS_1.csv")
        with open(path, "w", newline="", encoding="utf-8") as f:
            wr = csv.writer(f)
            wr.writerow(["Id_1", "Me_1", "Me_2"])
            for i, (a, b) in enumerate(rows):
                wr.writerow([i, "" if a is None else a, "" if b is None else b])
        dp = {"DS_1": path}
    else:
        dp = {"DS_1": pd.DataFrame({"Id_1": list(range(len(rows))), "Me_1": pd.Series([r[0] for r in rows], dtype=object),
                                    "Me_2": pd.Series([r[1] for r in rows], dtype=object)})}
    try:
        res = V.run(script=SCRIPT, data_structures=data_structures(), datapoints=dp)
    except Exception as e:  # noqa: BLE001
        kind, cls, code = harness.classify_exception(e)
        return ["err", kind, cls, type(e).__module__, code, str(e)[:300]]
    df = res["DS_r"].data
    out = []
    for r in df.sort_values("Id_1").to_dict("records"):
        row = [int(r["Id_1"])]
        for c in ("Me_1", "Me_2", "s", "d"):
            v = r[c]
            row.append(None if v is None or pd.isna(v) else float(v))
        out.append(row)
    return ["ok", out]


def _child_sequence(seq):
    """executed in the forked child: [(scale, width, programs)] in order -> observations"""
    import vtlengine as V
    from frontend import fe
    req0 = fe._State.requests
    wdir = os.path.join(harness.scratch(), "c30", str(os.getpid()))
    out = []
    for st in seq:
        for var, val in ((SCALE_VAR, st["scale"]), (WIDTH_VAR, st["width"])):
            if val is None:
                os.environ.pop(var, None)
            else:
                os.environ[var] = val
        out.append([_run_program(V, p, wdir) for p in st["programs"]])
    return {"obs": out, "parser_requests": fe._State.requests - req0}


def in_child(fn, arg, timeout=600):
    """run fn(arg) in a forked child of this (booted, never-run) process; JSON result through a pipe"""
    r, w = os.pipe()
    pid = os.fork()
    if pid == 0:
        try:
            os.close(r)
            try:
                data = json.dumps(fn(arg))
            except BaseException:  # noqa: BLE001
                data = json.dumps({"crash": traceback.format_exc()[-1500:]})
            with os.fdopen(w, "wb") as f:
                f.write(data.encode("utf-8"))
        finally:
            os._exit(0)
    os.close(w)
    buf, t_end = [], time.time() + timeout
    try:
        while True:
            left = t_end - time.time()
            if left <= 0:
                os.kill(pid, 9)
                os.waitpid(pid, 0)
                return {"crash": "child timed out"}
            ready, _, _ = select.select([r], [], [], min(left, 5.0))
            if ready:
                chunk = os.read(r, 1 << 16)
                if not chunk:
                    break
                buf.append(chunk)
    finally:
        os.close(r)
    _, status = os.waitpid(pid, 0)
    raw = b"".join(buf)
    if not raw:
        return {"crash": "child died without reporting (wait status %d)" % status}
    return json.loads(raw.decode("utf-8"))


# ------------------------------------------------------------------------------------------------
# oracle
# ------------------------------------------------------------------------------------------------

def close(o, e):
    if o is None or e is None:
        return o is None and e is None
    if e == 0:
        return o == 0
    return abs(o - e) <= REL * abs(e)


def expected_rows(rows, s, mode):
    """-> [(stored a, stored b, sum, diff)] as Decimal/None"""
    q = Decimal(1).scaleb(-s)
    out = []
    with localcontext() as ctx:
        ctx.prec = 200
        for a, b in rows:
            ra = None if a is None else Decimal(a).quantize(q, rounding=mode)
            rb = None if b is None else Decimal(b).quantize(q, rounding=mode)
            both = ra is not None and rb is not None
            out.append((ra, rb, ra + rb if both else None, ra - rb if both else None))
    return out


def fits(x, w, s):
    if x is None:
        return True
    with localcontext() as ctx:  # abs() rounds to the context precision: the default 28 digits would turn 99...9 into 10^n
        ctx.prec = 200
        return abs(x) < Decimal(10) ** (w - s)


def fl(x):
    return None if x is None else float(x)


def err_class(obs):
    """short outcome class of an error observation"""
    _, kind, cls, module, code, _ = obs
    if kind == "vtl":
        return "vtl:%s" % code
    return ("accepted-then-raw-error:%s" if "duckdb" in (module or "") else "raw-error:%s") % cls


def evaluate_program(p, prog, obs, mode, cfg_code):
    """deviations of one executed program from the documented behaviour -> [(key tail, sentence)]"""
    devs = []
    setting = "%s=%r, %s=%r" % (SCALE_VAR, p["scale"], WIDTH_VAR, p["width"])
    # an empty string is planned as 'not defined'; rejecting it with the configuration error is just as good,
    # but an error that is neither a VTL error nor raised by DuckDB on the data is about the setting
    empty_rejected = p["empty"] and obs[0] == "err" and (
        (obs[1] == "vtl" and obs[4] == cfg_code) or (obs[1] != "vtl" and "duckdb" not in (obs[3] or "")))
    if p["expect"] == "config-error" or empty_rejected:
        bad_vars = p["offending"] or p["empty"]
        if len(bad_vars) == 2 and p["cs"] == p["cw"]:
            # both variables offend in the same way: the setting says nothing the two single-variable settings do not
            # say, so a deviation is filed under each variable (same keys as there) instead of under a third key
            out = []
            for v in bad_vars:
                q = dict(p, offending=[v], empty=[], expect="config-error")
                out += [d for d in evaluate_program(q, prog, obs, mode, cfg_code) if not d[0].endswith("error-names-another-variable")]
            return out
        who = "+".join(bad_vars)
        klass = "+".join("%s" % c for v, c in ((SCALE_VAR, p["cs"]), (WIDTH_VAR, p["cw"])) if v in bad_vars)
        if obs[0] == "ok":
            devs.append(("%s:%s:accepted" % (who, klass), "%s is outside the documented values but run() succeeded" % setting))
        elif obs[1] != "vtl":
            devs.append(("%s:%s:%s" % (who, klass, err_class(obs)),
                         "%s is outside the documented values; expected the configuration error %s, got raw %s.%s: %s" % (
                             setting, cfg_code, obs[3], obs[2], obs[5][:160])))
        elif obs[4] != cfg_code:
            devs.append(("%s:%s:wrong-error:%s" % (who, klass, obs[4]),
                         "%s: expected the configuration error %s, got %s %s: %s" % (setting, cfg_code, obs[2], obs[4], obs[5][:160])))
        elif not any(v in obs[5] for v in (p["offending"] or p["empty"])):
            devs.append(("%s:%s:error-names-another-variable" % (who, klass),
                         "%s: the configuration error does not name the offending variable: %s" % (setting, obs[5][:200])))
        return devs
    if p["expect"] == "unusable":
        # both values are documented as accepted but no DECIMAL(width, scale) exists: anything but a raw error / crash
        if obs[0] == "err" and obs[1] != "vtl":
            devs.append(("setting:width-below-scale-both-documented:%s" % err_class(obs),
                         "%s are both documented as accepted (effective DECIMAL(%d,%d)) but run() raises raw %s.%s: %s" % (
                             setting, p["eff"][0], p["eff"][1], obs[3], obs[2], obs[5][:160])))
        return devs
    w, s = p["eff"]
    exp = expected_rows(prog["rows"], s, mode)
    kind = prog["kind"]
    if kind.startswith("reject:"):
        label = prog["labels"][1]
        if fits(exp[1][0], w, s) or not fits(exp[0][0], w, s):
            raise RuntimeError("oracle construction error: reject program %s under (%d,%d)" % (kind, w, s))
        if obs[0] == "ok":
            devs.append(("number-input:%s:accepted-though-it-does-not-fit-the-precision" % label,
                         "%s (DECIMAL(%d,%d)): input %s does not fit but was stored as %r" % (setting, w, s, prog["rows"][1][0], obs[1][1][1] if len(obs[1]) > 1 else None)))
        elif obs[1] != "vtl":
            devs.append(("number-input:%s:%s" % (label, err_class(obs)),
                         "%s (DECIMAL(%d,%d)): input %s does not fit; expected a VTL error, got raw %s.%s: %s" % (
                             setting, w, s, prog["rows"][1][0], obs[3], obs[2], obs[5][:160])))
        return devs
    overflow = kind == "sum-needing-one-more-digit" and any(not fits(x, w, s) for e in exp for x in e[2:])
    if any(not fits(x, w, s) for e in exp for x in e[:2]):
        raise RuntimeError("oracle construction error: an input of %s does not fit (%d,%d)" % (kind, w, s))
    if obs[0] == "err":
        if overflow:
            # the exact sum needs one digit more than the configured width: the exact value is expected (the property puts
            # no precision limit on results), a VTL error is tolerated as 'does not fit the configured precision'
            if obs[1] != "vtl":
                devs.append(("sum-difference:result-needs-one-digit-more-than-the-configured-width:%s" % err_class(obs),
                             "%s (DECIMAL(%d,%d)): %s + %s needs %d digits; expected the exact sum (or at least a VTL error), got raw %s.%s: %s" % (
                                 setting, w, s, prog["rows"][0][0], prog["rows"][0][1], w + 1, obs[3], obs[2], obs[5][:160])))
            return devs
        tail = "rejected:%s" % obs[4] if obs[1] == "vtl" else err_class(obs)
        devs.append(("number-input:fits-the-configured-precision:%s" % tail,
                     "%s (DECIMAL(%d,%d)): every input of program '%s' fits, yet run() raised %s %s: %s" % (
                         setting, w, s, kind, obs[2], obs[4], obs[5][:200])))
        return devs
    got = obs[1]
    if len(got) != len(exp):
        devs.append(("result:row-count", "%s: %d rows in, %d rows out" % (setting, len(exp), len(got))))
        return devs
    for (rid, ga, gb, gs, gd), (ea, eb, es, ed), label, src in zip(got, exp, prog["labels"], prog["rows"]):
        for name, g, e, raw in (("Me_1", ga, ea, src[0]), ("Me_2", gb, eb, src[1])):
            if not close(g, fl(e)):
                devs.append(("number-input:%s:stored-value-is-not-the-input-rounded-to-the-scale" % label,
                             "%s (DECIMAL(%d,%d)): input %s=%s stored as %r, expected %s (%s)" % (setting, w, s, name, raw, g, e, mode)))
        for name, g, e in (("+", gs, es), ("-", gd, ed)):
            if not close(g, fl(e)):
                devs.append(("sum-difference:%s:not-exact-decimal-arithmetic-at-the-scale" % label,
                             "%s (DECIMAL(%d,%d)): %s %s %s = %r, expected %s" % (setting, w, s, src[0], name, src[1], g, e)))
    return devs


def evaluate_setting(p, observations, mode, cfg_code):
    """-> (deviations merged over input forms [(key, what)], [(coverage key, outcome)])"""
    per = {}
    cover = []
    for prog, obs in zip(p["programs"], observations):
        devs = evaluate_program(p, prog, obs, mode, cfg_code)
        oc = "ok" if obs[0] == "ok" else err_class(obs)
        cover.append(((p["cs"], p["cw"], p["rel"], prog["kind"], prog["form"], oc), oc))
        for tail, what in devs:
            per.setdefault((prog["kind"], tail), {}).setdefault(prog["form"], what)
    nforms = len({pr["form"] for pr in p["programs"]})
    out = []
    for (kind, tail), by_form in sorted(per.items()):
        if nforms > 1 and len(by_form) < nforms:
            for f, what in sorted(by_form.items()):
                out.append(("C30:%s:only-from-%s" % (tail, f), what + " [input form: %s]" % f))
        else:
            f, what = sorted(by_form.items())[0]
            out.append(("C30:" + tail, what + (" [every input form]" if nforms > 1 else "")))
    return out, cover


def same_observation(a, b):
    if a[0] != b[0]:
        return False
    if a[0] == "err":
        return a[1:5] == b[1:5]
    if len(a[1]) != len(b[1]):
        return False
    for ra, rb in zip(a[1], b[1]):
        if ra[0] != rb[0] or not all(close(x, y) and close(y, x) for x, y in zip(ra[1:], rb[1:])):
            return False
    return True


def short(obs):
    if obs[0] == "ok":
        return "ok %r" % (obs[1][:2],)
    return "%s.%s code=%s: %s" % (obs[3], obs[2], obs[4], obs[5][:120])


def check_history(docs, a, b):
    """-> (deviations [(key, what)], coverage key, outcome) for history A then B"""
    pa = plan(docs, a[1], a[2])
    pb = plan(docs, b[1], b[2])
    first = dict(pa, programs=[{"kind": "basic", "form": FORMS[0], "rows": BASIC_ROWS, "labels": ["basic", "basic"]}])
    fresh = in_child(_child_sequence, [pb])
    hist = in_child(_child_sequence, [first, pb])
    if "crash" in fresh or "crash" in hist:
        raise RuntimeError("child failed: %s" % (fresh.get("crash") or hist.get("crash")))
    devs = []
    leaked = [v for v, ra, rb in ((SCALE_VAR, a[1], b[1]), (WIDTH_VAR, a[2], b[2])) if rb is None and ra is not None]
    diff = None
    for prog, of, oh in zip(pb["programs"], fresh["obs"][0], hist["obs"][1]):
        if not same_observation(of, oh):
            diff = (prog, of, oh)
            break
    if diff:
        prog, of, oh = diff
        what = ("after a run under %s (%s=%r, %s=%r) the run under %s (%s=%r, %s=%r) gives [%s]; from a fresh process the same setting "
                "gives [%s] (program %s, %s)" % (a[0], SCALE_VAR, a[1], WIDTH_VAR, a[2], b[0], SCALE_VAR, b[1], WIDTH_VAR, b[2],
                                               short(oh), short(of), prog["kind"], prog["form"]))
        if leaked:
            devs.append(("C30:history:earlier-setting-then-variable-unset:earlier-setting-sticks", what))
        else:
            devs.append(("C30:history:%s-then-%s:later-run-differs-from-fresh-state" % (a[0], b[0]), what))
    first_oc = "ok" if hist["obs"][0][0][0] == "ok" else err_class(hist["obs"][0][0])
    return devs, ("history", a[0], b[0], first_oc, "leak" if diff else "same"), ("history-leak" if diff else "history-same")


# ------------------------------------------------------------------------------------------------
# worker items
# ------------------------------------------------------------------------------------------------

_CTX = {}


def _ctx():
    if not _CTX:
        prime()
        _CTX["docs"] = parse_docs()
        _CTX["cfg"] = config_error_code()
    return _CTX


def run_fresh(docs, cfg, mode, scale, width):
    p = plan(docs, scale, width)
    res = in_child(_child_sequence, [p])
    if "crash" in res:
        raise RuntimeError("child failed for %r/%r: %s" % (scale, width, res["crash"]))
    devs, cover = evaluate_setting(p, res["obs"][0], MODES[mode], cfg)
    return p, res, devs, cover


def work(item, rec):
    c = _ctx()
    mode = item["mode"]
    if item["kind"] == "fresh":
        for scale, width in item["settings"]:
            p, res, devs, cover = run_fresh(c["docs"], c["cfg"], mode, scale, width)
            rec.count("fresh_settings")
            rec.count("fresh_settings_documented_as_" + p["expect"])
            if res.get("parser_requests"):
                rec.count("parser_requests_in_children", res["parser_requests"])
            for k, oc in cover:
                rec.case(k, oc, sample={"scale": scale, "width": width, "class": list(k)})
            for key, what in devs:
                rec.violation(key, what, {"key": key, "kind": "fresh", "scale": scale, "width": width, "mode": mode})
    else:
        for a, b in item["pairs"]:
            devs, k, oc = check_history(c["docs"], a, b)
            rec.count("histories")
            rec.case(k, oc, sample={"first": a, "second": b, "class": list(k)})
            for key, what in devs:
                rec.violation(key, what, {"key": key, "kind": "history", "first": a, "second": b, "mode": mode})


def calibrate(docs, rec):
    """rounding rule of the engine on the default setting, among the round-to-nearest modes"""
    p = plan(docs, None, None)
    res = in_child(_child_sequence, [p])
    if "crash" in res:
        raise RuntimeError("calibration child failed: %s" % res["crash"])
    w, s = p["eff"]
    scores = {}
    for name, mode in MODES.items():
        bad = 0
        for prog, obs in zip(p["programs"], res["obs"][0]):
            if prog["kind"] != "main" or obs[0] != "ok":
                continue
            for got, e in zip(obs[1], expected_rows(prog["rows"], s, mode)):
                bad += sum(0 if close(g, fl(x)) else 1 for g, x in zip(got[1:3], e[:2]))
        scores[name] = bad
    ran = any(prog["kind"] == "main" and obs[0] == "ok" for prog, obs in zip(p["programs"], res["obs"][0]))
    best = [n for n, b in scores.items() if b == 0]
    if not ran or len(best) != 1:
        rec.note("rounding mode not identified on the default setting (mismatches per mode %r, main program ran: %s); "
                 "falling back to ROUND_HALF_UP" % (scores, ran))
        return "ROUND_HALF_UP", False
    rec.note("rounding rule calibrated on the default setting DECIMAL(%d,%d): %s (mismatching stored values per candidate: %r)" % (w, s, best[0], scores))
    return best[0], True


def enumerate_settings(tier):
    out = []
    if tier == "thorough":
        out += [(str(a), str(b)) for a in GRID for b in GRID]
    else:
        out += [(str(a), str(b)) for a in BOUNDARY for b in BOUNDARY]
    out += [(str(a), None) for a in GRID] + [(None, str(b)) for b in GRID] + [(None, None)]
    for sv in STRINGS:
        out += [(sv, None), (sv, "20"), (None, sv), ("10", sv)]
    out += [("abc", "abc"), ("", "")]
    seen, uniq = set(), []
    for s in out:
        if s not in seen:
            seen.add(s)
            uniq.append(s)
    return uniq


class Check:
    ID = "C30"
    LEVEL = "exploration"
    RULE = ("every setting (OUTPUT_NUMBER_SIGNIFICANT_DIGITS, VTL_DUCKDB_DECIMAL_WIDTH) of the grid -5..45 squared (quick: a 16-value "
            "boundary set squared + each axis completely with the other variable unset) + non-integer strings is run in its own "
            "forked child of a booted engine that never ran; under a documented-accepted setting 5 data programs x 2 input forms "
            "(values needing all digits, one digit too many before/after the point, half-way cases, sums/differences) are checked "
            "against Python decimal; plus all 49 ordered pairs of 7 settings executed in one process. One case = one executed "
            "program; distinct = (class of the scale value, class of the width value w.r.t. the documented table, width/scale "
            "relation, program, input form, outcome class) resp. (first setting, second setting, outcome of the first, leak?).")
    ASSUMPTIONS = [
        "the documented ranges, defaults and the meaning of -1 are read from docs/environment_variables.rst at run time",
        "returned Numbers are float64: stored values and sums are compared with relative tolerance 1e-9 (0 must be exactly 0), so a wrong "
        "rounding of a value with more than ~9 significant digits is only visible through the differences of pairs (which are included)",
        "rounding rule: any round-to-nearest rule is accepted as 'rounded'; which one is calibrated once on the default setting",
        "a sum that needs one digit more than the configured width may be answered by a VTL error (never by a raw one); an empty-string value "
        "may be treated as 'not defined'",
        "settings whose width is below the scale (both documented as accepted) only have to avoid raw errors",
        "scalar Number results (rounded to significant digits by _normalize_scalar_value) are not part of this check",
    ]

    def run(self, tier, seed, rec):
        for v in VARS:
            if os.environ.pop(v, None) is not None:
                rec.note("%s was set in the environment of the check and has been removed" % v)
        prime()
        docs = parse_docs()
        cfg = config_error_code()
        _CTX.update(docs=docs, cfg=cfg)
        rec.note("documented: %s" % json.dumps(docs, sort_keys=True))
        rec.note("configuration error code from the catalogue: %s" % cfg)
        mode, calibrated = calibrate(docs, rec)
        settings = harness.seeded_order(enumerate_settings(tier), seed)
        pairs = harness.seeded_order([(a, b) for a in HISTORY_SET for b in HISTORY_SET], seed)
        items = [{"kind": "fresh", "mode": mode, "settings": ch} for ch in harness.chunks(settings, 10)]
        items += [{"kind": "history", "mode": mode, "pairs": ch} for ch in harness.chunks(pairs, 4)]
        harness.pmap(work, items, rec)
        from vtlengine.duckdb_transpiler.Config import config as C
        if (C.DECIMAL_WIDTH, C.DECIMAL_SCALE) != (C.DEFAULT_DECIMAL_WIDTH, C.DEFAULT_DECIMAL_SCALE):
            rec.tool_error("the parent process executed run(): fresh-state guarantee lost")
        n_acc = rec.counters.get("fresh_settings_documented_as_accepted", 0)
        n_rej = rec.counters.get("fresh_settings_documented_as_config-error", 0)
        if not n_acc or not n_rej or rec.counters.get("histories", 0) != len(pairs):
            rec.tool_error("non-vacuity: accepted=%d rejected=%d histories=%s" % (n_acc, n_rej, rec.counters.get("histories")))
        if rec.counters.get("fresh_settings", 0) != len(settings):
            rec.tool_error("only %s of %d settings were executed" % (rec.counters.get("fresh_settings"), len(settings)))
        if not any(k[3] == "main" and k[5] == "ok" for k in rec.keys if len(k) == 6):
            rec.tool_error("non-vacuity: no value program succeeded under any accepted setting")
        return {"exhaustive": True, "settings_fresh": len(settings), "histories": len(pairs), "rounding_mode": mode,
                "rounding_mode_calibrated": calibrated, "grid": "full -5..45 squared" if tier == "thorough" else "boundary set squared + full axes",
                "documented": docs}

    def replay(self, data):
        for v in VARS:
            os.environ.pop(v, None)
        c = _ctx()
        if data["kind"] == "fresh":
            _, _, devs, _ = run_fresh(c["docs"], c["cfg"], data.get("mode", "ROUND_HALF_UP"), data["scale"], data["width"])
        else:
            devs, _, _ = check_history(c["docs"], tuple(data["first"]), tuple(data["second"]))
        for key, what in devs:
            print("   %s :: %s" % (key, what[:400]))
        return any(key == data["key"] for key, _ in devs)

"""C06 — analytic (window) functions compute over the specified partitions and frames.

Bounded exhaustive enumeration (explorer E1) of analytic calls x inputs, every execution judged by an
independent reference evaluator (oracle O4, vtlmc/ref_c06.py: explicit frame computation per datapoint):

  functions   sum avg count min max median stddev_pop stddev_samp var_pop var_samp first_value last_value
              (windowed), lag / lead (offset 1-2, with / without default), rank, ratio_to_report
  partition   none | partition by Id_1      (packed: ``partition by C_id`` | ``partition by C_id, Id_1``)
  order       Id_2 asc | Id_2 desc | Id_3 desc, Id_2 asc      (identifiers => total order inside a partition)
  window      every frame [s, e], s <= e, s, e in {unbounded preceding, 3 2 1 preceding, current data point,
              1 2 3 following, unbounded following} (45), in ``data points`` and in ``range`` mode (range over
              the Integer identifier Id_2, which has gaps)
  form        dataset level  fn(DS_1 over (...))  |  inside calc  DS_1[calc X_1 := fn(Me_1 over (...)), X_2 := ...]
  data        every sequence of 0..n values over {null, a, b} as the content of a partition (n = 3 quick,
              4 thorough), packed into one run through the extra partitioning identifier C_id; every packed input
              is supplied in two physical row orders (sorted, reversed) and both results must equal the expected
              set of datapoints.
Shapes that packing cannot express (no partition clause at all, empty operand, one-datapoint operand) are
enumerated unpacked.  One run of the engine executes a batch of ~11 calls x 2 forms x 2 row orders as one script
(the fixed cost of a run dominates); when a batch raises, its calls are re-executed one by one.

One additional class is outside the crisp core and judged by a weaker oracle: aggregate functions with order by
*and* window omitted (``sum(DS_1 over (partition by Id_1))``).  There the result must only (i) equal one of the
two readings {whole partition, default window over the datapoints ordered by the remaining identifiers} and
(ii) not depend on the physical row order of the operand.

Before anything is judged the evaluator must reproduce the expected outputs stored in the repository
(Reference-Manual examples RM139, RM151-RM156 and tests/Analytic): the calibration gate.
"""
import glob
import itertools
import os

from vtlmc import harness, refbase
from vtlmc import ref_c06 as R
from vtlmc.refbase import DS, ID, ME

# ---------------------------------------------------------------------------------------------------------
# the space
# ---------------------------------------------------------------------------------------------------------

AXIS = [R.UP, R.P(3), R.P(2), R.P(1), R.CUR, R.F(1), R.F(2), R.F(3), R.UF]
FRAMES = [(s, e) for i, s in enumerate(AXIS) for e in AXIS[i:]]                      # 45, s <= e
DEGENERATE = [(R.UP, R.UP), (R.UF, R.UF)]       # not a frame in any reading (start = end = unbounded): not judged
BOUNDARY = [(R.UP, R.UF), (R.UP, R.CUR), (R.CUR, R.UF), (R.CUR, R.CUR), (R.P(1), R.F(1)), (R.UP, R.P(1)),
            (R.F(1), R.UF), (R.P(3), R.P(1)), (R.F(1), R.F(3))]                        # the 9 boundary frames
ALL_FRAME_FNS = ("sum", "min", "first_value", "last_value", "count")
ORDERS = {"asc": [("Id_2", "asc")], "desc": [("Id_2", "desc")], "two": [("Id_3", "desc"), ("Id_2", "asc")]}
PARTS = {"none": ["C_id"], "by": ["C_id", "Id_1"]}
FORMS = ("dataset", "calc")
ROW_ORDERS = ("sorted", "reversed")

VAL_INT = {"N": None, "a": 2, "b": -3}            # no partition of <= 4 datapoints sums to zero (ratio_to_report)
VAL_NUM = {"N": None, "a": 2.5, "b": -1.5}
ID2 = {"none": [-3, -2, 0, 3], "g1": [1, 2, 4, 7], "g2": [-2, 1, 2, 5]}   # Integer ordering identifier with gaps 1,2,3
ID3 = [0, 0, 1, 1]
LAG_DEFAULT = 9


def contents(maxn):
    out = []
    for n in range(maxn + 1):
        out.extend(itertools.product("Nab", repeat=n))
    return out


def content_class(c):
    nulls = sum(1 for x in c if x == "N")
    return "%d-datapoints/%s" % (len(c), "no-null" if nulls == 0 else ("all-null" if nulls == len(c) else "some-null"))


def group_rows(cid, id1s, id2s, content):
    n = len(content)
    return [{"C_id": cid, "Id_1": id1s[k], "Id_2": id2s[k], "Id_3": ID3[k],
             "Me_1": VAL_INT[content[k]], "Me_2": VAL_NUM[content[(k + 1) % n]]} for k in range(n)]


def packed_rows(part, maxn):
    """-> (rows, {C_id: content of the slice (the first group)})"""
    cs = contents(maxn)
    rows, by = [], {}
    for c, content in enumerate(cs):
        by[c] = content
        if part == "none":
            rows += group_rows(c, [1, 2, 1, 2], ID2["none"], content)
        else:
            rows += group_rows(c, [1] * 4, ID2["g1"], content)
            rows += group_rows(c, [2] * 4, ID2["g2"], cs[(c + 1) % len(cs)])
    return rows, by


def comps_for(fn, form, packed=True, two_ids=True):
    comps = ([("C_id", "Integer", ID)] if packed else []) + ([("Id_1", "Integer", ID)] if packed else [])
    comps += [("Id_2", "Integer", ID)] + ([("Id_3", "Integer", ID)] if two_ids else [])
    comps += [("Me_1", "Integer", ME)]
    if not (fn == "count" and form == "dataset"):       # count(DS over ...) needs a mono-measure operand (-> int_var)
        comps += [("Me_2", "Number", ME)]
    return comps


def physical(rows, ids, row_order):
    out = sorted(rows, key=lambda r: tuple(r[i] for i in ids))
    return out if row_order == "sorted" else out[::-1]


def project(rows, comps):
    names = [c[0] for c in comps]
    return [{k: r[k] for k in names} for r in rows]


def script_for(spec, form, comps, target="DS_r", operand="DS_1"):
    measures = [c[0] for c in comps if c[2] == ME]
    if form == "dataset":
        return "%s <- %s;" % (target, spec.call_text(operand))
    if spec.fn == "rank":
        return "%s <- %s[calc X_1 := %s];" % (target, operand, spec.call_text(None))
    return "%s <- %s[calc %s];" % (target, operand, ", ".join("X_%s := %s" % (m[-1], spec.call_text(m)) for m in measures))


def expected(spec, form, comps, rows):
    """-> (ids, value columns, expected rows, count columns)"""
    ids = [c[0] for c in comps if c[2] == ID]
    if form == "dataset":
        names, out, cc = R.dataset_level(spec, comps, rows)
    else:
        measures = [c[0] for c in comps if c[2] == ME]
        items = [("X_1", spec, None)] if spec.fn == "rank" else [("X_%s" % m[-1], spec, m) for m in measures]
        names, out, cc = R.calc_level(items, comps, rows)
    return ids, [n for n in names if n not in ids], out, cc


def frame_class(spec):
    if spec.window is None:
        return "no-window"
    mode, s, e = spec.window
    return "%s:%s..%s" % (mode, R.bound_kind(s), R.bound_kind(e))


def variant(spec):
    if spec.fn in ("lag", "lead"):
        return "%s/%d/%s" % (spec.fn, spec.offset, "default" if spec.has_default else "no-default")
    return spec.fn


# ---------------------------------------------------------------------------------------------------------
# one execution + verdict
# ---------------------------------------------------------------------------------------------------------

def judge(got_rows, exp_rows, ids, cols, count_cols):
    """-> list of (kind, id tuple, detail) after the accepted readings have been removed"""
    diffs = refbase.compare(got_rows, exp_rows, ids, cols)
    out = []
    for kind, key, detail in diffs:
        if kind == "wrong-value" and detail[0] in count_cols and detail[2] == 0 and harness.canon_value(detail[1]) is None:
            continue                                 # count of a frame without non-null value: 0 or null
        out.append((kind, key, detail))
    return out


def execute(script, comps, rows):
    out = refbase.run(script, [DS("DS_1", comps, rows)])
    if out[0] != "ok":
        return out, None
    res = out[1].get("DS_r")
    if res is None:
        return ("err", "raw", "NoResult", None, "DS_r missing from the result"), None
    return out, (harness.dataset_rows(res) or [])


def error_kind(out):
    return "raw-error:%s" % out[2] if out[1] == "raw" else "vtl-error:%s" % (out[3] or out[2])


def replay_data(spec, form, comps, rows, packed):
    return {"spec": spec.to_json(), "form": form, "comps": [list(c) for c in comps], "rows": rows, "packed": packed}


def run_units(units, rows_by, rec):
    """units: [(spec, form, comps)]; every unit becomes two statements (operand in sorted / reversed physical row order)
    of ONE script (the fixed cost of a run dominates) -> {unit index: {'sorted': rows, 'reversed': rows} | ('fatal', kind, text)}"""
    datasets, stmts = {}, []
    for u, (spec, form, comps) in enumerate(units):
        mono = len([c for c in comps if c[2] == ME]) == 1
        ids = [c[0] for c in comps if c[2] == ID]
        for ro in ROW_ORDERS:
            dsname = "DS_%d" % (1 + ROW_ORDERS.index(ro) + (2 if mono else 0))
            if dsname not in datasets:
                datasets[dsname] = DS(dsname, comps, physical(project(rows_by, comps), ids, ro))
            stmts.append((u, ro, "R_%d_%s" % (u, ro[0]), script_for(spec, form, comps, "R_%d_%s" % (u, ro[0]), dsname)))
    out = refbase.run("\n".join(t[3] for t in stmts), list(datasets.values()))
    rec.count("engine_runs")
    res = {}
    if out[0] == "ok":
        for u, ro, name, _ in stmts:
            d = out[1].get(name)
            if d is None:
                res[u] = ("fatal", "raw-error:NoResult", "%s missing from the result" % name)
            elif not (isinstance(res.get(u), tuple)):
                res.setdefault(u, {})[ro] = harness.dataset_rows(d) or []
        return res
    # some statement of the batch failed: attribute by executing every unit alone
    rec.count("batches_rerun_unit_by_unit")
    for u, (spec, form, comps) in enumerate(units):
        ids = [c[0] for c in comps if c[2] == ID]
        for ro in ROW_ORDERS:
            o, got = execute(script_for(spec, form, comps), comps, physical(project(rows_by, comps), ids, ro))
            rec.count("engine_runs")
            if got is None:
                res[u] = ("fatal", error_kind(o), "%s (%s row order): %s" % (o[2], ro, o[4][:200]))
                break
            res.setdefault(u, {})[ro] = got
    return res


def readings(spec, form, comps, rows):
    """the accepted readings of the call: [(ids, value columns, expected rows, count columns)].
    One reading, except for a call without order by and without window (not crisp): whole partition, or the
    default window over the datapoints ordered by the identifiers that do not partition."""
    first = expected(spec, form, comps, rows)
    if spec.order or spec.window is not None or spec.fn not in R.ORDER_INSENSITIVE:
        return [first]
    rest = [(c[0], "asc") for c in comps if c[2] == ID and c[0] not in spec.partition]
    alt = R.Spec(spec.fn, spec.partition, rest, None)
    return [first, expected(alt, form, comps, rows)]


def slice_verdicts(spec, form, comps, rows, result, packed_input):
    """-> {slice id: (kind, text)} for the slices whose datapoints match no accepted reading in some row order,
    or whose datapoints differ between the two physical row orders"""
    alts = readings(spec, form, comps, rows)
    ids, cols = alts[0][0], alts[0][1]
    bad = {}
    for ro in ROW_ORDERS:
        per_alt = []
        for _, _, exp_rows, count_cols in alts:
            b = {}
            for kind, key, detail in judge(result[ro], exp_rows, ids, cols, count_cols):
                sid = key[0] if packed_input else 0
                b.setdefault(sid, (kind, "%s row order: %s at %s: %s" % (ro, kind, dict(zip(ids, key)), describe(kind, detail))))
            per_alt.append(b)
        for sid in per_alt[0]:
            if all(sid in b for b in per_alt):
                bad.setdefault(sid, per_alt[0][sid])
    for kind, key, detail in refbase.compare(result["sorted"], result["reversed"], ids, cols):
        sid = key[0] if packed_input else 0
        text = ("%s = %r with the operand in sorted row order, %r in reversed row order" % detail) if kind == "wrong-value" else "%s %r" % (kind, detail)
        bad[sid] = ("row-order-dependent", "result depends on the physical row order of the operand: at %s: %s" % (dict(zip(ids, key)), text))
    return bad


def check_unit(spec, form, comps, rows, result, rec, slices, ctx):
    """judge one unit (one script in both physical row orders), record the cases per slice.
    slices: {C_id: content} (packed) or None (unpacked: the whole input is one case, ctx['content'])."""
    rows = project(rows, comps)
    ids, cols, exp_rows, count_cols = expected(spec, form, comps, rows)
    script = script_for(spec, form, comps)
    bad = {}            # slice id -> (kind, text)
    fatal = None
    if isinstance(result, tuple):
        fatal = (result[1], result[2])
    else:
        bad = slice_verdicts(spec, form, comps, rows, result, slices is not None)
        if any(k == "row-order-dependent" for k, _ in bad.values()):
            # a result that depends on the physical row order has no reliable values anywhere: one mechanism, one kind
            bad = {sid: ("row-order-dependent", t) for sid, (k, t) in bad.items()}
    # cases
    nontrivial_by = {}
    for r in exp_rows:
        sid = r[ids[0]] if slices is not None else 0
        nt = any((r[c] is not None and not (c in count_cols and r[c] == 0)) for c in cols if c.startswith("X_") or form == "dataset")
        nontrivial_by[sid] = nontrivial_by.get(sid, False) or nt
    base = (variant(spec), form, ctx["part"], ctx["order"], frame_text(spec))
    agg = {}
    for sid in (list(slices) if slices is not None else [0]):
        content = slices[sid] if slices is not None else ctx["content"]
        outcome = fatal[0] if fatal is not None else (bad[sid][0] if sid in bad else "ok")
        k = (base + (content_class(content),), outcome, nontrivial_by.get(sid, False))
        agg[k] = agg.get(k, 0) + 1
    for (key, outcome, nt), n in agg.items():
        rec.case(key, outcome, nontrivial=nt, n=n,
                 sample={"script": script, "content": key[-1], "outcome": outcome} if nt else None)
    # violations
    if fatal is not None:
        rec.violation("C06:%s:%s:%s:%s" % (spec.fn, frame_class(spec), input_class(ctx, ("a",)).rsplit("/", 1)[0] + "/any-content", fatal[0]),
                      "%s -> %s" % (script, fatal[1]), replay_data(spec, form, comps, rows, slices is not None))
        return
    reported = set()
    for sid in sorted(bad, key=lambda s: (len(slices[s]) if slices is not None else 0, s)):
        kind, text = bad[sid]
        content = slices[sid] if slices is not None else ctx["content"]
        fkey = finding_key(spec, ctx, content, kind, form)
        if fkey in reported:
            continue
        reported.add(fkey)
        data_rows, is_packed = rows, slices is not None
        if is_packed:                                  # minimise: the failing C_id slice alone
            alone = [r for r in rows if r["C_id"] == sid]
            rec.count("engine_runs", 2)
            if alone and still_fails(spec, form, comps, alone):
                data_rows, is_packed = alone, False
        what = "%s on %s: %s" % (script, ("packed input (slice C_id=%s)" % sid) if is_packed else "%r %r" % ([c[0] for c in comps], compact(data_rows, comps)), text)
        rec.violation(fkey, what, replay_data(spec, form, comps, data_rows, is_packed))


def describe(kind, detail):
    if kind == "wrong-value":
        return "%s = %r, expected %r" % detail
    return repr(detail)[:160]


def compact(rows, comps):
    names = [c[0] for c in comps]
    return [tuple(r[n] for n in names) for r in rows]


def frame_text(spec):
    if spec.window is None:
        return "no-window"
    return "%s[%s, %s]" % (spec.window[0], R.bound_text(spec.window[1]), R.bound_text(spec.window[2]))


def finding_key(spec, ctx, content, kind, form):
    if ctx["order"] == "omitted":
        # one mechanism for every aggregate function: the window that is assumed when order by and window are both omitted
        return "C06:aggregate-function:no-window:%s/order-by-omitted/%s-level:%s" % ("packed" if ctx.get("packed", True) else ctx["shape"], form, kind)
    return "C06:%s:%s:%s:%s" % (spec.fn, frame_class(spec), input_class(ctx, content), kind)


def input_class(ctx, content):
    nulls = sum(1 for x in content if x == "N")
    return "%s/order-%s/%s" % ("packed" if ctx.get("packed", True) else ctx["shape"], ctx["order"],
                               "with-null" if nulls else "no-null")


def still_fails(spec, form, comps, rows):
    """the single statement on ``rows`` alone, both physical row orders (also the body of Check.replay)"""
    ids = [c[0] for c in comps if c[2] == ID]
    script = script_for(spec, form, comps)
    res = {}
    for ro in ROW_ORDERS:
        out, got = execute(script, comps, physical(rows, ids, ro))
        if got is None:
            return True
        res[ro] = got
    return bool(slice_verdicts(spec, form, comps, rows, res, False))


# ---------------------------------------------------------------------------------------------------------
# work items
# ---------------------------------------------------------------------------------------------------------

_PACKED = {}


def packed(part, maxn):
    if (part, maxn) not in _PACKED:
        _PACKED[(part, maxn)] = packed_rows(part, maxn)
    return _PACKED[(part, maxn)]


def specs_of(item, partition):
    """the analytic calls of one work item (one run): [Spec]"""
    out = []
    for call in item["calls"]:
        fn = call["fn"]
        order = [] if (fn == "ratio_to_report" or item["order"] == "omitted") else ORDERS[item["order"]]
        window = None
        if call.get("frame") is not None:
            window = (call["mode"], tuple(call["frame"][0]), tuple(call["frame"][1]))
        out.append(R.Spec(fn, partition, order, window, call.get("offset"), LAG_DEFAULT if call.get("dflt") else None, bool(call.get("dflt"))))
    return out


def work(item, rec):
    """one work item = one run of the engine: a batch of analytic calls x both forms x both physical row orders"""
    harness.boot()
    if item["shape"] == "packed":
        rows, slices = packed(item["part"], item["maxn"])
        ctx = {"part": item["part"], "order": item["order"], "packed": True}
        partition, kw = PARTS[item["part"]], {}
    else:
        # unpacked: no partition clause at all; every identifier of the operand is an ordering component
        content = tuple(item["content"])
        rows, slices = group_rows(0, [1] * 4, ID2["g1"], content), None
        ctx = {"part": "no-clause", "order": item["order"], "packed": False, "content": content,
               "shape": "empty-operand" if not content else ("one-datapoint" if len(content) == 1 else "no-partition-clause")}
        partition, kw = [], {"packed": False, "two_ids": item["order"] == "two"}
    units = []
    for spec in specs_of(item, partition):
        for form in FORMS:
            if spec.fn == "rank" and form == "dataset":
                continue
            units.append((spec, form, comps_for(spec.fn, form, **kw)))
    results = run_units(units, rows, rec)
    for u, (spec, form, comps) in enumerate(units):
        check_unit(spec, form, comps, rows, results[u], rec, slices, ctx)


def frames_for(fn, tier):
    frames = FRAMES if (tier == "thorough" or fn in ALL_FRAME_FNS) else BOUNDARY
    return [fr for fr in frames if fr not in DEGENERATE]


def batches(seq, n):
    return [seq[i:i + n] for i in range(0, len(seq), n)]


def space(tier):
    """-> work items; the set of (call, form, input) triples depends on the tier only"""
    maxn = 3 if tier == "quick" else 4
    per_run = 11            # analytic calls per run (x 2 forms x 2 row orders = 44 statements)
    items = []
    for part in PARTS:
        for order in ORDERS:
            for mode in ("data", "range"):
                if mode == "range" and order == "two":
                    continue          # a range distance needs exactly one ordering component
                for fn in R.WINDOWED:
                    calls = [{"fn": fn, "frame": [list(fr[0]), list(fr[1])], "mode": mode} for fr in frames_for(fn, tier)]
                    for b in batches(calls, per_run):
                        items.append({"shape": "packed", "part": part, "order": order, "maxn": maxn, "calls": b})
            calls = [{"fn": fn, "offset": off, "dflt": dflt} for fn in ("lag", "lead") for off in (1, 2) for dflt in (False, True)]
            calls.append({"fn": "rank"})
            if order == "asc":
                calls.append({"fn": "ratio_to_report"})       # has no ordering: once per partition option
            items.append({"shape": "packed", "part": part, "order": order, "maxn": maxn, "calls": calls})
        # order by and window both omitted (aggregate functions only: first_value / last_value are positional and have no
        # meaning without an ordering): only row-order independence and "one of the two readings" are required
        items.append({"shape": "packed", "part": part, "order": "omitted", "maxn": maxn, "calls": [{"fn": fn} for fn in R.ORDER_INSENSITIVE]})
    # unpacked shapes
    ucontents = [(), ("a",), ("a", "N", "b")] if tier == "quick" else [(), ("a",), ("N",), ("a", "N", "b"), ("b", "a", "N", "a")]
    uframes = [(R.UP, R.CUR), (R.P(1), R.F(1)), (R.CUR, R.UF)] if tier == "quick" else BOUNDARY
    uorders = ("asc",) if tier == "quick" else ("asc", "desc", "two")
    umodes = ("data",) if tier == "quick" else ("data", "range")
    for content in ucontents:
        for order in uorders:
            calls = []
            for fn in R.WINDOWED:
                for mode in umodes:
                    if mode == "range" and order == "two":
                        continue
                    calls += [{"fn": fn, "frame": [list(fr[0]), list(fr[1])], "mode": mode} for fr in uframes]
            calls += [{"fn": fn, "offset": 1, "dflt": dflt} for fn in ("lag", "lead") for dflt in (False, True)]
            calls.append({"fn": "rank"})
            for b in batches(calls, per_run + 1):
                items.append({"shape": "unpacked", "order": order, "content": list(content), "calls": b})
    return items


def degenerate_items():
    return [{"fn": "sum", "frame": fr, "mode": mode} for fr in DEGENERATE for mode in ("data", "range")]


# ---------------------------------------------------------------------------------------------------------
# calibration gate
# ---------------------------------------------------------------------------------------------------------

RM_NUMBERS = {139, 151, 152, 153, 154, 155, 156}


def analytic_test_cases():
    base = os.path.join(harness.REPO, "tests", "Analytic", "data")
    for vtl in sorted(glob.glob(os.path.join(base, "vtl", "*.vtl"))):
        code = os.path.basename(vtl)[:-4]
        ins, outs = [], {}
        for sp in sorted(glob.glob(os.path.join(base, "DataStructure", "input", code + "-*.json"))):
            tag = os.path.basename(sp)[:-5]
            for d in refbase._load_ds(sp, os.path.join(base, "DataSet", "input", tag + ".csv")):
                ins.append(refbase.typed(d))
        for sp in sorted(glob.glob(os.path.join(base, "DataStructure", "output", code + "-*.json"))):
            tag = os.path.basename(sp)[:-5]
            for d in refbase._load_ds(sp, os.path.join(base, "DataSet", "output", tag + ".csv")):
                outs[d.name] = refbase.typed(d)
        with open(vtl, encoding="utf-8") as f:
            yield "tests/Analytic/" + code, f.read(), ins, outs


def calibrate_case(script, ins, outs):
    """-> ('ok', columns compared) | ('outside'|'unclear', why) | ('wrong', diffs)"""
    try:
        stmts = R.parse_script(script)
    except R.Outside as e:
        return "outside", str(e)
    by = {d.name: d for d in ins}
    compared = 0
    for st in stmts:
        if st["operand"] not in by or st["target"] not in outs:
            return "outside", "operand or expected result not stored"
        d = by[st["operand"]]
        try:
            names, rows, cc, skipped = R.run_statement(st, d.comps, d.rows)
        except R.Unclear as e:
            return "unclear", str(e)
        except KeyError as e:
            return "outside", "component %s" % e
        ids = d.ids()
        cols = [n for n in names if n not in ids and n not in skipped]
        new_cols = [c for c in cols if st["form"] == "dataset" or any(c == it[0] for items in st["clauses"] for it in items)]
        if not new_cols:
            return "unclear", "every analytic column of the case is outside the crisp semantics"
        diffs = judge(rows, outs[st["target"]].rows, ids, cols, cc)
        diffs = [x for x in diffs if x[0] != "duplicate-identifiers"]
        if diffs:
            return "wrong", diffs[:3]
        compared += len(new_cols)
    return "ok", compared


def calibrate(rec):
    """the evaluator against the expectations stored in the repository -> (reproduced, in subset, wrong list)"""
    ok, wrong, skipped = [], [], []
    cases = [("RM%d" % n, s, i, o) for n, s, i, o in refbase.reference_manual_cases(RM_NUMBERS)] + list(analytic_test_cases())
    for label, script, ins, outs in cases:
        if not outs:
            continue                       # expected-error cases store no output
        verdict, info = calibrate_case(script, ins, outs)
        if verdict == "ok":
            ok.append(label)
        elif verdict == "wrong":
            wrong.append((label, info))
        else:
            skipped.append((label, verdict, info))
    return ok, wrong, skipped


# ---------------------------------------------------------------------------------------------------------

class Check:
    ID = "C06"
    LEVEL = "exploration"
    RULE = ("case = one analytic script x one partition content (C_id slice of the packed input, or one unpacked input), "
            "executed in two physical row orders and compared with the reference evaluator; distinct = (function variant, "
            "form, partition option, order option, window mode + frame, number of datapoints / null pattern class of the "
            "partition); non-trivial = the expected result of the slice contains a non-null value (count: > 0)")
    ASSUMPTIONS = [
        "orderings are total inside every partition (ordering components are identifiers); ties are never generated",
        "aggregates ignore nulls; empty frame or only nulls -> null; count counts the non-null values of the frame and a "
        "count of 0 may be reported as 0 or null; stddev_samp / var_samp of one value -> null; stddev_pop / var_pop of one value -> 0",
        "median of an even number of values = mean of the two middle values (as in tests/Analytic 1-1-1-11)",
        "no window clause + order by = data points between unbounded preceding and current data point (tests/Analytic 1-1-1-1, "
        "GH_750_8); without order by and without window the reading is not crisp: aggregate functions of that shape are only "
        "required to equal one of {whole partition, default window over the datapoints ordered by the remaining identifiers} and "
        "to be independent of the physical row order; first_value / last_value / lag / lead / rank without order by are not in the alphabet",
        "no partition clause is only exercised when every identifier of the operand is an ordering component (RM139): whether "
        "the remaining identifiers partition the operand is not crisp",
        "range frames: distance on the single Integer ordering identifier measured along the ordering direction ('n preceding' "
        "under desc = values up to n larger); offsets 0..3 only, never negative; range with two ordering components is not in the alphabet",
        "frames with start = end = unbounded preceding / unbounded following, and frames written with start after end, are not frames "
        "in any reading: not judged",
        "first_value / last_value return the value of the first / last datapoint of the frame even when it is null",
        "lag / lead: the default value is used only when the offset leaves the partition, a null inside the partition stays null",
        "ratio_to_report partitions never sum to zero (value alphabets {2, -3} and {2.5, -1.5}); a null value gives null",
        "numbers compared at relative 1e-9; result data types / roles are C10's business, only datapoints are compared",
    ]

    def run(self, tier, seed, rec):
        harness.boot()
        ok, wrong, skipped = calibrate(rec)
        for label, verdict, info in skipped:
            rec.count("calibration_" + verdict)
        rec.note("calibration: outside the modelled subset / unclear: " + ", ".join("%s (%s)" % (a.split("/")[-1], b) for a, b, _ in skipped))
        if wrong:
            for label, info in wrong:
                rec.tool_error("oracle not calibrated: reference evaluator disagrees with the stored expectation of %s: %s" % (label, info))
            return {"exhaustive": False, "traces_validated_against_impl": len(ok)}
        if len(ok) < 50 or not all(("RM%d" % n) in ok for n in RM_NUMBERS):
            rec.tool_error("calibration corpus too small: %d cases reproduced (%s)" % (len(ok), ok[:8]))
            return {"exhaustive": False, "traces_validated_against_impl": len(ok)}
        items = harness.seeded_order(space(tier), seed)
        harness.pmap(work, items, rec)
        # the example kept per finding key must not depend on worker scheduling: smallest input first
        rec.violations.sort(key=lambda v: (v["key"], len(v["replay"]["rows"]), v["what"]))
        # degenerate frames: recorded, not judged
        for it in degenerate_items():
            spec = R.Spec(it["fn"], ["C_id"], ORDERS["asc"], (it["mode"], it["frame"][0], it["frame"][1]))
            comps = comps_for("sum", "dataset")
            out = refbase.run(script_for(spec, "dataset", comps), [DS("DS_1", comps, project(packed("none", 1)[0], comps))])
            rec.case(("degenerate", frame_text(spec)), "degenerate-frame-" + ("accepted" if out[0] == "ok" else "rejected"), nontrivial=False)
        if not rec.keys:
            rec.tool_error("no non-trivial case was executed")
        fns = set(k[0].split("/")[0] for k in rec.keys)
        missing = [f for f in R.FUNCTIONS if f not in fns]
        if missing:
            rec.tool_error("functions never exercised non-trivially: %s" % missing)
        return {"exhaustive": True, "traces_validated_against_impl": len(ok), "work_items": len(items), "analytic_calls": sum(len(i["calls"]) for i in items),
                "calibration_cases_outside_subset": len(skipped), "partition_contents": len(contents(3 if tier == "quick" else 4))}

    def replay(self, data):
        harness.boot()
        spec = R.Spec.from_json(data["spec"])
        comps = [tuple(c) for c in data["comps"]]
        return still_fails(spec, data["form"], comps, data["rows"])

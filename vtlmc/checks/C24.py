"""C24 — prettify preserves meaning and is idempotent.

Spaces (all enumerated completely, nothing sampled):
  corpus     every distinct parseable script text of the recorded upstream API calls (script argument of
             run / semantic_analysis / prettify / generate_sdmx / run_sdmx) and every *.vtl under /repo/tests
  number     {1, 1.5, 2.25, 1.23456789, 9.99999999, 123456.7891, 0.1} x 10^e, e in -12..15, plain decimal
             notation (the only one NUMBER_CONSTANT accepts), positive and negated, in a dataset statement, a
             scalar statement and a calc clause
  null       `null` in every grammar position that takes a constant
  reserved   every keyword of the lexer (VtlTokens.g4 + the literal names of the serialized ATN), single-quoted,
             in every position that takes a name
  udo-types  every parameter / return type spelling of `define operator` (scalar types, dataset and component
             constraints, set<>, ruleset types, null-ability, defaults)
  comments   a block / a line comment in every token gap of a three-statement script
  run        corpus run() calls with recorded data: run(prettify(s)) == run(s)   (quick: the 300 cheapest)

Oracle O1 (no expected values): (1) the output parses, (2) its AST equals the original's under
``astcmp`` (positions ignored; operators, names, literal values *and types* compared), (3) prettify is
idempotent on its output, (4) the multiset of comment texts is preserved, (5) same run() results; plus (2b)
the set of names (identifier tokens) of the text is preserved - the AST constructor itself drops some names
(`condition X as alias`, constraints of `returns dataset {...}`), so (2) alone cannot see them go.
When the output does not parse or has another AST, a failing (3) / (2b) on the same fragment is counted as a
consequence of that finding, not keyed a second time.

A failing script is minimised before it is keyed: statement-level bisection (each statement alone), then
the smallest sub-expression / single rule that still fails alone; the finding key is derived from that
fragment (node class + field of the first AST difference, or the node whose rendering raises, or the
literal / reserved-word responsible as shown by substituting a neutral token).
"""
import glob
import hashlib
import json
import os
import re
from decimal import Decimal

from vtlmc import astcmp, corpus, harness

NEUTRAL = "Zz_9"
SCRIPT_FNS = ("run", "semantic_analysis", "prettify", "generate_sdmx", "run_sdmx")

# ------------------------------------------------------------------------------------------------
# engine access (after harness.boot())
# ------------------------------------------------------------------------------------------------

_E = {}


def eng():
    if not _E:
        harness.boot()
        import vtlengine
        from vtlengine.API import create_ast
        from frontend import fe
        _E.update(prettify=vtlengine.prettify, run=vtlengine.run, create_ast=create_ast, fe=fe)
        # every case parses the same two texts several times (prettify parses twice, the oracle re-parses):
        # let the stand-in reuse the parser host's reply (parsing is a pure function of the text)
        fe._State.cache_on = True
    if len(_E["fe"]._State.cache) > 4000:
        _E["fe"]._State.cache.clear()
    return _E


def forget_rulesets():
    """The AST constructor remembers the signature of every hierarchical ruleset it has ever parsed in this
    process (module-level dict AST.ASTDataExchange.de_ruleset_elements, never cleared) and uses it to fill in
    the `rule` component of a later hierarchy()/check_hierarchy() call of *another* script.  That makes the
    AST of a script depend on what was parsed before; the harness empties the dict before each case so that
    every case is evaluated as in a fresh process (the leak itself is not C24's subject)."""
    try:
        from vtlengine.AST import ASTDataExchange
        ASTDataExchange.de_ruleset_elements.clear()
    except Exception:  # noqa: BLE001
        pass


def comment_texts(text):
    """multiset (sorted list) of comment texts as the lexer sees them (line comments without their EOL)"""
    fe = eng()["fe"]
    fe.parse(text + "\n")
    return sorted(c["text"].rstrip("\r\n") for c in fe.get_comments())


_LEX = re.compile(r'''"[^"]*"|/\*.*?\*/|//[^\n]*|'(?:\\'|[^'])*'|[A-Za-z0-9_][A-Za-z0-9_.]*''', re.S)


def names(text):
    """multiset of the names (identifier tokens, quotes stripped) of a script: everything that is not a
    comment, a string, a number or a keyword of the lexer.  Same lexing on both sides of the comparison."""
    import collections
    out = collections.Counter()
    kw = _rw()
    for m in _LEX.finditer(text):
        t = m.group(0)
        if t[0] == '"' or t.startswith("/*") or t.startswith("//"):
            continue
        if t[0] == "'":
            out[t[1:-1]] += 1
        elif not re.fullmatch(r"[0-9.]+", t) and t not in kw:
            out[t] += 1
    return out


# ------------------------------------------------------------------------------------------------
# text <-> AST positions
# ------------------------------------------------------------------------------------------------

def line_starts(text):
    out, o = [0], 0
    for ln in text.split("\n")[:-1]:
        o += len(ln) + 1
        out.append(o)
    return out


def span(starts, node):
    try:
        return starts[node.line_start - 1] + node.column_start, starts[node.line_stop - 1] + node.column_stop
    except (IndexError, TypeError):
        return None


def node_text(text, starts, node):
    s = span(starts, node)
    return None if s is None or s[0] >= s[1] else text[s[0]:s[1]]


# ------------------------------------------------------------------------------------------------
# the static oracle (1)-(4) on one text
# ------------------------------------------------------------------------------------------------

_MEMO = {}


def examine(text, with_comments=True):
    """-> None when `text` does not parse (not a valid script: outside the quantifier), else
    {"ast": original AST, "out": prettified text or None, "devs": [deviation dicts]}"""
    k = (text, with_comments)
    if k in _MEMO:
        return _MEMO[k]
    E = eng()
    forget_rulesets()
    o = harness.call(E["create_ast"], text)
    if o[0] != "ok":
        _MEMO[k] = None
        return None
    a0, devs, out = o[1], [], None
    p = harness.call(E["prettify"], text)
    if p[0] != "ok":
        devs.append({"dev": "prettify-raises", "err": p[1:]})
    else:
        out = p[1]
        o1 = harness.call(E["create_ast"], out)
        if o1[0] != "ok":
            devs.append({"dev": "output-does-not-parse", "err": o1[1:]})
        else:
            d = astcmp.diff(a0, o1[1])
            if d is not None:
                devs.append({"dev": "ast-changed", "diff": d})
            p2 = harness.call(E["prettify"], out)
            if p2[0] != "ok":
                devs.append({"dev": "not-idempotent", "second": "raises %s" % (p2[2],)})
            elif p2[1] != out:
                devs.append({"dev": "not-idempotent", "second": p2[1]})
        n0, n1 = set(names(text)), set(names(out))
        if n0 != n1:
            devs.append({"dev": "names-changed", "lost": sorted(n0 - n1), "added": sorted(n1 - n0)})
        if with_comments:
            c0, c1 = comment_texts(text), comment_texts(out)
            if c0 != c1:
                devs.append({"dev": "comments-changed", "before": c0, "after": c1})
    res = {"ast": a0, "out": out, "devs": devs}
    if len(_MEMO) < 20000:
        _MEMO[k] = res
    return res


PRIMARY = ("prettify-raises", "output-does-not-parse", "ast-changed")


def consequence(frag, dev):
    """a different program is not expected to prettify to the same text or to keep the same names: on a
    fragment whose output does not parse / has another AST, (3) and the name multiset are consequences of
    that finding (same root cause), not findings of their own"""
    if dev not in ("not-idempotent", "names-changed"):
        return False
    r = examine(frag, False)
    return r is not None and any(d["dev"] in PRIMARY for d in r["devs"])


def has_dev(text, dev):
    r = examine(text, with_comments=(dev == "comments-changed"))
    if r is None:
        return None
    for d in r["devs"]:
        if d["dev"] == dev:
            return d
    return None


# ------------------------------------------------------------------------------------------------
# minimisation
# ------------------------------------------------------------------------------------------------

def statements(text, ast):
    """[(node, 'statement text;')] for the top-level statements, or None if positions cannot be trusted"""
    starts, out = line_starts(text), []
    for ch in ast.children:
        if type(ch).__name__ == "Comment":
            continue
        t = node_text(text, starts, ch)
        if t is None:
            return None
        out.append((ch, t.rstrip().rstrip(";") + ";"))
    return out


def _subfragments(stmt):
    """smaller scripts cut out of one statement: single-rule rulesets and `X__ := <sub-expression>;`"""
    E = eng()
    o = harness.call(E["create_ast"], stmt)
    if o[0] != "ok" or not o[1].children:
        return []
    node, starts = o[1].children[0], line_starts(stmt)
    cands = set()
    cn = type(node).__name__
    roots = []
    if cn in ("Assignment", "PersistentAssignment"):
        roots = [n for n in astcmp.walk(node.right) if n is not node.right]
    elif cn == "Operator":
        roots = list(astcmp.walk(node.expression))
    elif cn in ("DPRuleset", "HRuleset"):
        rules = list(node.rules)
        if len(rules) > 1:
            s0, s1 = span(starts, rules[0]), span(starts, rules[-1])
            if s0 and s1:
                head, tail = stmt[:s0[0]], stmt[s1[1]:]
                for r in rules:
                    t = node_text(stmt, starts, r)
                    if t:
                        cands.add(head + t + tail)
        for r in rules:
            roots.extend(n for n in astcmp.walk(r) if n is not r)
    for n in roots:
        t = node_text(stmt, starts, n)
        if t and len(t) + 8 < len(stmt):
            cands.add("X__ := " + t + ";")
    return sorted(cands, key=lambda s: (len(s), s))[:600]


def minimise(stmt, dev, depth=0):
    """smallest fragment of `stmt` (a single statement) that still shows deviation `dev` on its own"""
    if depth > 6:
        return stmt
    for c in _subfragments(stmt):
        if len(c) >= len(stmt):
            break
        if has_dev(c, dev):
            return minimise(c, dev, depth + 1)
    return stmt


def localise(text, res, dev):
    """-> list of minimal failing fragments for deviation `dev` of script `text` (>= 1 element)"""
    if dev == "comments-changed":
        return [text]
    sts = statements(text, res["ast"])
    if not sts:
        return [text]
    failing = []
    for _, t in sts:
        if has_dev(t, dev):
            failing.append(t)
    if not failing:
        return [text]          # only the combination fails
    out = []
    for t in sorted(set(failing), key=lambda s: (len(s), s)):
        m = minimise(t, dev)
        if m not in out:
            out.append(m)
    return out


# ------------------------------------------------------------------------------------------------
# finding keys
# ------------------------------------------------------------------------------------------------

def num_features(lit):
    """features of an unsigned decimal literal as written"""
    d = Decimal(lit)
    t = d.normalize().as_tuple()
    sig = len(t.digits)
    ndec = max(0, -t.exponent)
    return {"sig": sig, "ndec": ndec, "abs": abs(d), "integral": ndec == 0}


def num_class(lit, deviation):
    """equivalence class of a Number literal as written (domain vocabulary), given the kind of deviation"""
    f = num_features(lit)
    a = f["abs"]
    if deviation.startswith("raw-error") or deviation.startswith("vtl-error"):
        if 0 < a < Decimal("1e-4"):
            return "abs<1e-4"
        if a >= Decimal("1e16"):
            return "abs>=1e16"
        return "1e-4<=abs<1e16"
    if deviation == "type-changed-to-integer":
        return "integral-value"
    if f["sig"] > 6:
        return "more-than-6-significant-digits"
    if f["ndec"] > 6:
        return "more-than-6-decimals"
    if f["integral"]:
        return "integral-value>=1e6" if a >= Decimal("1e6") else "integral-value"
    return "abs>=1e6" if a >= Decimal("1e6") else "at-most-6-digits"


def _float_constants(text):
    """[(node, literal text)] of the Number constants of a script"""
    E = eng()
    o = harness.call(E["create_ast"], text)
    if o[0] != "ok":
        return []
    starts, out = line_starts(text), []
    for n in astcmp.walk(o[1]):
        if type(n).__name__ == "Constant" and isinstance(n.value, float):
            t = node_text(text, starts, n)
            if t and re.fullmatch(r"[+-]?[0-9]+\.[0-9]+", t):
                out.append((n, t.lstrip("+-")))
    return out


def _literal_responsible(frag, dev):
    """the Number literal whose replacement by 1.5 makes deviation `dev` disappear (or None)"""
    starts = line_starts(frag)
    for n, lit in _float_constants(frag):
        s = span(starts, n)
        t = frag[s[0]:s[1]]
        sign = t[0] if t[0] in "+-" else ""
        sub = frag[:s[0]] + sign + "1.5" + frag[s[1]:]
        if lit != "1.5" and has_dev(sub, dev) is None and examine(sub, False) is not None:
            return lit
    return None


def reserved_words():
    """keywords of the lexer: literal token rules of VtlTokens.g4 plus the literal names of the ATN in use"""
    E = eng()
    src = open(os.path.join(harness.REPO, "src/vtlengine/AST/Grammar/VtlTokens.g4"), encoding="utf-8").read()
    src = re.sub(r"/\*.*?\*/", "", src, flags=re.S)
    src = re.sub(r"//[^\n]*", "", src)
    words = set()
    for _, body in re.findall(r"^\s*([A-Z_0-9]+)\s*:\s*(.*?);\s*$", src, flags=re.M):
        if re.fullmatch(r"\s*'(?:[^'\\]|\\.)*'(\s*\|\s*'(?:[^'\\]|\\.)*')*\s*", body):
            for lit in re.findall(r"'((?:[^'\\]|\\.)*)'", body):
                if re.fullmatch(r"[A-Za-z_][A-Za-z_0-9]*", lit):
                    words.add(lit)
    fe = E["fe"]
    fe._server_names()
    for lit in fe._State.literal or []:
        if lit and re.fullmatch(r"'[A-Za-z_][A-Za-z_0-9]*'", lit):
            words.add(lit.strip("'"))
    return sorted(words)


_RW = {}


def _rw():
    if "w" not in _RW:
        _RW["w"] = set(reserved_words())
    return _RW["w"]


def _reserved_responsible(frag, dev):
    """(word, 'Owner.field', position_specific) when replacing one quoted keyword name by a neutral name
    makes deviation `dev` disappear"""
    for m in re.finditer(r"'([A-Za-z_][A-Za-z_0-9]*)'", frag):
        w = m.group(1)
        if w not in _rw():
            continue
        sub = frag[:m.start()] + NEUTRAL + frag[m.end():]
        r = examine(sub, False)
        if r is None or has_dev(sub, dev) is not None:
            continue
        a = examine(frag, False)
        d = astcmp.diff(a["ast"], r["ast"]) if a else None
        where = "%s.%s" % (d.owner, d.field) if d is not None else "name"
        others = 0
        for probe in ("calc", "sum", "errorcode"):
            if probe != w:
                sub2 = frag[:m.start()] + "'" + probe + "'" + frag[m.end():]
                if examine(sub2, False) is not None and has_dev(sub2, dev) is not None:
                    others += 1
        return w, where, others >= 2
    return None


def _renderer_words():
    """the words the renderer re-quotes (read only to name the class of a keyword-specific finding)"""
    try:
        from vtlengine.AST.ASTString import RESERVED_WORDS
        return set(RESERVED_WORDS)
    except Exception:  # noqa: BLE001
        return None


def _unquoted(word, frag, out):
    q = "'" + word + "'"
    return out is not None and out.count(q) < frag.count(q)


def _reserved_key(rw, frag, out, dev):
    w, where, posspec = rw
    devname = "rendered-unquoted" if _unquoted(w, frag, out) else dev
    if posspec:
        return "C24:reserved-word-name:%s:%s" % (where.split(".")[0], devname)
    known = _renderer_words()
    return "C24:reserved-word-name:%s:%s" % ("keyword-unknown-to-renderer" if known is not None and w not in known else "keyword=" + w, devname)


def _top_class(frag):
    r = examine(frag, False)
    if not r or not r["ast"].children:
        return "script"
    n = r["ast"].children[0]
    cn = type(n).__name__
    if cn in ("Assignment", "PersistentAssignment"):
        return type(n.right).__name__
    return cn


def _offending_token(msg):
    m = re.search(r"(?:at|input) '((?:[^'\\]|\\.|'(?=[A-Za-z_]))*?)'(?: expecting|$|\n)", msg)
    if not m:
        m = re.search(r"'([^']*)'", msg)
    tok = m.group(1).strip("'") if m else ""
    if tok in _rw():
        return "keyword-" + tok
    if tok == "<EOF>":
        return "eof"
    if re.fullmatch(r"[0-9.]+", tok or ""):
        return "number"
    if re.fullmatch(r"[A-Za-z_][A-Za-z_0-9.]*", tok or ""):
        return "identifier"
    return "symbol" if tok else "unknown"


def _failing_render_node(frag, errcls):
    """class of the innermost AST node whose own rendering raises `errcls` (localisation only)"""
    r = examine(frag, False)
    if not r:
        return None, None
    from vtlengine.AST.ASTString import ASTString
    best = None
    for n in astcmp.walk(r["ast"]):
        if type(n).__name__ in ("Start", "Comment"):
            continue
        try:
            ASTString(pretty=True).render(n)
        except Exception as e:  # noqa: BLE001
            if type(e).__name__ == errcls:
                best = n      # pre-order: later hits are deeper or to the right; keep the last nested one
    return (type(best).__name__, best) if best is not None else (None, None)


def key_and_what(frag, dev):
    """-> (finding key, human sentence) for deviation `dev` shown by the minimal fragment `frag`"""
    d = has_dev(frag, dev)
    r = examine(frag, dev == "comments-changed")
    out = (r or {}).get("out")
    shown = "script %r" % frag
    if d is None:
        return "C24:unlocalised:%s" % dev, shown + ": deviation %s only in context" % dev
    if dev == "prettify-raises":
        kind, cls, _, msg = d["err"]
        devname = ("raw-error" if kind == "raw" else "vtl-error") + ":" + cls
        ncls, node = _failing_render_node(frag, cls)
        what = "%s: prettify() raises %s(%s); expected a script" % (shown, cls, msg[:120])
        if ncls == "Constant" and isinstance(getattr(node, "value", None), float):
            lits = [lt for n, lt in _float_constants(frag) if n.value == node.value or n.value == -node.value]
            lit = lits[0] if lits else repr(abs(node.value))
            return "C24:number-literal:%s:%s" % (num_class(lit, devname), devname), what
        if ncls == "Argument":
            t = getattr(node, "type_", None)
            ncls = "Argument[%s]" % (getattr(t, "__name__", None) or type(t).__name__)
        return "C24:%s:%s" % (ncls or _top_class(frag), devname), what
    if dev == "output-does-not-parse":
        msg = d["err"][3]
        what = "%s: prettify() returns %r which does not parse (%s)" % (shown, out, msg.split("\n")[0][:160])
        lit = _literal_responsible(frag, dev)
        if lit is not None:
            return "C24:number-literal:%s:output-does-not-parse" % num_class(lit, "unparseable"), what
        rw = _reserved_responsible(frag, dev)
        if rw is not None:
            return _reserved_key(rw, frag, out, dev), what
        tok = _offending_token(msg) if d["err"][1] == "VTLSyntaxError" else "constructor-error-" + d["err"][1]
        if tok.startswith("keyword-"):
            return "C24:syntax-at-%s:output-does-not-parse" % tok, what
        return "C24:%s:output-does-not-parse:at-%s" % (_top_class(frag), tok), what
    if dev == "ast-changed":
        df = d["diff"]
        what = "%s: prettify() returns %r whose AST differs at %s; expected a structurally identical AST" % (shown, out, df)
        if df.owner == "Constant" and df.node_a is not None:
            v, v2 = df.node_a.value, getattr(df.node_b, "value", None)
            if isinstance(v, float):
                lits = [lt for n, lt in _float_constants(frag) if n is not None and n.value == v]
                lit = lits[0] if lits else repr(abs(v))
                try:
                    as_written = Decimal(lit)
                except Exception:  # noqa: BLE001
                    as_written = None
                if isinstance(v2, int) and not isinstance(v2, bool) and (v2 == v or (as_written is not None and Decimal(v2) == as_written)):
                    devname = "type-changed-to-integer"     # the integer literal denotes exactly the number that was written
                elif isinstance(v2, (int, float)) and not isinstance(v2, bool):
                    devname = "value-changed"
                else:
                    devname = "literal-kind-changed"
                return "C24:number-literal:%s:%s" % (num_class(lit, devname), devname), what
            kind = {type(None): "null-literal", str: "string-literal", bool: "boolean-literal", int: "integer-literal"}.get(type(v), "literal")
            return "C24:%s:%s:%s" % (kind, df.field, "value-changed" if df.field == "value" else "type-changed"), what
        lit = _literal_responsible(frag, dev)
        if lit is not None:
            return "C24:number-literal:%s:rendered-as-other-construct" % num_class(lit, "unparseable"), what
        rw = _reserved_responsible(frag, dev)
        if rw is not None:
            return _reserved_key(rw, frag, out, dev), what
        if df.field == "isLast":
            return "C24:join-body:clause-moved-outside-join:ast-changed", what
        return "C24:%s:%s:ast-changed" % (df.owner, df.kind()), what
    if dev == "not-idempotent":
        what = "%s: prettify(prettify(s)) differs from prettify(s) = %r (second pass: %r)" % (shown, out, str(d["second"])[:300])
        return "C24:%s:not-idempotent" % _top_class(frag), what
    if dev == "names-changed":
        what = "%s: prettify() returns %r; names lost %s, names added %s (AST of the output is equal: the AST does not carry them)" % (
            shown, out, d["lost"][:6], d["added"][:6])
        devname = "name-lost" if d["lost"] and not d["added"] else "name-added" if d["added"] and not d["lost"] else "names-replaced"
        return "C24:%s:%s" % (_top_class(frag), devname), what
    if dev == "comments-changed":
        b, a = d["before"], d["after"]
        lost = [c for c in b if c not in a]
        added = [c for c in a if c not in b]
        kinds = sorted({"block" if c.startswith("/*") else "line" for c in (lost or added)})
        devname = "lost" if lost and not added else "added" if added and not lost else "text-changed"
        return "C24:comment:%s:%s" % ("+".join(kinds) or "duplicate-count", devname), \
            "%s: comments before %r, after prettify %r" % (shown[:400], b[:4], a[:4])
    return "C24:%s" % dev, shown


def report(text, res, rec, src, per_key):
    """localise + key every deviation of a failing script; per_key collects the shortest example per key"""
    for d in res["devs"]:
        dev = d["dev"]
        for frag in localise(text, res, dev):
            if consequence(frag, dev):
                rec.count("consequences_of_another_deviation_not_keyed")
                continue
            key, what = key_and_what(frag, dev)
            rec.count("violating_cases")
            cur = per_key.get(key)
            if cur is None or (len(frag), frag) < (len(cur[0]), cur[0]):
                per_key[key] = (frag, what + " [first seen in %s]" % src, dev)


def flush(per_key, rec):
    for key, (frag, what, dev) in sorted(per_key.items()):
        rec.violation(key, what, {"kind": "static", "script": frag, "dev": dev})


def cov_key(space, ast):
    sig = sorted({"%s:%s" % (type(n).__name__, getattr(n, "op", "")) if isinstance(getattr(n, "op", None), str)
                  else type(n).__name__ for n in astcmp.walk(ast)})
    return space + ":" + hashlib.sha1("|".join(sig).encode()).hexdigest()[:12]


# ------------------------------------------------------------------------------------------------
# workers
# ------------------------------------------------------------------------------------------------

def w_static(item, rec):
    """item = (space, [(src, text, extra_cov_key)])"""
    space, cases = item
    per_key = {}
    for src, text, ck in cases:
        res = examine(text, True)
        if res is None:
            rec.case((space, "unparseable"), "not-a-valid-script", nontrivial=False)
            if space in ("number", "null", "comments"):
                rec.tool_error("generated %s script does not parse: %r" % (space, text))
            continue
        nontrivial = bool(res["ast"].children)
        outcome = "ok" if not res["devs"] else "deviation:" + "+".join(sorted({d["dev"] for d in res["devs"]}))
        rec.case(ck or cov_key(space, res["ast"]), outcome, nontrivial=nontrivial,
                 sample={"space": space, "source": src, "script": text[:200], "outcome": outcome})
        rec.count("scripts_" + space)
        if comment_texts(text):
            rec.count("scripts_with_comments")
        if res["devs"]:
            report(text, res, rec, src, per_key)
    flush(per_key, rec)


def w_reserved(item, rec):
    """item = (position label, template, words): all keywords in one naming position"""
    label, tpl, words = item
    per_dev, parsed = {}, 0
    for w in words:
        text = tpl.replace("{w}", "'" + w + "'")
        res = examine(text, False)
        if res is None:
            rec.case(("reserved", label, "unparseable"), "not-a-valid-script", nontrivial=False)
            continue
        parsed += 1
        outcome = "ok" if not res["devs"] else "deviation:" + "+".join(sorted({d["dev"] for d in res["devs"]}))
        rec.case(("reserved", label, w), outcome)
        for d in res["devs"]:
            if not consequence(text, d["dev"]):
                per_dev.setdefault(d["dev"], []).append((w, text))
    if parsed == 0:
        rec.tool_error("reserved-word position %s: no keyword gives a valid script (%r)" % (label, tpl))
    rec.count("scripts_reserved", parsed)
    neutral = examine(tpl.replace("{w}", NEUTRAL), False)
    if neutral is not None and neutral["devs"]:
        # the position is already mishandled for an ordinary name: one root cause, keyed generically on the
        # ordinary-name script; the keyword cases of this position are not keyed a second time
        per_key = {}
        report(tpl.replace("{w}", NEUTRAL), neutral, rec, "name position " + label, per_key)
        flush(per_key, rec)
        rec.count("keyword_cases_at_a_position_that_fails_for_any_name", sum(len(v) for v in per_dev.values()))
        return
    for dev, lst in sorted(per_dev.items()):
        rec.count("violating_cases", len(lst))
        fw = sorted(w for w, _ in lst)
        w0, text0 = min(lst, key=lambda x: (len(x[1]), x[1]))
        r0 = examine(text0, False)
        where = label
        if neutral is not None and r0 is not None:
            df = astcmp.diff(r0["ast"], neutral["ast"])
            if df is not None:
                where = "%s.%s" % (df.owner, df.field)
        _, what = key_and_what(text0, dev)
        devname = "rendered-unquoted" if dev in ("output-does-not-parse", "ast-changed") and _unquoted(w0, text0, r0["out"]) else dev
        if len(fw) >= 0.9 * parsed:
            # (nearly) every keyword fails here: the position is responsible -> key on the AST node that holds the name
            key = "C24:reserved-word-name:%s:%s" % (where.split(".")[0], devname)
            what += " [position %s: %d of %d keywords fail]" % (label, len(fw), parsed)
        else:
            # only some keywords fail, whatever the position: the keyword is responsible
            known = _renderer_words()
            if known is not None and all(w not in known for w in fw):
                name = "keyword-unknown-to-renderer"
            else:
                name = "keywords[%s]" % (",".join(fw) if len(fw) <= 3 else "%s+%d-more" % (fw[0], len(fw) - 1))
            key = "C24:reserved-word-name:%s:%s" % (name, devname)
            what += " [position %s: %d of %d keywords fail: %s]" % (label, len(fw), parsed, " ".join(fw)[:300])
        rec.violation(key, what, {"kind": "static", "script": text0, "dev": dev})


class _env:
    def __init__(self, env):
        self.env, self.old = env or {}, {}

    def __enter__(self):
        for k, v in self.env.items():
            self.old[k] = os.environ.get(k)
            os.environ[k] = str(v)

    def __exit__(self, *a):
        for k, v in self.old.items():
            if v is None:
                os.environ.pop(k, None)
            else:
                os.environ[k] = v


def script_text(r):
    """script argument of a recorded call as text (None if it is not a str / readable path)"""
    from pathlib import Path
    a, k = corpus.materialise(r)
    s = a[0] if a else k.get("script")
    if isinstance(s, Path):
        try:
            return s.read_text(encoding="utf-8")
        except Exception:  # noqa: BLE001
            return None
    return s if isinstance(s, str) else None


def run_pair(r):
    """-> ('skip', why) | ('same',) | ('differs', description)"""
    E = eng()
    text = script_text(r)
    if text is None:
        return ("skip", "no-text")
    p = harness.call(E["prettify"], text)
    if p[0] != "ok" or harness.call(E["create_ast"], p[1])[0] != "ok":
        return ("skip", "prettify-already-fails")
    forget_rulesets()
    with _env(r.get("env")):
        kw = corpus.run_kwargs(r)
        kw["script"] = text
        kw.pop("output_folder", None)
        o = harness.call(E["run"], **kw)
        if o[0] != "ok":
            return ("skip", "original-run-fails-here")
        kw2 = corpus.run_kwargs(r)
        kw2["script"] = p[1]
        kw2.pop("output_folder", None)
        o2 = harness.call(E["run"], **kw2)
    if o2[0] != "ok":
        return ("differs", "run(prettify(s)) raises %s %s: %s; run(s) succeeds" % (o2[2], o2[3], o2[4][:200]))
    a, b = harness.canon_results(o[1]), harness.canon_results(o2[1])
    if harness.results_equal(a, b):
        nonempty = any(v[0] == "scalar" or (v[0] == "dataset" and v[1]["rows"]) for v in a.values())
        return ("same", nonempty)
    names = sorted(k for k in set(a) | set(b) if k not in a or k not in b or not harness.results_equal({k: a[k]}, {k: b[k]}))
    return ("differs", "results differ for %s" % names[:5])


def w_run(item, rec):
    per_key = {}
    for r in item:
        out = run_pair(r)
        if out[0] == "skip":
            rec.case(("run", out[1]), "run-skipped:" + out[1], nontrivial=False)
        elif out[0] == "same":
            rec.case(("run", r["id"]), "run-same", nontrivial=bool(out[1]))
            rec.count("runs_compared")
        else:
            rec.case(("run", r["id"]), "run-differs")
            rec.count("runs_compared")
            text = script_text(r)
            res = examine(text, False)
            static = sorted({d["dev"] for d in (res or {}).get("devs", []) if d["dev"] in ("ast-changed", "names-changed")})
            if static:
                # same root cause as the structural finding of this script (also reported by the static pass)
                rec.count("run_differences_explained_by_static_finding")
                for dev in static:
                    for frag in localise(text, res, dev):
                        if consequence(frag, dev):
                            continue
                        key, what = key_and_what(frag, dev)
                        per_key.setdefault(key, (frag, what + " [and run() on the recorded data of corpus call %s: %s]" % (r["id"], out[1]), dev))
            else:
                rec.violation("C24:run:ast-equal:result-differs",
                              "corpus run %s (%s): %s although the AST of the prettified script is equal" % (r["id"], r["test"], out[1]),
                              {"kind": "run", "id": r["id"]})
    flush(per_key, rec)


# ------------------------------------------------------------------------------------------------
# the generated spaces
# ------------------------------------------------------------------------------------------------

MANTISSAS = ["1", "1.5", "2.25", "1.23456789", "9.99999999", "123456.7891", "0.1"]
EXPONENTS = list(range(-12, 23))     # repr() switches to exponent form at 1e16: both sides of it
NUM_TEMPLATES = [("dataset-operand", "DS_r <- DS_1 * {lit};"), ("scalar-statement", "sc_r := {lit};"),
                 ("calc-clause", "DS_r <- DS_1[calc Me_2 := Me_1 + {lit}];")]


def plain(m, e):
    s = format(Decimal(m).scaleb(e), "f")
    return s if "." in s else s + ".0"


def number_space():
    out = []
    for tname, tpl in NUM_TEMPLATES:
        for m in MANTISSAS:
            for e in EXPONENTS:
                lit = plain(m, e)
                f = num_features(lit)
                for sign in ("", "-"):
                    ck = ("number", tname, sign or "+", min(f["sig"], 7), min(f["ndec"], 7), e)
                    out.append(("number:%s:%s%s" % (tname, sign, lit), tpl.replace("{lit}", sign + lit), ck))
    return out


DPR = "define datapoint ruleset dpr (variable Me_1, Id_2) is %s end datapoint ruleset;"
HR = "define hierarchical ruleset hr (variable rule Id_2) is %s end hierarchical ruleset;"
VP = "define viral propagation vp (variable At_1) is %s end viral propagation;"
UDO = "define operator f (%s) returns %s is %s end operator;"

NULL_CASES = [
    ("scalar-statement", "sc_r := null;"),
    ("operand-right", "DS_r <- DS_1 + null;"),
    ("operand-left", "DS_r <- null * DS_1;"),
    ("operand-unary", "sc_r := - null;"),
    ("operand-not", "sc_r := not null;"),
    ("operand-comparison", "DS_r <- DS_1 = null;"),
    ("operand-boolean", "DS_r <- DS_1 and null;"),
    ("operand-concat", "sc_r := null || \"a\";"),
    ("operand-parenthesis", "sc_r := (null);"),
    ("calc-value", "DS_r <- DS_1[calc Me_2 := null];"),
    ("calc-operand", "DS_r <- DS_1[calc Me_2 := Me_1 + null];"),
    ("calc-role-value", "DS_r <- DS_1[calc attribute At_2 := null];"),
    ("filter-comparison", "DS_r <- DS_1[filter Me_1 <> null];"),
    ("sub-value", "DS_r <- DS_1[sub Id_2 = null];"),
    ("nvl-second", "DS_r <- nvl(DS_1, null);"),
    ("nvl-first", "sc_r := nvl(null, 0);"),
    ("nvl-component-second", "DS_r <- DS_1[calc Me_2 := nvl(Me_1, null)];"),
    ("nvl-component-first", "DS_r <- DS_1[calc Me_2 := nvl(null, Me_1)];"),
    ("if-condition", "DS_r <- if null then DS_1 else DS_2;"),
    ("if-then", "DS_r <- if DS_1 > 0 then null else DS_2;"),
    ("if-else", "DS_r <- if DS_1 > 0 then DS_2 else null;"),
    ("if-component-condition", "DS_r <- DS_1[calc Me_2 := if null then Me_1 else 0];"),
    ("if-component-then", "DS_r <- DS_1[calc Me_2 := if Me_1 > 0 then null else Me_1];"),
    ("if-component-else", "DS_r <- DS_1[calc Me_2 := if Me_1 > 0 then Me_1 else null];"),
    ("case-condition", "DS_r <- case when null then DS_1 else DS_2;"),
    ("case-then", "DS_r <- case when DS_1 > 0 then null else DS_2;"),
    ("case-else", "DS_r <- case when DS_1 > 0 then DS_2 else null;"),
    ("case-component-condition", "DS_r <- DS_1[calc Me_2 := case when null then 1 else 2];"),
    ("case-component-then", "DS_r <- DS_1[calc Me_2 := case when Me_1 > 0 then null when Me_1 < 0 then 1 else 2];"),
    ("case-component-else", "DS_r <- DS_1[calc Me_2 := case when Me_1 > 0 then 1 else null];"),
    ("in-set-only", "DS_r <- DS_1 in {null};"),
    ("in-set-member", "DS_r <- DS_1[filter Me_1 in {1, null, 3}];"),
    ("not-in-set-member", "DS_r <- DS_1[filter Me_1 not_in {null, 2}];"),
    ("in-set-cast-member", "DS_r <- DS_1[filter Me_1 in {cast(null, integer), 2}];"),
    ("in-left", "sc_r := null in {1, 2};"),
    ("check-errorcode", "DS_r <- check(DS_1 > 0 errorcode null errorlevel 1 all);"),
    ("check-errorlevel", "DS_r <- check(DS_1 > 0 errorcode \"E\" errorlevel null all);"),
    ("check-imbalance", "DS_r <- check(DS_1 > 0 imbalance null);"),
    ("check-operand", "DS_r <- check(DS_1 > null);"),
    ("dpr-errorcode", DPR % "Me_1 > 0 errorcode null"),
    ("dpr-errorlevel", DPR % "Me_1 > 0 errorcode \"E\" errorlevel null"),
    ("dpr-consequent", DPR % "when Id_2 = \"A\" then null errorcode \"E\""),
    ("dpr-consequent-operand", DPR % "when Id_2 = \"A\" then Me_1 > null"),
    ("dpr-consequent-only", DPR % "r1: null; r2: Me_1 > 0"),
    ("dpr-antecedent", DPR % "when null then Me_1 > 0"),
    ("dpr-antecedent-operand", DPR % "when Id_2 = null then Me_1 > 0 errorlevel 2"),
    ("hr-errorcode", HR % "A = B + C errorcode null"),
    ("hr-errorlevel", HR % "A = B + C errorcode \"E\" errorlevel null; D = E - F errorlevel null"),
    ("hr-antecedent", "define hierarchical ruleset hr (variable condition Id_1 rule Id_2) is when Id_1 = null then A = B + C end hierarchical ruleset;"),
    ("udo-default", UDO % ("x dataset, y integer default null", "dataset", "x + y")),
    ("udo-default-cast", UDO % ("x dataset, y integer default cast(null, integer)", "dataset", "x + y")),
    ("udo-body", UDO % ("x dataset", "dataset", "nvl(x, null)")),
    ("udo-call-argument", "DS_r <- f(DS_1, null);"),
    ("join-nvl-clause", "DS_r <- left_join(DS_1, DS_2 using Id_1, nvl(Me_1, null));"),
    ("full-join-nvl-clause", "DS_r <- full_join(DS_1, DS_2 using Id_1, nvl(Me_1, 0), nvl(Me_2, null));"),
    ("join-calc", "DS_r <- inner_join(DS_1, DS_2 calc Me_3 := null);"),
    ("lag-default", "DS_r <- lag(DS_1, 1, null over (partition by Id_1 order by Id_2));"),
    ("lead-component-default", "DS_r <- DS_1[calc Me_2 := lead(Me_1, 1, null over (order by Id_2))];"),
    ("between-from", "DS_r <- between(DS_1, null, 5);"),
    ("between-to", "DS_r <- DS_1[calc Me_2 := between(Me_1, 1, null)];"),
    ("round-digits", "DS_r <- round(DS_1, null);"),
    ("trunc-component-digits", "DS_r <- DS_1[calc Me_2 := trunc(Me_1, null)];"),
    ("substr-arguments", "DS_r <- substr(DS_1, null, null);"),
    ("replace-arguments", "DS_r <- replace(DS_1, null, null);"),
    ("instr-arguments", "DS_r <- instr(DS_1, null, null, null);"),
    ("binary-numeric", "DS_r <- mod(DS_1, null);"),
    ("power-first", "sc_r := power(null, 2);"),
    ("cast-operand", "sc_r := cast(null, integer);"),
    ("isnull-operand", "sc_r := isnull(null);"),
    ("unary-function", "sc_r := abs(null);"),
    ("string-function", "sc_r := length(null);"),
    ("having", "DS_r <- sum(DS_1 group by Id_1 having count() > null);"),
    ("aggr-operand", "DS_r <- DS_1[aggr Me_2 := sum(null) group by Id_1];"),
    ("eval-argument", "DS_r <- eval(rt(DS_1, null) language \"SQL\" returns dataset {identifier<integer> Id_1, measure<number> Me_1});"),
    ("viral-condition", VP % "when null then \"N\"; else \"D\""),
    ("viral-condition-pair", VP % "when \"A\" and null then \"N\""),
    ("viral-result", VP % "when \"A\" then null"),
    ("viral-default", VP % "when \"A\" then \"B\"; else null"),
    ("exists-in", "DS_r <- exists_in(DS_1, DS_2, all);"),
    ("datediff", "sc_r := datediff(null, null);"),
    ("dateadd", "sc_r := dateadd(null, null, null);"),
    ("timeagg-operand", "sc_r := time_agg(\"A\", null);"),
]

# every position of the grammar that takes a name (IDENTIFIER): {w} is the quoted keyword
NAME_POSITIONS = [
    ("dataset-result", "{w} <- DS_1;"),
    ("dataset-result-temporary", "{w} := DS_1 + 1;"),
    ("dataset-operand", "DS_r <- {w} + 1;"),
    ("dataset-function-operand", "DS_r <- abs({w});"),
    ("dataset-clause-operand", "DS_r <- {w}[keep Me_1];"),
    ("dataset-join-operand", "DS_r <- inner_join({w}, DS_2);"),
    ("dataset-membership-left", "DS_r <- {w}#Me_1;"),
    ("component-membership", "DS_r <- DS_1#{w};"),
    ("component-calc-target", "DS_r <- DS_1[calc {w} := Me_1];"),
    ("component-calc-role-target", "DS_r <- DS_1[calc attribute {w} := Me_1];"),
    ("component-calc-expression", "DS_r <- DS_1[calc Me_2 := {w} + 1];"),
    ("component-function-operand", "DS_r <- DS_1[calc Me_2 := abs({w})];"),
    ("component-filter", "DS_r <- DS_1[filter {w} > 1];"),
    ("component-keep", "DS_r <- DS_1[keep {w}, Me_1];"),
    ("component-drop", "DS_r <- DS_1[drop {w}];"),
    ("component-rename-from", "DS_r <- DS_1[rename {w} to Me_2];"),
    ("component-rename-to", "DS_r <- DS_1[rename Me_1 to {w}];"),
    ("component-sub", "DS_r <- DS_1[sub {w} = 1];"),
    ("component-pivot-id", "DS_r <- DS_1[pivot {w}, Me_1];"),
    ("component-pivot-measure", "DS_r <- DS_1[pivot Id_2, {w}];"),
    ("component-unpivot", "DS_r <- DS_1[unpivot {w}, Me_9];"),
    ("component-aggr-target", "DS_r <- DS_1[aggr {w} := sum(Me_1) group by Id_1];"),
    ("component-aggr-operand", "DS_r <- DS_1[aggr Me_2 := sum({w}) group by Id_1];"),
    ("component-aggr-group-by", "DS_r <- DS_1[aggr Me_2 := sum(Me_1) group by {w}];"),
    ("component-aggr-having", "DS_r <- DS_1[aggr Me_2 := sum(Me_1) group by Id_1 having avg({w}) > 1];"),
    ("component-group-by", "DS_r <- sum(DS_1 group by {w}, Id_2);"),
    ("component-group-except", "DS_r <- avg(DS_1 group except {w});"),
    ("component-partition-by", "DS_r <- sum(DS_1 over (partition by {w} order by Id_2));"),
    ("component-order-by", "DS_r <- sum(DS_1 over (partition by Id_1 order by {w} desc));"),
    ("component-analytic-calc", "DS_r <- DS_1[calc Me_2 := rank(over (partition by {w} order by {w}))];"),
    ("component-using", "DS_r <- inner_join(DS_1, DS_2 using {w});"),
    ("component-join-nvl", "DS_r <- left_join(DS_1, DS_2 using Id_1, nvl({w}, 0));"),
    ("component-qualified-in-join", "DS_r <- inner_join(DS_1 as d1, DS_2 as d2 calc Me_3 := d1#{w});"),
    ("component-join-keep", "DS_r <- inner_join(DS_1, DS_2 keep {w});"),
    ("component-join-rename", "DS_r <- inner_join(DS_1, DS_2 rename {w} to Me_3);"),
    ("component-hierarchy-rule", "DS_r <- hierarchy(DS_1, hr rule {w} non_zero);"),
    ("component-hierarchy-condition", "DS_r <- hierarchy(DS_1, hr condition {w} rule Id_2);"),
    ("component-check-hierarchy-rule", "DS_r <- check_hierarchy(DS_1, hr rule {w} all);"),
    ("component-check-datapoint", "DS_r <- check_datapoint(DS_1, dpr components {w}, Me_2);"),
    ("component-time-agg-group", "DS_r <- sum(DS_1 group by {w});"),
    ("alias-join", "DS_r <- inner_join(DS_1 as {w}, DS_2 as d2);"),
    ("alias-join-used", "DS_r <- inner_join(DS_1 as {w}, DS_2 as d2 filter {w}#Me_1 > 1);"),
    ("alias-dpr-signature", "define datapoint ruleset dpr (variable Me_1 as {w}) is {w} > 0 end datapoint ruleset;"),
    ("alias-hr-condition", "define hierarchical ruleset hr (variable condition Id_1 as {w} rule Id_2) is when {w} = \"x\" then A = B + C end hierarchical ruleset;"),
    ("variable-dpr-signature", "define datapoint ruleset dpr (variable {w}) is {w} > 0 end datapoint ruleset;"),
    ("valuedomain-dpr-signature", "define datapoint ruleset dpr (valuedomain {w} as a) is a > 0 end datapoint ruleset;"),
    ("rule-name-dpr", "define datapoint ruleset dpr (variable Me_1) is {w}: Me_1 > 0 errorcode \"E\" end datapoint ruleset;"),
    ("rule-name-dpr-when", "define datapoint ruleset dpr (variable Me_1, Id_2) is r1: Me_1 > 0; {w}: when Id_2 = \"A\" then Me_1 > 0 end datapoint ruleset;"),
    ("rule-name-hr", "define hierarchical ruleset hr (variable rule Id_2) is {w}: A = B + C errorlevel 2 end hierarchical ruleset;"),
    ("ruleset-name-dpr", "define datapoint ruleset {w} (variable Me_1) is Me_1 > 0 end datapoint ruleset;"),
    ("ruleset-name-hr", "define hierarchical ruleset {w} (variable rule Id_2) is A = B + C end hierarchical ruleset;"),
    ("ruleset-name-check-datapoint", "DS_r <- check_datapoint(DS_1, {w});"),
    ("ruleset-name-hierarchy", "DS_r <- hierarchy(DS_1, {w} rule Id_2);"),
    ("ruleset-name-check-hierarchy", "DS_r <- check_hierarchy(DS_1, {w} rule Id_2);"),
    ("hr-signature-rule-component", "define hierarchical ruleset hr (variable rule {w}) is A = B + C end hierarchical ruleset;"),
    ("hr-signature-condition-component", "define hierarchical ruleset hr (valuedomain condition {w} rule Id_2) is A = B + C end hierarchical ruleset;"),
    ("hr-code-item-left", "define hierarchical ruleset hr (variable rule Id_2) is {w} = B + C end hierarchical ruleset;"),
    ("hr-code-item-right", "define hierarchical ruleset hr (variable rule Id_2) is A = {w} - C end hierarchical ruleset;"),
    ("operator-name-definition", "define operator {w} (x dataset) returns dataset is x end operator;"),
    ("operator-name-call", "DS_r <- {w}(DS_1, 2);"),
    ("operator-name-call-component", "DS_r <- DS_1[calc Me_2 := {w}(Me_1)];"),
    ("operator-parameter", "define operator f ({w} dataset, y integer default 1) returns dataset is {w} + y end operator;"),
    ("value-domain-in", "DS_r <- DS_1[filter Me_1 in {w}];"),
    ("eval-routine-name", "DS_r <- eval({w}(DS_1) language \"SQL\" returns dataset {identifier<integer> Id_1, measure<number> Me_1});"),
    ("eval-output-component", "DS_r <- eval(rt(DS_1) language \"SQL\" returns dataset {identifier<integer> {w}, measure<number> Me_1});"),
    ("viral-propagation-name", "define viral propagation {w} (variable At_1) is when \"A\" then \"B\" end viral propagation;"),
    ("viral-propagation-target", "define viral propagation vp (variable {w}) is when \"A\" then \"B\" end viral propagation;"),
    ("viral-propagation-clause-name", "define viral propagation vp (variable At_1) is {w}: when \"A\" then \"B\" end viral propagation;"),
    ("time-agg-period-variable", "DS_r <- time_agg({w}, DS_1);"),
    ("timeshift-variable", "DS_r <- timeshift(DS_1, {w});"),
    ("window-variable", "DS_r <- sum(DS_1 over (order by Id_2 data points between {w} preceding and current data point));"),
]

SCALAR_TYPES = ["string", "integer", "number", "boolean", "date", "time", "time_period", "duration", "scalar"]
ROLES = ["component", "measure", "identifier", "attribute", "viral attribute"]
UDO_PARAM_TYPES = (SCALAR_TYPES + ["dataset", "dataset {measure<number> Me_1}", "dataset {identifier<integer> Id_1, measure<number> _}",
                                   "dataset {measure<number> _+}", "dataset {attribute<string> _*}", "set", "ruleset", "datapoint",
                                   "datapoint_on_valuedomains", "datapoint_on_variables", "hierarchical",
                                   "hierarchical_on_valuedomains", "hierarchical_on_variables",
                                   "integer not null", "integer null", "integer [x > 0]", "integer {1, 2}",
                                   "integer default 1", "number default 1.5", "string default \"a\"", "boolean default true",
                                   "integer default cast(\"1\", integer)"]
                   + ROLES + ["%s<%s>" % (r, t) for r in ROLES for t in SCALAR_TYPES[:4]] + ["set<%s>" % t for t in SCALAR_TYPES[:4]])
UDO_RETURN_TYPES = SCALAR_TYPES + ["dataset", "dataset {measure<number> Me_1}"] + ROLES + ["measure<number>", "identifier<string>"]


def udo_type_space():
    out = []
    for t in UDO_PARAM_TYPES:
        out.append(("udo-parameter-type:" + t, "define operator f (x %s, y dataset) returns dataset is y end operator;" % t, ("udo", "param", t)))
    for t in UDO_RETURN_TYPES:
        out.append(("udo-return-type:" + t, "define operator f (x dataset) returns %s is x end operator;" % t, ("udo", "returns", t)))
    out.append(("udo-no-return-type", "define operator f (x dataset) is x end operator;", ("udo", "returns", None)))
    out.append(("udo-no-parameters", "define operator f () returns integer is 1 end operator;", ("udo", "param", None)))
    return out


COMMENT_BASE = ["DS_r", "<-", "DS_1", "[", "calc", "Me_2", ":=", "Me_1", "+", "1", "]", ";",
                "define", "operator", "f", "(", "x", "dataset", ")", "returns", "dataset", "is", "x", "*", "2", "end", "operator", ";",
                "sc_r", ":=", "f", "(", "DS_1", ")", ";"]


def comment_space():
    out = []
    for kind, c in (("block", "/* note %d */"), ("line", "// note %d\n"), ("block-multiline", "/* note %d\n   more */")):
        for gap in range(len(COMMENT_BASE) + 1):
            toks = list(COMMENT_BASE)
            toks.insert(gap, c % gap)
            where = "before-script" if gap == 0 else "after-script" if gap == len(COMMENT_BASE) else \
                "between-statements" if COMMENT_BASE[gap - 1] == ";" else "inside-statement"
            out.append(("comment:%s:gap%d" % (kind, gap), " ".join(toks), ("comment", kind, where, gap)))
        # two comments, identical text (multiset, not set)
        toks = [c % 0] + COMMENT_BASE[:12] + [c % 0] + COMMENT_BASE[12:]
        out.append(("comment:%s:twice" % kind, " ".join(toks), ("comment", kind, "duplicate-text", -1)))
    return out


def corpus_scripts():
    """distinct script texts of the recorded calls + test-suite .vtl files -> [(source, text)]"""
    seen = {}
    for line in open(corpus.INDEX, encoding="utf-8"):
        r = json.loads(line)
        if r["fn"] not in SCRIPT_FNS:
            continue
        try:
            t = script_text(r)
        except Exception:  # noqa: BLE001
            t = None
        if t is not None:
            seen.setdefault(t, "corpus call %s (%s)" % (r["id"], r["test"]))
    for f in sorted(glob.glob(os.path.join(harness.REPO, "tests", "**", "*.vtl"), recursive=True)):
        try:
            t = open(f, encoding="utf-8").read()
        except Exception:  # noqa: BLE001
            continue
        seen.setdefault(t, os.path.relpath(f, harness.REPO))
    return sorted(((src, t) for t, src in seen.items()), key=lambda x: (x[1], x[0]))


def run_cost(r):
    """deterministic proxy for the cost of a recorded run: bytes of data files + inline frames + script"""
    ps = []
    corpus._paths(r["args"], ps)
    corpus._paths(r["kwargs"], ps)
    size = 0
    for p in ps:
        try:
            if os.path.isdir(p):
                size += sum(os.path.getsize(os.path.join(p, f)) for f in os.listdir(p))
            else:
                size += os.path.getsize(p)
        except OSError:
            pass
    return size + len(json.dumps(r["kwargs"])) + len(json.dumps(r["args"]))


class Check:
    ID = "C24"
    LEVEL = "exploration"
    RULE = ("one case = one script through prettify (+ re-parse, AST comparison, name set, second prettify, comment multiset); "
            "corpus: every distinct parseable script text of the recorded API calls and tests/**/*.vtl, distinct = "
            "distinct set of (AST node class, operator) signatures; number: 7 mantissas x 10^-12..15 x sign x 3 "
            "statement shapes, distinct = (shape, sign, significant digits, decimals, exponent); null / reserved / "
            "udo-types / comments: one case per (position[, keyword]); run: one case per recorded run() call executed on the "
            "original and on the prettified text, non-trivial = a non-empty result. Scripts that do not parse are "
            "outside the quantifier (trivial).")
    ASSUMPTIONS = [
        "NUMBER_CONSTANT only admits plain decimal notation (INTEGER '.' INTEGER), so there is no exponent form to enumerate",
        "omitting an optional mode and writing its VTL default (check_hierarchy non_null/dataset/invalid, hierarchy "
        "non_null/rule/computed, check_datapoint invalid, fill_time_series all) are the same program; every other "
        "AST attribute except line/column positions must be identical",
        "the AST constructor's process-wide memory of hierarchical ruleset signatures (ASTDataExchange.de_ruleset_elements) "
        "is emptied before every case, so each case is judged as in a fresh process",
        "names = identifier tokens compared as a *set* (a name may legitimately be repeated, e.g. the rule component "
        "of hierarchy() made explicit); keywords, strings, numbers and comments are not names",
        "run() equivalence is only executed for corpus calls whose recorded data still exists under /repo/tests and "
        "whose original run succeeds in this sandbox",
    ]

    def run(self, tier, seed, rec):
        harness.boot()
        items = []
        scripts = corpus_scripts()
        cases = [(src, t, None) for src, t in scripts]
        for ch in harness.chunks(harness.seeded_order(cases, seed), 40):
            items.append((w_static, ("corpus", ch)))
        for ch in harness.chunks(harness.seeded_order(number_space(), seed), 60):
            items.append((w_static, ("number", ch)))
        nulls = [("null:" + n, t, ("null", n)) for n, t in NULL_CASES]
        for ch in harness.chunks(harness.seeded_order(nulls, seed), 20):
            items.append((w_static, ("null", ch)))
        for ch in harness.chunks(harness.seeded_order(udo_type_space(), seed), 25):
            items.append((w_static, ("udo-types", ch)))
        for ch in harness.chunks(harness.seeded_order(comment_space(), seed), 30):
            items.append((w_static, ("comments", ch)))
        words = reserved_words()
        for label, tpl in harness.seeded_order(NAME_POSITIONS, seed):
            items.append((w_reserved, (label, tpl, words)))
        runs = sorted(corpus.load(fn="run", outcome="ok"), key=lambda r: (run_cost(r), r["id"]))
        total_runs = len(runs)
        if tier == "quick":
            runs = runs[:300]
        for ch in harness.chunks(harness.seeded_order(runs, seed), 10):
            items.append((w_run, ch))
        harness.pmap(_dispatch, items, rec)
        # deterministic choice of the example kept per key (shortest script), whatever the worker order
        rec.violations.sort(key=lambda v: (v["key"], len(json.dumps(v["replay"], sort_keys=True)), json.dumps(v["replay"], sort_keys=True)))
        c = rec.counters
        if c.get("scripts_corpus", 0) < 1000 or c.get("scripts_number", 0) < 1000 or c.get("scripts_reserved", 0) < 1000:
            rec.tool_error("spaces not exercised: %s" % c)
        if c.get("scripts_with_comments", 0) < 50:
            rec.tool_error("comment oracle not exercised")
        if c.get("runs_compared", 0) < 100:
            rec.tool_error("run() oracle not exercised: %s runs compared" % c.get("runs_compared", 0))
        return {"exhaustive": True, "corpus_scripts": len(scripts), "number_literal_cases": len(number_space()),
                "null_positions": len(NULL_CASES), "name_positions": len(NAME_POSITIONS), "keywords": len(words),
                "comment_cases": len(comment_space()), "udo_type_cases": len(udo_type_space()), "corpus_runs_available": total_runs, "corpus_runs_executed": len(runs)}

    def replay(self, data):
        harness.boot()
        if data["kind"] == "static":
            r = examine(data["script"], True)
            return r is not None and any(d["dev"] == data["dev"] for d in r["devs"])
        if data["kind"] == "run":
            for r in corpus.load(fn="run", outcome="ok"):
                if r["id"] == data["id"]:
                    return run_pair(r)[0] == "differs"
        return False


def _dispatch(item, rec):
    fn, payload = item
    fn(payload, rec)

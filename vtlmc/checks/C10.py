"""C10 — results conform to the structure predicted by semantic analysis.

MON-10 evaluated on (i) every successful corpus run() (replayed with its data), (ii) every program of the shared
alphabet, (iii) a dedicated space of structure-changing statements over structures with 0-2 identifiers.
semantic_analysis() of the same script and structures is the model.
"""
import re

from vtlmc import corpus, harness, programs, refbase

DATE_RE = re.compile(r"^\d{4}-\d{2}-\d{2}([T ]\d{2}:\d{2}:\d{2}(\.\d+)?)?$")
PERIOD_RE = re.compile(r"^\d{4}(-?(A|S\d|Q\d|M\d{1,2}|W\d{1,2}|D\d{1,3}))?$|^\d{4}-\d{2}(-\d{2})?$|^\d{4}-(Q\d|S\d|W\d{2}|A1|M\d{2}|D\d{3})$")
DUR = {"A", "S", "Q", "M", "W", "D"}


def type_ok(tname, v, tp_format):
    if v is None:
        return True
    if tname == "Integer":
        return isinstance(v, int) and not isinstance(v, bool)
    if tname == "Number":
        return isinstance(v, (int, float)) and not isinstance(v, bool)
    if tname == "Boolean":
        return isinstance(v, bool)
    if tname == "String":
        return isinstance(v, str)
    if tname == "Date":
        return isinstance(v, str) and bool(DATE_RE.match(v))
    if tname == "TimePeriod":
        return isinstance(v, str) and bool(PERIOD_RE.match(v))
    if tname == "Duration":
        return isinstance(v, str) and v in DUR
    if tname == "TimeInterval":
        return isinstance(v, str) and "/" in v or (isinstance(v, str) and bool(PERIOD_RE.match(v)))
    return True


def conformance(sem, res, tp_format="vtl"):
    """-> list of (kind, detail)"""
    from vtlengine.Model import Dataset, Scalar
    probs = []
    for name, got in res.items():
        if name not in sem:
            probs.append(("result-not-predicted", name))
            continue
        exp = sem[name]
        if isinstance(got, Scalar):
            if not isinstance(exp, Scalar):
                probs.append(("kind-differs", name))
            elif exp.data_type.__name__ != "Null" and exp.data_type.__name__ != got.data_type.__name__ and got.value is not None:
                probs.append(("scalar-type-differs", "%s: %s vs predicted %s" % (name, got.data_type.__name__, exp.data_type.__name__)))
            continue
        if not isinstance(exp, Dataset):
            probs.append(("kind-differs", name))
            continue
        ec, gc = harness.canon_components(exp), harness.canon_components(got)
        if [c[0] for c in ec] != [c[0] for c in gc]:
            if sorted(c[0] for c in ec) == sorted(c[0] for c in gc):
                probs.append(("component-order-differs", "%s: %s vs predicted %s" % (name, [c[0] for c in gc], [c[0] for c in ec])))
            else:
                probs.append(("component-names-differ", "%s: %s vs predicted %s" % (name, [c[0] for c in gc], [c[0] for c in ec])))
        else:
            for e, g in zip(ec, gc):
                if e[1] != g[1]:
                    probs.append(("role-differs", "%s.%s: %s vs predicted %s" % (name, e[0], g[1], e[1])))
                if e[2] != g[2]:
                    probs.append(("type-differs:%s->%s" % (e[2], g[2]), "%s.%s" % (name, e[0])))
                if e[3] != g[3]:
                    probs.append(("nullability-differs", "%s.%s: %s vs predicted %s" % (name, e[0], g[3], e[3])))
        df = got.data
        if df is None:
            continue
        if list(df.columns) != [c[0] for c in gc]:
            probs.append(("column-order-differs", "%s: data columns %s vs components %s" % (name, list(df.columns), [c[0] for c in gc])))
        rows = harness.dataset_rows(got)
        ids = [c[0] for c in gc if c[1] == "Identifier"]
        seen = set()
        for r in rows:
            for cname, role, tname, nullable in gc:
                if cname not in r:
                    continue
                v = r[cname]
                if v is None and (role == "Identifier" or not nullable):
                    probs.append(("null-in-%s" % ("identifier" if role == "Identifier" else "non-nullable"), "%s.%s" % (name, cname)))
                if not type_ok(tname, v, tp_format):
                    probs.append(("value-type:%s" % tname, "%s.%s = %r" % (name, cname, v)))
            k = tuple(r.get(i) for i in ids)
            if k in seen and ids:
                probs.append(("duplicate-identifiers", "%s %s" % (name, k)))
            seen.add(k)
        if not ids and len(rows) > 1:
            probs.append(("no-identifiers-many-datapoints", name))
    # dedupe by kind
    out, kinds = [], set()
    for k, d in probs:
        if k not in kinds:
            kinds.add(k)
            out.append((k, d))
    return out


def corpus_items(item, rec):
    V = harness.boot()
    for r in item:
        kw = corpus.run_kwargs(r)
        if kw.get("output_folder"):
            continue
        sem_kw = {k: kw[k] for k in ("script", "data_structures", "value_domains", "external_routines", "sdmx_mappings") if k in kw}
        sem = harness.call(V.semantic_analysis, **sem_kw)
        out = harness.call(V.run, **kw)
        if out[0] != "ok" or sem[0] != "ok":
            rec.case(("corpus", "skip"), "not-runnable", nontrivial=False)
            continue
        probs = conformance(sem[1], out[1], kw.get("time_period_output_format", "vtl"))
        area = r["test"].split("/")[1] if "/" in r["test"] else "?"
        rec.case(("corpus", area, tuple(p[0] for p in probs)), "conforms" if not probs else "deviates",
                 nontrivial=any(getattr(v, "data", None) is not None and len(v.data) for v in out[1].values()),
                 sample={"corpus_id": r["id"], "test": r["test"], "results": sorted(out[1])} if not probs else None)
        for kind, detail in probs:
            uses_eval = "eval(" in str(kw.get("script", ""))
            rec.violation("C10:corpus:%s:%s" % ("eval-external-routine" if uses_eval else r["test"].split("::")[-1], kind),
                          "corpus call %s (%s): %s %s" % (r["id"], r["test"], kind, detail), {"corpus_id": r["id"]})


def borderline_inputs():
    """inputs whose identifiers collide only after the loader's normalisation: run() either rejects them or returns a
    result that conforms (in particular: unique identifiers)"""
    from vtlmc.refbase import DS, ID, ME
    out = []
    spell = [("month", "2020M1", "2020-M01"), ("quarter", "2021Q1", "2021-Q1"), ("year", "2020", "2020A"), ("month-iso", "2020M3", "2020-03"),
             ("day", "2020D1", "2020-01-01"), ("week", "2020W5", "2020-W05")]
    for lab, a, b in spell:
        d = DS("DS_1", [("Id_1", "String", ID), ("Id_2", "Time_Period", ID), ("Me_1", "Number", ME)],
               [{"Id_1": "A", "Id_2": a, "Me_1": 1.0}, {"Id_1": "A", "Id_2": b, "Me_1": 2.0}, {"Id_1": "B", "Id_2": a, "Me_1": 3.0}])
        for sname, script in (("copy", "DS_r <- DS_1;"), ("calc", "DS_r <- DS_1[calc Me_2 := Me_1 * 2];"), ("sub", 'DS_r <- DS_1[sub Id_1 = "A"];')):
            out.append(("two-spellings-of-one-period:%s:%s" % (lab, sname), script, [d]))
    return out


def borderline_items(item, rec):
    V = harness.boot()
    for name, script, dss in item:
        structs = {"datasets": [d.structure() for d in dss]}
        sem = harness.call(V.semantic_analysis, script, structs)
        out = refbase.run(script, dss, return_only_persistent=False)
        if sem[0] != "ok":
            rec.tool_error("borderline program %s fails semantic analysis: %s" % (name, sem[1:4]))
            continue
        if out[0] != "ok":
            rec.case(("borderline", name.split(":")[0], "rejected"), "input-rejected:%s" % out[3], nontrivial=True)
            continue
        probs = conformance(sem[1], out[1])
        rec.case(("borderline", name, tuple(p[0] for p in probs)), "conforms" if not probs else "deviates")
        for kind, detail in probs:
            rec.violation("C10:%s:%s" % (name, kind), "program %s (%s) on identifiers that collide after normalisation: %s %s" % (name, script, kind, detail),
                          {"borderline": name})


def program_items(item, rec):
    V = harness.boot()
    for name, script, dss, tags in item:
        structs = {"datasets": [d.structure() for d in dss]}
        sem = harness.call(V.semantic_analysis, script, structs)
        out = refbase.run(script, dss, return_only_persistent=False)
        if out[0] != "ok" or sem[0] != "ok":
            rec.tool_error("program %s not runnable: %s %s" % (name, sem[1:4] if sem[0] != "ok" else "", out[1:4] if out[0] != "ok" else ""))
            continue
        probs = conformance(sem[1], out[1])
        rec.case(("program", name, tuple(p[0] for p in probs)), "conforms" if not probs else "deviates")
        for kind, detail in probs:
            rec.violation("C10:%s:%s" % (name, kind), "program %s (%s): %s %s" % (name, script[:100], kind, detail), {"program": name})


def structural_programs():
    """structure-changing statements over structures with 0, 1, 2 identifiers and non-nullable measures"""
    from vtlmc.refbase import DS, ID, ME, AT
    out = []
    d0 = DS("DS_0", [("Me_1", "Number", ME, False), ("Me_2", "String", ME)], [{"Me_1": 1.0, "Me_2": "a"}])
    d1 = DS("DS_1", [("Id_1", "Integer", ID), ("Me_1", "Number", ME, False), ("Me_2", "Integer", ME), ("At_1", "String", AT)],
            [{"Id_1": 1, "Me_1": 1.5, "Me_2": 2, "At_1": "x"}, {"Id_1": 2, "Me_1": 2.5, "Me_2": None, "At_1": None}])
    d2 = DS("DS_2", [("Id_1", "Integer", ID), ("Id_2", "Date", ID), ("Me_1", "Number", ME, False), ("Me_3", "Boolean", ME)],
            [{"Id_1": 1, "Id_2": "2020-01-31", "Me_1": 10.0, "Me_3": True}, {"Id_1": 3, "Id_2": "2020-02-29", "Me_1": 30.0, "Me_3": None}])
    d1b = DS("DS_1B", [("Id_1", "Integer", ID), ("Me_1", "Number", ME, False), ("Me_2", "Integer", ME)],
             [{"Id_1": 7, "Me_1": 7.5, "Me_2": 70}, {"Id_1": 8, "Me_1": 8.25, "Me_2": None}])
    S = [
        ("no-id-copy", "DS_r <- DS_0;", [d0]), ("no-id-calc", "DS_r <- DS_0[calc Me_3 := Me_1 + 1];", [d0]),
        ("cast-ds", "DS_r <- cast(DS_1[keep Me_1], integer);", [d1]), ("cast-comp", "DS_r <- DS_1[calc Me_4 := cast(Me_2, string)];", [d1]),
        ("calc-id", "DS_r <- DS_1[calc identifier Id_9 := Me_1 + 1];", [d1]),
        ("calc-attr", "DS_r <- DS_1[calc attribute At_2 := At_1 || \"!\"];", [d1]),
        ("keep", "DS_r <- DS_1[keep Me_2];", [d1]), ("drop", "DS_r <- DS_1[drop Me_2, At_1];", [d1]),
        ("rename-swap", "DS_r <- DS_1[rename Me_1 to Me_2, Me_2 to Me_1];", [d1]),
        ("membership", "DS_r <- DS_1#Me_2;", [d1]), ("membership-id", "DS_r <- DS_2#Id_2;", [d2]),
        ("sub", "DS_r <- DS_2[sub Id_1 = 1];", [d2]), ("unpivot", "DS_r <- DS_1[keep Me_1][unpivot Id_9, Me_9];", [d1]),
        ("aggr-all", "DS_r <- sum(DS_1);", [d1]), ("aggr-group", "DS_r <- count(DS_2 group by Id_1);", [d2]),
        ("aggr-clause", "DS_r <- DS_2[aggr M := max(Me_1), N := count() group by Id_1];", [d2]),
        ("left-join", "DS_r <- left_join(DS_2 as a, DS_1 as b using Id_1 keep a#Me_3, b#Me_2);", [d1, d2]),
        ("full-join", "DS_r <- full_join(DS_1 as a, DS_1 as b keep a#Me_1, b#Me_2);", [d1]),
        ("union", "DS_r <- union(DS_1, DS_1[filter Me_1 > 2]);", [d1]),
        # operands whose physical column order differs from the declared component order (keep lists measures in another order)
        ("union-reordered-first", "DS_r <- union(DS_1[keep Me_2, Me_1], DS_1B);", [d1, d1b]),
        ("union-reordered-second", "DS_r <- union(DS_1B, DS_1[keep Me_2, Me_1]);", [d1, d1b]),
        ("union-reordered-via-statement", "A := DS_1[keep Me_2, Me_1]; DS_r <- union(A, DS_1B, DS_1B[calc Me_1 := Me_1 + 1]);", [d1, d1b]),
        ("intersect-reordered", "DS_r <- intersect(DS_1[keep Me_2, Me_1], DS_1[drop At_1]);", [d1]),
        ("symdiff-reordered", "DS_r <- symdiff(DS_1[keep Me_2, Me_1], DS_1B);", [d1, d1b]),
        ("setdiff-reordered", "A := DS_1[keep Me_2, Me_1]; DS_r <- setdiff(A, DS_1B);", [d1, d1b]),
        ("binary-reordered", "A := DS_1[keep Me_2, Me_1]; DS_r <- A + DS_1[drop At_1];", [d1]),
        ("join-reordered", "A := DS_1[keep Me_2, Me_1]; DS_r <- inner_join(A as a, DS_2 as b using Id_1 keep a#Me_2, b#Me_3);", [d1, d2]),
        ("aggr-reordered", "A := DS_2[keep Me_3, Me_1]; DS_r <- max(A group by Id_1);", [d2]),
        ("comparison", "DS_r <- DS_1[keep Me_1] > 2;", [d1]), ("isnull", "DS_r <- isnull(DS_1[keep Me_2]);", [d1]),
        ("time-agg", "DS_r <- DS_2[calc Me_9 := time_agg(\"M\", _, Id_2, first)];", [d2]),
        ("dateadd", "DS_r <- DS_2[calc Me_9 := dateadd(Id_2, 1, \"M\")];", [d2]),
        ("getyear", "DS_r <- DS_2[calc Me_9 := getyear(Id_2)];", [d2]),
        ("period-indicator", "DS_r <- DS_2[calc Me_9 := cast(Id_2, time_period)][calc Me_8 := period_indicator(Me_9)];", [d2]),
        ("check", "DS_r <- check(DS_1[keep Me_1] > 2 errorcode \"e\" errorlevel 1);", [d1]),
        ("scalar", "x <- 1 + 2.5; y <- \"a\" || \"b\"; z <- cast(\"2020-01-01\", date); DS_r <- DS_1 * x;", [d1]),
        ("if-ds", "A := DS_1[keep Me_1]; B := A * 2; DS_r <- if A > B then A else B;", [d1]),
        ("nvl", "DS_r <- nvl(DS_1[keep Me_2], 0);", [d1]), ("analytic", "DS_r <- DS_2[calc R := rank(over (order by Id_1))];", [d2]),
    ]
    return [(n, s, d, {"structure"}) for n, s, d in S]


class Check:
    ID = "C10"
    LEVEL = "exploration"
    RULE = ("semantic_analysis() is the model for run(): (i) every successful corpus run (quick: the 700 cheapest by script length "
            "plus every multi-statement script; thorough: all), (ii) every program of vtlmc/programs.py, (iii) 30 structure-changing "
            "statements over structures with 0-2 identifiers; a case = one (semantic, run) pair; distinct key = (source, area/program, "
            "deviation kinds); non-trivial = some returned dataset has datapoints")
    ASSUMPTIONS = ["lexical value checks for Date / Time_Period / Duration are loose (the documented forms are C19/C21's subject)"]

    def run(self, tier, seed, rec):
        harness.boot()
        rs = corpus.load(fn="run", outcome="ok")
        if tier == "quick":
            multi = [r for r in rs if str(r["args"][0] if r["args"] else r["kwargs"].get("script", "")).count(";") > 1]
            single = sorted([r for r in rs if r not in multi], key=lambda r: len(str(r["args"][:1]) + str(r["kwargs"].get("script", ""))))
            rs = multi[:300] + single[:500]
        harness.pmap(corpus_items, list(harness.chunks(harness.seeded_order(rs, seed), 25)), rec)
        P = programs.programs() + structural_programs()
        harness.pmap(program_items, list(harness.chunks(P, 6)), rec)
        harness.pmap(borderline_items, list(harness.chunks(borderline_inputs(), 3)), rec)
        return {"exhaustive": tier == "thorough", "corpus_runs": len(rs), "programs": len(P)}

    def replay(self, data):
        rec = harness.Recorder()
        if "corpus_id" in data:
            corpus_items([r for r in corpus.load(fn="run", outcome="ok") if r["id"] == data["corpus_id"]], rec)
        elif "borderline" in data:
            borderline_items([p for p in borderline_inputs() if p[0] == data["borderline"]], rec)
        else:
            program_items([p for p in programs.programs() + structural_programs() if p[0] == data["program"]], rec)
        return bool(rec.violations)

"""C33 — results depend only on the set of input datapoints.

Explorer E1 + oracle O1: for every program of the shared alphabet (vtlmc/programs.py) every row permutation of
each input (all n! for n <= 5 quick / 6 thorough; reversal + rotations + adjacent transpositions above that)
and a family of column orders, in DataFrame and CSV form; the set of result datapoints must equal the identity
order's.  Thorough adds every successful corpus run with its CSV inputs reversed / rotated.
"""
import itertools
import os

from vtlmc import harness, programs, refbase


def row_orders(n, limit):
    if n <= limit:
        return [p for p in itertools.permutations(range(n))]
    out = [tuple(reversed(range(n)))]
    out += [tuple(list(range(k, n)) + list(range(k))) for k in range(1, n)]
    for i in range(n - 1):
        p = list(range(n))
        p[i], p[i + 1] = p[i + 1], p[i]
        out.append(tuple(p))
    return out


def col_orders(m, full):
    if full or m <= 3:
        return list(itertools.permutations(range(m)))
    out = [tuple(reversed(range(m)))]
    out += [tuple(list(range(k, m)) + list(range(k))) for k in range(1, m)]
    return out


def materialise(ds, rows_perm, cols_perm, form, tag):
    import pandas as pd
    cols = [c[0] for c in ds.comps]
    if cols_perm is not None:
        cols = [cols[i] for i in cols_perm]
    rows = ds.rows if rows_perm is None else [ds.rows[i] for i in rows_perm]
    base = ds.frame()
    df = base.iloc[list(rows_perm)] if rows_perm is not None else base
    df = df[cols].reset_index(drop=True)
    if form == "df":
        return df
    d = os.path.join(harness.scratch(), "c33", str(os.getpid()))
    os.makedirs(d, exist_ok=True)
    p = os.path.join(d, "%s.csv" % ds.name)
    df.to_csv(p, index=False)
    from pathlib import Path
    return Path(p)


def run_variant(V, script, dss, variant):
    """variant: dict ds name -> (rows_perm, cols_perm, form)"""
    structs = {"datasets": [d.structure() for d in dss]}
    dps = {}
    for d in dss:
        rp, cp, form = variant.get(d.name, (None, None, "df"))
        dps[d.name] = materialise(d, rp, cp, form, "")
    out = harness.call(V.run, script, structs, dps)
    if out[0] == "ok":
        return ("ok", harness.canon_results(out[1]))
    return ("err",) + tuple(out[1:4])


def explore_program(item, rec):
    name, script, dss, tags, limit, fullcols, chunk = item
    V = harness.boot()
    base = run_variant(V, script, dss, {})
    if base[0] != "ok":
        rec.tool_error("program %s does not run: %s" % (name, base[1:]))
        return
    nontrivial = any(v[0] == "dataset" and v[1]["rows"] for v in base[1].values())
    variants = []
    for d in dss:
        n = len(d.rows)
        for form in ("df", "csv"):
            for rp in row_orders(n, limit):
                variants.append(("row-order", d.name, form, {d.name: (rp, None, form)}))
            for cp in col_orders(len(d.comps), fullcols):
                variants.append(("column-order", d.name, form, {d.name: (None, cp, form)}))
    if len(dss) > 1:   # pairwise extremes
        for form in ("df", "csv"):
            variants.append(("row-order", "all", form, {d.name: (tuple(reversed(range(len(d.rows)))), None, form) for d in dss}))
            variants.append(("column-order", "all", form, {d.name: (None, tuple(reversed(range(len(d.comps)))), form) for d in dss}))
    lo, hi = chunk
    for kind, which, form, variant in variants[lo:hi]:
        got = run_variant(V, script, dss, variant)
        same = got[0] == "ok" and harness.results_equal(base[1], got[1])
        rec.case((name, kind, form, same), "same" if same else "differs", nontrivial=nontrivial,
                 sample={"program": name, "script": script, "variant": {k: [list(v[0]) if v[0] else None, list(v[1]) if v[1] else None, v[2]] for k, v in variant.items()}}
                 if kind == "row-order" and which != "all" else None)
        if not same:
            tag = sorted(tags)[0]
            detail = "raises %s" % (got[1:],) if got[0] != "ok" else "different datapoints"
            rec.violation("C33:%s:%s:%s:%s:%s" % (tag, name, kind, form, "error" if got[0] != "ok" else "differs"),
                          "program %s (%s): %s of %s in %s form -> %s" % (name, script[:120], kind, which, form, detail),
                          {"program": name, "variant": {k: [v[0], v[1], v[2]] for k, v in variant.items()}})
    rec.count("variants_total_for_" + name, 0)


def corpus_case(item, rec):
    recs, = (item,)
    V = harness.boot()
    import pandas as pd
    from pathlib import Path
    from vtlmc import corpus
    for r in recs:
        kw = corpus.run_kwargs(r)
        dps = kw.get("datapoints")
        if not isinstance(dps, dict) or kw.get("output_folder"):
            continue
        base = harness.call(V.run, **kw)
        if base[0] != "ok":
            continue
        cb = harness.canon_results(base[1])
        frames = {}
        for k, v in dps.items():
            if isinstance(v, Path) and str(v).endswith(".csv"):
                try:
                    frames[k] = pd.read_csv(v, dtype=str, keep_default_na=False)
                except Exception:
                    frames = None
                    break
            elif isinstance(v, pd.DataFrame):
                frames[k] = v
            else:
                frames = None
                break
        if not frames:
            continue
        d = os.path.join(harness.scratch(), "c33c", str(os.getpid()))
        os.makedirs(d, exist_ok=True)
        for mode in ("reverse-rows", "rotate-rows", "reverse-columns"):
            new = {}
            for k, df in frames.items():
                if mode == "reverse-rows":
                    df2 = df.iloc[::-1]
                elif mode == "rotate-rows":
                    h = len(df) // 2
                    df2 = pd.concat([df.iloc[h:], df.iloc[:h]])
                else:
                    df2 = df[list(df.columns[::-1])]
                if isinstance(dps[k], Path):
                    p = os.path.join(d, os.path.basename(str(dps[k])))
                    df2.to_csv(p, index=False)
                    new[k] = Path(p)
                else:
                    new[k] = df2.reset_index(drop=True)
            kw2 = dict(kw)
            kw2["datapoints"] = new
            got = harness.call(V.run, **kw2)
            same = got[0] == "ok" and harness.results_equal(cb, harness.canon_results(got[1]))
            rec.case(("corpus", mode, same), "same" if same else "differs", nontrivial=any(len(f) > 1 for f in frames.values()))
            if not same:
                rec.violation("C33:corpus:%s:%s" % (r["test"].split("::")[0].replace("tests/", ""), mode),
                              "corpus call %s (%s): %s -> %s" % (r["id"], r["test"], mode, "error %s" % (got[1:4],) if got[0] != "ok" else "different datapoints"),
                              {"corpus_id": r["id"], "mode": mode})


class Check:
    ID = "C33"
    LEVEL = "exploration"
    RULE = ("for each of the ~57 programs of vtlmc/programs.py and each input: all row permutations (n<=4 quick, n<=6 thorough; "
            "reversal+rotations+adjacent transpositions for larger inputs) and column orders (reversal+rotations quick, all "
            "thorough), in DataFrame and CSV form, plus pairwise extremes; a case = one run compared (as sets of datapoints) "
            "with the identity order; distinct key = (program, kind, form, verdict); non-trivial = the result is non-empty")
    ASSUMPTIONS = ["programs use total orderings in analytic clauses (no ties) and no current_date"]

    def run(self, tier, seed, rec):
        harness.boot()
        limit = 4 if tier == "quick" else 6
        P = programs.programs()
        if tier == "thorough":
            P = [(n, s, [programs.ds1(6) if d.name == "DS_1" else d for d in dss], t) for n, s, dss, t in P]
        else:
            P = [(n, s, [programs.ds1(4) if d.name == "DS_1" else (programs.ds2(4) if d.name == "DS_2" else d) for d in dss], t) for n, s, dss, t in P]
        items = []
        for name, script, dss, tags in P:
            total = sum(2 * (len(row_orders(len(d.rows), limit)) + len(col_orders(len(d.comps), tier == "thorough"))) for d in dss) + 4
            step = 90
            for lo in range(0, total, step):
                items.append((name, script, dss, tags, limit, tier == "thorough", (lo, lo + step)))
        harness.pmap(explore_program, harness.seeded_order(items, seed), rec)
        if tier == "thorough":
            from vtlmc import corpus
            rs = corpus.load(fn="run", outcome="ok")
            harness.pmap(corpus_case, list(harness.chunks(rs, 20)), rec)
        return {"exhaustive": True, "programs": len(P), "row_permutation_limit": limit}

    def replay(self, data):
        V = harness.boot()
        if "program" in data:
            for name, script, dss, tags in programs.programs():
                if name == data["program"]:
                    base = run_variant(V, script, dss, {})
                    variant = {k: (tuple(v[0]) if v[0] else None, tuple(v[1]) if v[1] else None, v[2]) for k, v in data["variant"].items()}
                    nmax = max([len(v[0]) for v in variant.values() if v[0]] or [0])
                    if nmax:
                        dss = [programs.ds1(nmax) if d.name == "DS_1" and len(d.rows) != nmax and nmax in (4, 6) else
                               (programs.ds2(4) if d.name == "DS_2" and nmax == 4 else d) for d in dss]
                        base = run_variant(V, script, dss, {})
                    got = run_variant(V, script, dss, variant)
                    return not (got[0] == "ok" and harness.results_equal(base[1], got[1]))
        rec = harness.Recorder()
        from vtlmc import corpus
        corpus_case([r for r in corpus.load(fn="run", outcome="ok") if r["id"] == data["corpus_id"]], rec)
        return bool(rec.violations)

"""C21 — Time_Period values round-trip through every input and output representation.

Every valid period (A S Q M W D, every period number; ISO weeks, leap days from the reference calendar
``vtlmc.refcal``) of every year of the tier's range plus the years {1, 999, 1000, 1799, 1800, 9999}, written in
EVERY input spelling documented in docs/data_types.rst ("Accepted input formats" table, parsed at run time), is
loaded through ``run()`` and rendered in each of the four ``time_period_output_format`` values.  One dataset per
(indicator, spelling, format, role) carries all periods, so a run() handles thousands of rows.  Channels:

* ``memory``  run() result DataFrame (SQL macro + the Python formatter applied by API.run),
* ``csv``     run(output_folder=...) -> DS_r.csv (SQL macro only),
* ``python``  check_time_period / TimePeriodHandler / *_representation called directly on the same strings,
* ``scalar``  ``sc_r <- cast("<period>", time_period)`` for the first / last period of a few years.

Oracle: a renderer rebuilt from the "Output formats" table of the same rst file (nothing of the engine is used to
compute an expectation).
"""
import csv
import os
import re

from vtlmc import harness
from vtlmc import refcal as R

FORMATS = ("vtl", "sdmx_reporting", "sdmx_gregorian", "natural")
EXTRA_YEARS = (1, 999, 1000, 1799, 1800, 9999)
ROW_NAME = {"annual": "A", "semester": "S", "quarter": "Q", "month": "M", "monthly": "M", "week": "W", "weekly": "W",
            "day": "D", "daily": "D"}


# ------------------------------------------------------------------------------------------------------------------
# O2: the two documentation tables, parsed at run time
# ------------------------------------------------------------------------------------------------------------------

def rst_list_table(text, marker):
    """rows (lists of cell strings) of the first ``.. list-table::`` that follows the line containing ``marker``"""
    lines = text.splitlines()
    start = next(i for i, ln in enumerate(lines) if marker in ln)
    i = next(j for j in range(start, len(lines)) if lines[j].strip().startswith(".. list-table::"))
    rows, i = [], i + 1
    while i < len(lines):
        ln = lines[i]
        if ln.strip() and not ln.startswith(" "):
            break
        s = ln.strip()
        if s.startswith("* - "):
            rows.append([s[4:]])
        elif s.startswith("- ") and rows:
            rows[-1].append(s[2:])
        elif s and not s.startswith(":") and rows:
            rows[-1][-1] += " " + s
        i += 1
    return rows


def lits(cell):
    return re.findall(r"``([^`]*)``", cell)


def spelling_variants(fmt_text):
    """documented input format -> [(label, fn(period) -> str)].  Grammar of the docs: YYYY = 4-digit year; an upper-case
    indicator letter is literal; a run of lower-case letters is the period number zero-padded to the length of the run;
    ``[xx]x`` = 1 to 3 digits; ``YYYY-MM`` / ``YYYY-M`` / ``YYYY-MM-DD`` = Gregorian month (2 digits / unpadded) / date."""
    def yy(p):
        return "%04d" % p[1]
    if fmt_text == "YYYY":
        return [("YYYY", lambda p: yy(p))]
    if fmt_text == "YYYY-MM":
        return [("YYYY-MM", lambda p: "%s-%02d" % (yy(p), p[2]))]
    if fmt_text == "YYYY-M":
        return [("YYYY-M", lambda p: "%s-%d" % (yy(p), p[2]))]
    if fmt_text == "YYYY-MM-DD":
        return [("YYYY-MM-DD", lambda p: R.start_date(p).isoformat())]
    m = re.fullmatch(r"YYYY(-?)([ASQMWD])(?:(1)|(?:\[([a-z]+)\])?([a-z]+))?", fmt_text)
    if not m:
        return None
    hy, letter, one, opt, req = m.groups()
    if one or (opt is None and req is None):
        tail = "1" if one else ""
        return [(fmt_text, lambda p, hy=hy, letter=letter, tail=tail: yy(p) + hy + letter + tail)]
    widths = range(len(req), len(req) + len(opt or "") + 1)
    out = []
    for w in widths:
        label = fmt_text if len(widths) == 1 else "%s/%d-digit" % (fmt_text, w)
        out.append((label, lambda p, hy=hy, letter=letter, w=w: "%s%s%s%0*d" % (yy(p), hy, letter, w, p[2])))
    return out


def output_template(cell):
    """one cell of the output-format table -> template; the example's digits tell the padding only when they show it"""
    ex = lits(cell)
    if not ex:
        return ("unsupported",) if "not supported" in cell.lower() else None
    e = ex[0]
    if re.fullmatch(r"\d{4}", e):
        return ("year",)
    if re.fullmatch(r"\d{4}-\d{2}", e):
        return ("isomonth",)
    if re.fullmatch(r"\d{4}-\d{2}-\d{2}", e):
        return ("isodate",)
    m = re.fullmatch(r"\d{4}(-?)([ASQMWD])(\d+)", e)
    if not m:
        return None
    hy, letter, digits = m.groups()
    widths = (len(digits),) if digits[0] == "0" or len(digits) == 1 else (1, len(digits))
    return ("ind", hy, letter, widths)


def render(t, p, w=None):
    y = "%04d" % p[1]
    if t[0] == "year":
        return y
    if t[0] == "isomonth":
        return "%s-%02d" % (y, p[2])
    if t[0] == "isodate":
        d = R.start_date(p)
        return "%s-%02d-%02d" % (y, d.month, d.day)
    return "%s%s%s%0*d" % (y, t[1], t[2], w if w else t[3][0], p[2])


def load_docs():
    text = open(os.path.join(harness.REPO, "docs", "data_types.rst"), encoding="utf-8").read()
    spell, examples, problems = {}, {}, []
    for row in rst_list_table(text, "**Accepted input formats:**")[1:]:
        ind = ROW_NAME.get(row[0].strip().lower())
        if ind is None:
            problems.append("input table: unknown row %r" % row[0])
            continue
        spell[ind] = []
        for f in lits(row[1]):
            v = spelling_variants(f)
            if v is None:
                problems.append("input table: cannot interpret format %r" % f)
            else:
                spell[ind].extend(v)
        examples[ind] = lits(row[2]) if len(row) > 2 else []
    out = {}
    rows = rst_list_table(text, "**Output formats**")
    header = [ROW_NAME.get(c.strip().lower()) for c in rows[0][1:]]
    for row in rows[1:]:
        name = lits(row[0])[0].strip('"')
        out[name] = {}
        for ind, cell in zip(header, row[1:]):
            t = output_template(cell)
            if t is None or ind is None:
                problems.append("output table: cannot interpret cell %r of %s" % (cell, name))
            else:
                out[name][ind] = t
    for f in FORMATS:
        if sorted(out.get(f, {})) != sorted(R.INDICATORS):
            problems.append("output table: format %s incomplete" % f)
    for ind in R.INDICATORS:
        if not spell.get(ind):
            problems.append("input table: no spelling for %s" % ind)
    return spell, examples, out, problems


# ------------------------------------------------------------------------------------------------------------------
# observation channels (all through the public API) and the judgement shared by run() and replay()
# ------------------------------------------------------------------------------------------------------------------

def _structs(role):
    if role == "identifier":
        return harness.structures(harness.structure("DS_1", [harness.comp("Id_1", "Time_Period", "Identifier"),
                                                             harness.comp("Me_1", "Integer", "Measure")]))
    return harness.structures(harness.structure("DS_1", [harness.comp("Id_1", "Integer", "Identifier"),
                                                         harness.comp("Me_1", "Time_Period", "Measure")]))


_N = [0]


def observe(channel, role, fmt, values):
    """-> ('ok', [output per value]) | ('err', kind, class, code, message)"""
    V = harness.boot()
    import pandas as pd
    if channel == "python":
        from vtlengine.DataTypes._time_checking import check_time_period
        from vtlengine.DataTypes.TimeHandling import TimePeriodHandler

        def one(s):
            c = check_time_period(s)
            if str(TimePeriodHandler(s)) != c:
                return "<TimePeriodHandler(%r) -> %s but check_time_period -> %s>" % (s, TimePeriodHandler(s), c)
            return getattr(TimePeriodHandler(c), fmt + "_representation")()
        return ("ok", [(lambda o: o[1] if o[0] == "ok" else o)(harness.call(one, s)) for s in values])
    if channel == "scalar":
        script = " ".join('sc_%d <- cast("%s", time_period);' % (i, s) for i, s in enumerate(values))
        o = harness.call(V.run, script, _structs("measure"), {"DS_1": pd.DataFrame({"Id_1": [1], "Me_1": ["2000"]})},
                         time_period_output_format=fmt)
        if o[0] == "err":
            return o
        return ("ok", [harness.canon_value(o[1]["sc_%d" % i].value) for i in range(len(values))])
    idx = list(range(len(values)))
    tp, ix = ("Id_1", "Me_1") if role == "identifier" else ("Me_1", "Id_1")
    df = pd.DataFrame({tp: pd.Series(values, dtype="object"), ix: idx})[["Id_1", "Me_1"]]
    kw = {"time_period_output_format": fmt}
    if channel == "csv":
        _N[0] += 1
        d = os.path.join(harness.scratch(), "c21-%d-%d" % (os.getpid(), _N[0]))
        os.makedirs(d, exist_ok=True)
        kw["output_folder"] = d
    o = harness.call(V.run, "DS_r <- DS_1;", _structs(role), {"DS_1": df}, **kw)
    if o[0] == "err":
        return o
    got = {}
    if channel == "csv":
        path = os.path.join(d, "DS_r.csv")
        with open(path, newline="", encoding="utf-8") as f:
            for r in csv.DictReader(f):
                got[int(r[ix])] = r[tp]
        os.remove(path)
    else:
        data = o[1]["DS_r"].data
        for k, v in zip(data[ix].tolist(), data[tp].tolist()):
            got[int(k)] = harness.canon_value(v)
    return ("ok", [got.get(i) for i in idx])


def fails(obs, expect):
    """expect: 'vtl-error' | 'all-equal' | 'identity:<values>' handled by caller | list of acceptable-value lists"""
    if expect == "vtl-error":      # whole-run error, or (python channel) an error on every row
        if obs[0] == "err":
            return obs[1] != "vtl"
        return not all(isinstance(v, tuple) and v[1] == "vtl" for v in obs[1])
    if obs[0] == "err":
        return True
    if expect == "all-equal":
        return len(set(obs[1])) > 1
    return any(isinstance(o, tuple) or o not in e for o, e in zip(obs[1], expect))


def collect(channel, role, fmt, periods, values, memo):
    """observe one column -> (outs {i: value}, errs {i: error tuple}, blind [i]).  Years below 1000 go in a run of
    their own; a failing run is split by year and, once per (channel, year) of a work item, bisected down to its first
    failing row (rows of a failing run that are not isolated are 'blind': executed, run verdict known, row verdict not)"""
    outs, errs, blind = {}, {}, []
    if channel == "python":
        o = observe(channel, role, fmt, values)
        for i, v in enumerate(o[1]):
            (errs if isinstance(v, tuple) else outs)[i] = v
        return outs, errs, blind

    def run(idxs):
        memo["runs"] = memo.get("runs", 0) + 1
        o = observe(channel, role, fmt, [values[i] for i in idxs])
        if o[0] == "ok":
            outs.update(zip(idxs, o[1]))
        return o
    groups = {}
    for i, p in enumerate(periods):
        groups.setdefault(p[1] < 1000, []).append(i)
    for _, idxs in sorted(groups.items()):
        if run(idxs)[0] == "ok":
            continue
        years = {}
        for i in idxs:
            years.setdefault(periods[i][1], []).append(i)
        failed_years = 0
        for y, yi in sorted(years.items()):
            if failed_years >= 8:
                blind.extend(yi)
                continue
            o = run(yi) if len(years) > 1 else ("err",)
            if o[0] == "ok":
                continue
            failed_years += 1
            if (channel, y) in memo:
                blind.extend(yi)
                continue
            memo[(channel, y)] = True
            lo = yi
            while len(lo) > 1:
                h = len(lo) // 2
                if run(lo[:h])[0] == "ok":
                    lo = lo[h:]
                else:
                    blind.extend(lo[h:])
                    lo = lo[:h]
            o = run(lo)
            if o[0] == "err":
                errs[lo[0]] = o
    return outs, errs, blind


def ycls(y):
    return ("year-below-1000" if y < 1000 else "year-1000-to-1899" if y < 1900 else "year-1900-to-2100" if y <= 2100
            else "year-above-2100")


def pcls(p):
    ind, y, n = p
    if ind in ("W", "D") and n == R.periods_in_year(ind, y) and n in (53, 366):
        return "extra-period-of-long-year"
    return "first-period" if n == 1 else "last-period" if n == R.periods_in_year(ind, y) else "inner-period"


def unpadded_year(p, text, acceptable):
    """the observed text is an acceptable value whose year lost its leading zeros"""
    if p[1] >= 1000 or not isinstance(text, str):
        return False
    y4, y = "%04d" % p[1], str(p[1])
    return any(e.startswith(y4) and (text == y + e[4:] or (y + e[4:]) in text) for e in acceptable)


def _periods(ind, years):
    return [p for y in years for p in R.year_periods(ind, y)]


def _years(tier):
    lo, hi = (1995, 2030) if tier == "quick" else (1900, 2100)
    return sorted(set(range(lo, hi + 1)) | set(EXTRA_YEARS))


# ------------------------------------------------------------------------------------------------------------------
# one work item = one (indicator, format, role): loops over the documented spellings
# ------------------------------------------------------------------------------------------------------------------

def _report(rec, key, what, replay):
    rec.violation(key, what, replay)


def _judge_column(rec, ind, fmt, role, channel, label, periods, values, templ, memo):
    """run one column through one channel and compare with the documented representation; -> outputs list or None"""
    n = len(periods)
    ck = lambda yc, outcome: (ind, label, fmt, role, channel, yc, outcome)  # noqa: E731
    if templ[0] == "unsupported":
        obs = observe(channel, role, fmt, values)
        bad = fails(obs, "vtl-error")
        if obs[0] == "ok":      # python channel, per-row outcomes: show the first row that is not a VTL error (or the first)
            w = next((v for v in obs[1] if not (isinstance(v, tuple) and v[1] == "vtl")), obs[1][0])
            obs = w if isinstance(w, tuple) else ("ok", [w])
        if bad:
            got = "no error (%r)" % obs[1][0] if obs[0] == "ok" else "%s %s: %s" % (obs[1], obs[2], obs[4][:160])
            rec.case(ck("all", "unsupported-cell-" + ("no-error" if obs[0] == "ok" else "raw-error")), "unsupported-bad", n=n)
            _report(rec, "C21:render:%s:unsupported-indicator:%s" % (
                fmt, "no-error" if obs[0] == "ok" else "raw-error:" + obs[2]),
                "run(time_period_output_format=%r) [%s, period as %s] on %s periods (documented 'Not supported'), e.g. "
                "input %r: expected a VTLEngineException, observed %s" % (fmt, channel, role, ind, values[0], got),
                {"channel": channel, "role": role, "fmt": fmt, "values": values[:1], "expect": "vtl-error"})
        else:
            rec.case(ck("all", "unsupported-cell-vtl-error"), "unsupported-vtl-error:%s" % obs[3], n=n)
        return None
    outs, errs, blind = collect(channel, role, fmt, periods, values, memo)
    if blind:
        rec.count("rows_in_failing_runs_not_isolated", len(blind))
        rec.case(ck("all", "in-failing-run"), "in-failing-run", nontrivial=False, n=len(blind))
    widths = templ[3] if templ[0] == "ind" else (None,)
    best = None
    for w in widths:      # one padding policy must explain the whole column where the docs example leaves it open
        exp = [render(templ, p, w) for p in periods]
        bad = [i for i in outs if outs[i] != exp[i]]
        if best is None or len(bad) < len(best[1]):
            best = (exp, bad, w)
    exp, bad, w = best
    okc = {}
    for i in outs:
        if outs[i] == exp[i]:
            yc = ycls(periods[i][1])
            okc[yc] = okc.get(yc, 0) + 1
    for yc, c in okc.items():
        rec.case(ck(yc, "documented-representation"), "rendered-as-documented", n=c,
                 sample={"indicator": ind, "spelling": label, "format": fmt, "role": role, "channel": channel,
                         "input": values[0], "output": outs.get(0)})
    seen = set()
    for i in bad:
        p = periods[i]
        acc = sorted({render(templ, p, x) for x in widths})
        if unpadded_year(p, outs[i], acc):
            key, cls = "C21:render:year-below-1000:year-not-zero-padded", "year-not-zero-padded"
        else:
            cls = "wrong-value"
            key = "C21:render:%s:%s:%s:%s:%s:wrong-value" % (channel, fmt, ind, ycls(p[1]), pcls(p))
        rec.case(ck(ycls(p[1]), cls), cls)
        if key not in seen:
            seen.add(key)
            _report(rec, key, "period %s written %r (spelling %s), format %r, channel %s, period as %s: observed %r, "
                    "documented representation %s (%d such rows in this column)" % (
                        (p,), values[i], label, fmt, channel, role, outs[i], " or ".join(map(repr, acc)), len(bad)),
                    {"channel": channel, "role": role, "fmt": fmt, "values": [values[i]], "expect": [acc]})
    for i, e in errs.items():
        p = periods[i]
        acc = sorted({render(templ, p, x) for x in widths})
        if unpadded_year(p, e[4], acc) or (p[1] < 1000 and re.search(r"'%d[-A-Z]" % p[1], e[4])):
            key, cls = "C21:render:year-below-1000:year-not-zero-padded", "year-not-zero-padded"
        else:
            cls = "%s-error" % e[1]
            key = "C21:run:%s:%s:%s:%s:%s-error:%s" % (channel, fmt, ind, ycls(p[1]), e[1], e[2])
        rec.case(ck(ycls(p[1]), cls), cls)
        if key not in seen:
            seen.add(key)
            _report(rec, key, "period %s written %r (spelling %s), format %r, channel %s, period as %s: expected %s, observed "
                    "%s %s(%s): %s" % ((p,), values[i], label, fmt, channel, role, " or ".join(map(repr, acc)), e[1], e[2], e[3], e[4][:200]),
                    {"channel": channel, "role": role, "fmt": fmt, "values": [values[i]], "expect": [acc]})
    return [outs.get(i) for i in range(n)]


def _work(item, rec):
    ind, fmt, role, tier, seed = item
    spell, examples, out, problems = load_docs()
    if problems:
        rec.tool_error("docs tables not understood: %s" % problems[:3])
        return
    templ = out[fmt][ind]
    periods = harness.seeded_order(_periods(ind, _years(tier)), seed)
    memo = {}
    if role == "scalar":
        years = sorted(set(EXTRA_YEARS) | {2020, 2021})
        periods = [q for y in years for q in (R.year_periods(ind, y)[0], R.year_periods(ind, y)[-1])]
        periods = harness.seeded_order(list(dict.fromkeys(periods)), seed)
        label, fn = spell[ind][0] if ind == "A" else [s for s in spell[ind] if re.match(r"YYYY-%s[a-z\[]" % ind, s[0])][0]
        _judge_column(rec, ind, fmt, "scalar", "scalar", label, periods, [fn(p) for p in periods], templ, memo)
        rec.count("engine_runs", memo.get("runs", 0))
        return
    channels = ("memory", "csv", "python") if role == "measure" else ("memory", "csv")
    first = {}
    for label, fn in spell[ind]:
        values = [fn(p) for p in periods]
        cur = {}
        for ch in channels:
            outs = _judge_column(rec, ind, fmt, role, ch, label, periods, values, templ, memo)
            if outs is None:
                continue
            cur[ch] = outs
            if ch == "python" and "csv" in cur:     # (5) measured directly as well: Python formatter vs SQL macro, string by string
                same = sum(1 for a, b in zip(cur["csv"], outs) if a is not None and a == b)
                rec.count("python_equals_sql_strings", same)
                rec.count("python_differs_from_sql_strings", len(outs) - same)
            # (1) every spelling of a period denotes the same period: same output as the first spelling
            if ch not in first:
                first[ch] = (label, values, outs)
            else:
                l0, v0, o0 = first[ch]
                diff = [i for i in range(len(periods)) if outs[i] is not None and o0[i] is not None and outs[i] != o0[i]]
                rec.case((ind, label, fmt, role, ch, "spellings-agree" if not diff else "spellings-disagree"),
                         "same-period-as-other-spelling" if not diff else "spellings-disagree", n=len(periods))
                if diff:
                    i = diff[0]
                    _report(rec, "C21:load:%s:%s:%s:denotes-different-period" % (ind, label, ycls(periods[i][1])),
                            "period %s: spelling %s %r renders %r but spelling %s %r renders %r (format %s, channel %s, %d rows)" % (
                                (periods[i],), l0, v0[i], o0[i], label, values[i], outs[i], fmt, ch, len(diff)),
                            {"channel": ch, "role": role, "fmt": fmt, "values": [v0[i], values[i]], "expect": "all-equal"})
    # (5) Python and SQL agree on every string: python channel vs csv (SQL macro only) is implied by both being compared
    #     with the same documented value above; the direct comparison is kept as a counter for the evidence
    # (4) feed the rendered values back as input
    if templ[0] != "unsupported" and "memory" in first:
        _, _, o0 = first["memory"]
        known = {}
        for lab, fn in spell[ind]:
            for p in periods:
                known.setdefault(fn(p), p)
        rows = [(i, o0[i]) for i in range(len(periods)) if isinstance(o0[i], str)]
        loadable = [(i, v) for i, v in rows if v in known]
        notdoc = [(i, v) for i, v in rows if v not in known]
        for i, v in notdoc[:1]:
            p = periods[i]
            widths = templ[3] if templ[0] == "ind" else (None,)
            acc = sorted({render(templ, p, x) for x in widths})
            if not unpadded_year(p, v, acc):
                _report(rec, "C21:roundtrip:%s:%s:%s:rendered-value-is-not-a-documented-input-form" % (fmt, ind, ycls(p[1])),
                        "period %s rendered as %r by format %s: not an instance of any documented input format of %s" % ((p,), v, fmt, ind),
                        {"channel": "memory", "role": role, "fmt": fmt, "values": [spell[ind][0][1](p)], "expect": [acc]})
        if notdoc:
            rec.case((ind, fmt, role, "roundtrip", "not-an-input-form"), "rendered-not-loadable", n=len(notdoc))
        wrongp = [(i, v) for i, v in loadable if known[v] != periods[i]]
        for i, v in wrongp[:1]:
            _report(rec, "C21:roundtrip:%s:%s:%s:rendered-value-denotes-another-period" % (fmt, ind, ycls(periods[i][1])),
                    "period %s rendered as %r which, read as documented input, is %s" % ((periods[i],), v, (known[v],)),
                    {"channel": "memory", "role": role, "fmt": fmt, "values": [spell[ind][0][1](periods[i])], "expect": [["<%s>" % (periods[i],)]]})
        if loadable:
            vals = [v for _, v in loadable]
            o2, e2, _ = collect("memory", role, fmt, [periods[i] for i, _ in loadable], vals, {})
            good = sum(1 for j in o2 if o2[j] == vals[j])
            rec.case((ind, fmt, role, "roundtrip", "fixed-point"), "roundtrip-same-period", n=good)
            badj = [j for j in o2 if o2[j] != vals[j]] + list(e2)
            if badj:
                j = badj[0]
                p = periods[loadable[j][0]]
                obs_txt = repr(o2[j]) if j in o2 else "%s %s: %s" % (e2[j][1], e2[j][2], e2[j][4][:160])
                rec.case((ind, fmt, role, "roundtrip", "changed"), "roundtrip-changed", n=len(badj))
                _report(rec, "C21:roundtrip:%s:%s:%s:%s:reloaded-value-differs" % (fmt, ind, ycls(p[1]), pcls(p)),
                        "period %s renders as %r in format %s; feeding %r back as input renders %s (%d rows)" % (
                            (p,), vals[j], fmt, vals[j], obs_txt, len(badj)),
                        {"channel": "memory", "role": role, "fmt": fmt, "values": [vals[j]], "expect": [[vals[j]]]})
    rec.count("engine_runs", memo.get("runs", 0))


def _examples_item(item, rec):
    """the literal examples of the input table: each is accepted and all examples of a row that denote the same period
    (period 1 of the year shown) load to the same value"""
    ind, tier, seed = item
    spell, examples, out, problems = load_docs()
    p = (ind, 2020, 1)
    inst = {fn(p): lab for lab, fn in spell[ind]}
    for ex in examples[ind]:
        o = observe("memory", "measure", "sdmx_reporting", [ex])
        ref = observe("memory", "measure", "sdmx_reporting", [spell[ind][0][1](p)])
        matches = ex in inst
        if o[0] == "ok" and ref[0] == "ok" and o[1] == ref[1]:
            rec.case((ind, "example", "accepted", matches), "documented-example-accepted")
            continue
        rec.case((ind, "example", "rejected" if o[0] == "err" else "other-period", matches), "documented-example-bad")
        got = repr(o[1][0]) if o[0] == "ok" else "%s %s(%s): %s" % (o[1], o[2], o[3], o[4][:200])
        cls = "example-matching-a-documented-format" if matches else "example-not-matching-any-documented-format"
        _report(rec, "C21:load:%s:%s:%s" % (ind, cls, "rejected" if o[0] == "err" else "denotes-different-period"),
                "docs/data_types.rst lists %r as an accepted %s input (formats column: %s); loading it gives %s, expected the "
                "same value as %r (%s)" % (ex, ind, ", ".join(sorted(set(l.split("/")[0] for l in inst.values()))), got,
                                           spell[ind][0][1](p), ref[1] if ref[0] == "ok" else ref[1:]),
                {"channel": "memory", "role": "measure", "fmt": "sdmx_reporting", "values": [ex],
                 "expect": [ref[1] if ref[0] == "ok" else ["<loadable>"]]})



def _independence_item(item, rec):
    """column independence: a Time_Period column must load and render exactly as it does alone, whatever its sibling
    Time_Period columns hold (nulls, other spellings) -- in memory and through an output folder"""
    fmt, channel, spellings = item
    V = harness.boot()
    import pandas as pd
    vals = [s for _, ss in sorted(spellings.items()) for s in ss]
    alone = observe(channel, "measure", fmt, vals)
    if alone[0] != "ok":
        rec.case(("independence", fmt, channel, "alone-fails"), "alone-fails", nontrivial=False)
        return
    sib_patterns = {"all-null": [None] * len(vals), "alternating-null": [None if i % 2 else "2020-Q1" for i in range(len(vals))],
                    "never-null": ["2020Q%d" % (i % 4 + 1) for i in range(len(vals))]}
    structs = harness.structures(harness.structure("DS_1", [harness.comp("Id_1", "Integer", "Identifier"), harness.comp("Me_1", "Time_Period", "Measure"),
                                                            harness.comp("Me_2", "Time_Period", "Measure")]))
    for pname, sib in sib_patterns.items():
        df = pd.DataFrame({"Id_1": list(range(len(vals))), "Me_1": pd.Series(vals, dtype="object"), "Me_2": pd.Series(sib, dtype="object")})
        kw = {"time_period_output_format": fmt}
        if channel == "csv":
            _N[0] += 1
            d = os.path.join(harness.scratch(), "c21i-%d-%d" % (os.getpid(), _N[0]))
            os.makedirs(d, exist_ok=True)
            kw["output_folder"] = d
        o = harness.call(V.run, "DS_r <- DS_1;", structs, {"DS_1": df}, **kw)
        got = {}
        if o[0] == "ok":
            if channel == "csv":
                with open(os.path.join(d, "DS_r.csv"), newline="", encoding="utf-8") as f:
                    for r in csv.DictReader(f):
                        got[int(r["Id_1"])] = r["Me_1"]
            else:
                data = o[1]["DS_r"].data
                for k, v in zip(data["Id_1"].tolist(), data["Me_1"].tolist()):
                    got[int(k)] = harness.canon_value(v)
        bad = [(vals[i], alone[1][i], got.get(i)) for i in range(len(vals))
               if o[0] != "ok" or (not isinstance(alone[1][i], tuple) and got.get(i) != alone[1][i])]
        rec.case(("independence", fmt, channel, pname, not bad), "same-as-alone" if not bad else "differs-from-alone",
                 sample={"format": fmt, "channel": channel, "sibling": pname, "values": vals[:6]})
        if bad:
            _report(rec, "C21:load:two-time-period-columns:sibling-%s:%s:differs-from-single-column" % (pname, "output-folder" if channel == "csv" else "memory"),
                    "DS_r <- DS_1 with a second Time_Period measure (%s), format %s, %s: %s" % (
                        pname, fmt, channel, "run fails: %s" % (o[1:4],) if o[0] != "ok" else "value %r renders %r, alone it renders %r" % (bad[0][0], bad[0][2], bad[0][1])),
                    {"independence": [fmt, channel], "spellings": spellings})


def _dispatch(item, rec):
    if item[0] == "examples":
        _examples_item(item[1:], rec)
    else:
        _work(item, rec)


class Check:
    ID = "C21"
    LEVEL = "exploration"
    RULE = ("every valid period (A S Q M W D x period number, ISO weeks / leap days from the reference calendar) of every "
            "year of the range (quick 1995-2030, thorough 1900-2100) plus years 1, 999, 1000, 1799, 1800, 9999, x every input "
            "spelling of the docs table (padding variants of [xx]x expanded) x the four output formats x period as "
            "identifier / as measure x channel (run() in memory, run() to CSV, the Python handlers called directly), one "
            "dataset per (indicator, spelling, format, role, channel); plus cast-literal scalars for the first/last period "
            "of 8 years; plus the literal examples of the docs table. A case = one (period, spelling, format, role, channel). "
            "distinct = (indicator, spelling, format, role, channel, year class, outcome class); non-trivial = all (every "
            "case parses and renders a non-null period).")
    ASSUMPTIONS = [
        "the expectation is rebuilt from docs/data_types.rst only: input formats from the 'Formats' column (YYYY = 4-digit "
        "zero-padded year, lower-case runs = period number padded to the run length, [xx]x = 1..3 digits), output "
        "templates generalised from the single example of each cell of the output table",
        "where the example of an output cell does not reveal the padding (2020W15, 2020D100, 2020-W15, 2020-D100) both the "
        "unpadded and the padded-to-that-width reading are accepted, but one reading must explain a whole column",
        "the year is always written with 4 digits (the docs write YYYY and the loaders accept nothing else), so a rendered "
        "year '1' for 0001 is a deviation",
        "Python-vs-SQL agreement is judged through the documented value: the CSV channel is the SQL macro alone, the python "
        "channel is the Python formatter alone, memory is SQL then Python",
        "scalars are built with cast(<hyphenated literal>, time_period); only their rendering is judged here (cast itself is C09)",
    ]

    def run(self, tier, seed, rec):
        harness.boot()
        assert R.selftest()
        spell, examples, out, problems = load_docs()
        if problems:
            rec.tool_error("docs tables not understood: %s" % problems)
            return {"exhaustive": False}
        items = [(ind, fmt, role, tier, seed) for ind in R.INDICATORS for fmt in FORMATS
                 for role in ("measure", "identifier", "scalar")]
        items += [("examples", ind, tier, seed) for ind in R.INDICATORS]
        # heavy (daily) items first so that the pool stays busy; the seed permutes inside the two groups only
        heavy = harness.seeded_order([i for i in items if i[0] == "D"], seed)
        light = harness.seeded_order([i for i in items if i[0] != "D"], seed)
        harness.pmap(_dispatch, heavy + light, rec)
        # one period per indicator in every documented spelling (from the docs table) next to a sibling Time_Period column
        base = {"A": (2020, 1), "S": (2020, 2), "Q": (2020, 3), "M": (2020, 1), "W": (2020, 7), "D": (2020, 61)}
        spellings = {}
        for ind, (y, n) in base.items():
            texts = []
            for label, fn in spell.get(ind, []):
                try:
                    texts.append(fn((ind, y, n)))
                except Exception:
                    pass
            spellings[ind] = [t for t in texts if isinstance(t, str)]
        if sum(len(v) for v in spellings.values()) >= 6:
            harness.pmap(_independence_item, [(f, ch, spellings) for f in FORMATS for ch in ("memory", "csv")], rec)
        else:
            rec.tool_error("could not instantiate the documented spellings for the column-independence space: %s" % spellings)
        # the example kept for a key must not depend on which worker finished first: dataset-in-memory examples first
        rec.violations.sort(key=lambda v: (v["key"], "channel memory" not in v["what"], "period as measure" not in v["what"], v["what"]))
        years = _years(tier)
        nper = {ind: len(_periods(ind, years)) for ind in R.INDICATORS}
        if not any(o.startswith("rendered-as-documented") for o in rec.outcomes) or not any(
                o.startswith("unsupported") for o in rec.outcomes):
            rec.tool_error("no rendered value / no unsupported cell was observed")
        return {"exhaustive": True, "years": "%d-%d + %s" % (
            1995 if tier == "quick" else 1900, 2030 if tier == "quick" else 2100, list(EXTRA_YEARS)),
            "periods_per_indicator": nper, "periods_total": sum(nper.values()),
            "spellings_per_indicator": {k: [l for l, _ in v] for k, v in spell.items()},
            "output_templates": {f: {i: list(map(str, t)) for i, t in out[f].items()} for f in FORMATS}}

    def replay(self, data):
        harness.boot()
        obs = observe(data["channel"], data["role"], data["fmt"], data["values"])
        return fails(obs, data["expect"])

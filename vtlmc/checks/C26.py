"""C26 — every VTL error raised carries a catalogued code and renders its message.

Exhaustive enumeration of *every* construction site of a coded VTL exception in src/vtlengine (found
with the ``ast`` module on the current working tree), each one executed: the real exception class is
instantiated against the real catalogue with the site's keyword names.  Sites whose code is not a
literal are resolved through the finite set of string constants that can reach the expression
(local assignments, conditional expressions, dict literals in the same function); what cannot be resolved
is listed as dynamic-only and is covered by the error monitor (MON-26) run over a table of failing
API calls executed here.
"""
import ast
import os
import string

from vtlmc import harness

CLASSES = ("SemanticError", "RunTimeError", "DataLoadError", "InputValidationException")


def placeholders(msg):
    out = set()
    for _, field, _, _ in string.Formatter().parse(msg):
        if field is not None and field != "":
            out.add(field.split(".")[0].split("[")[0])
        elif field == "":
            out.add("<positional>")
    return out


class _Resolver(ast.NodeVisitor):
    """string constants that can flow into a Name inside one function body"""

    def __init__(self, fn):
        self.env = {}
        for node in ast.walk(fn):
            if isinstance(node, ast.Assign) and len(node.targets) == 1 and isinstance(node.targets[0], ast.Name):
                self.env.setdefault(node.targets[0].id, []).append(node.value)
            elif isinstance(node, ast.AnnAssign) and isinstance(node.target, ast.Name) and node.value is not None:
                self.env.setdefault(node.target.id, []).append(node.value)

    def values(self, expr, depth=0):
        """-> (set of strings, complete?)"""
        if depth > 4:
            return set(), False
        if isinstance(expr, ast.Constant) and isinstance(expr.value, str):
            return {expr.value}, True
        if isinstance(expr, ast.IfExp):
            a, ca = self.values(expr.body, depth + 1)
            b, cb = self.values(expr.orelse, depth + 1)
            return a | b, ca and cb
        if isinstance(expr, ast.Name) and expr.id in self.env:
            out, comp = set(), True
            for v in self.env[expr.id]:
                s, c = self.values(v, depth + 1)
                out |= s
                comp = comp and c
            return out, comp
        if isinstance(expr, ast.Subscript) and isinstance(expr.value, ast.Dict):
            out, comp = set(), True
            for v in expr.value.values:
                s, c = self.values(v, depth + 1)
                out |= s
                comp = comp and c
            return out, comp
        return set(), False


def sites(src_root):
    res = []
    for dp, _, fns in os.walk(src_root):
        for fn in sorted(fns):
            if not fn.endswith(".py"):
                continue
            path = os.path.join(dp, fn)
            try:
                tree = ast.parse(open(path, encoding="utf-8").read())
            except SyntaxError:
                continue
            funcs = [n for n in ast.walk(tree) if isinstance(n, (ast.FunctionDef, ast.AsyncFunctionDef))]
            owner = {}
            for f in funcs:  # ast.walk is breadth-first: inner functions come later and win
                for n in ast.walk(f):
                    owner[id(n)] = f
            for n in ast.walk(tree):
                if not isinstance(n, ast.Call):
                    continue
                name = n.func.id if isinstance(n.func, ast.Name) else (n.func.attr if isinstance(n.func, ast.Attribute) else None)
                if name not in CLASSES:
                    continue
                code_expr = None
                kwnames, has_star = [], False
                for kw in n.keywords:
                    if kw.arg is None:
                        has_star = True
                    elif kw.arg == "code":
                        code_expr = kw.value
                    elif kw.arg != "comp_code":
                        kwnames.append(kw.arg)
                if name != "InputValidationException" and n.args:
                    code_expr = n.args[0]
                res.append({"file": os.path.relpath(path, src_root), "line": n.lineno, "cls": name,
                            "code_expr": code_expr, "kw": kwnames, "star": has_star,
                            "fn": owner.get(id(n)), "nargs": len(n.args)})
    return res


def mapper_functions(all_sites):
    """functions that turn a foreign error into a coded VTL error: they contain a raise site and their first parameter is
    the foreign error; the message classes they distinguish are the string constants they test with ``in``"""
    seen, out = set(), []
    for s in all_sites:
        f = s["fn"]
        if f is None or not f.args.args or f.args.args[0].arg not in ("error", "exc", "e", "err", "exception"):
            continue
        if (s["file"], f.name) in seen:
            continue
        seen.add((s["file"], f.name))
        kws = sorted({n.left.value for n in ast.walk(f) if isinstance(n, ast.Compare) and isinstance(n.left, ast.Constant)
                      and isinstance(n.left.value, str) and any(isinstance(op, ast.In) for op in n.ops)})
        out.append((s["file"], f.name, [a.arg for a in f.args.args], kws))
    return out


def drive_mapper(rec, file, fname, params, kws):
    """call the mapper with one message per keyword, per pair of keywords and with none, with / without a component
    name in the message; whatever it returns or raises must be a VTL exception (constructing it never fails)"""
    import importlib
    import itertools
    import duckdb
    from vtlengine.Exceptions import VTLEngineException
    from vtlengine.DataTypes import Date, Integer, Number
    from vtlengine.Model import Component, Role
    mod = importlib.import_module("vtlengine." + file[:-3].replace(os.sep, "."))
    fn = getattr(mod, fname, None)
    if fn is None:
        rec.note("mapper %s:%s is not a module-level function: not driven" % (file, fname))
        return
    comps = {"Id_1": Component(name="Id_1", data_type=Integer, role=Role.IDENTIFIER, nullable=False),
             "Me_d": Component(name="Me_d", data_type=Date, role=Role.MEASURE, nullable=True),
             "Me_1": Component(name="Me_1", data_type=Number, role=Role.MEASURE, nullable=True)}
    base = [()] + [(k,) for k in kws] + list(itertools.combinations(kws, 2))
    for combo in base:
        for tail in ("", ' "Id_1"', ' me_d "2014-02-31"', " {x} %s"):
            msg = ("Some Error: " + " ".join(combo) + tail).strip()
            args = []
            for p in params:
                if p == params[0]:
                    args.append(duckdb.Error(msg))
                elif "name" in p:
                    args.append("DS_1")
                elif "comp" in p:
                    args.append(comps)
                else:
                    args.append(None)
            rec.count("mapper_calls")
            try:
                r = fn(*args)
                bad = None if (r is None or isinstance(r, (VTLEngineException, duckdb.Error))) else "returns %r" % (r,)
            except VTLEngineException:
                bad = None
            except duckdb.Error:
                bad = None
            except Exception as e:  # noqa: BLE001
                bad = "%s: %s" % (type(e).__name__, e)
            cls = "+".join(combo) or "no-known-keyword"
            rec.case(("mapper", fname, cls, bad is None), "mapper-ok" if bad is None else "mapper-fails",
                     sample={"function": file + ":" + fname, "message": msg} if not tail and len(combo) < 2 else None)
            if bad:
                rec.violation("C26:mapper:%s:%s:%s:constructing-the-error-fails" % (file, fname, cls),
                              "%s(%r, ...) -> %s" % (fname, msg, bad), {"kind": "mapper", "file": file, "fn": fname, "message": msg})
                break


def _set_output(X, name):
    if hasattr(X, "set_dataset_output"):
        X.set_dataset_output(name)
    else:
        X.dataset_output = name


class Check:
    ID = "C26"
    LEVEL = "exploration"
    RULE = ("every ast.Call constructing SemanticError/RunTimeError/DataLoadError/InputValidationException under "
            "src/vtlengine is one case; it is executed by instantiating the real class with the site's code "
            "and keyword names. distinct = distinct (class, code, keyword set); non-trivial = the site has a "
            "code (uncoded InputValidationException(message) sites are trivial). Plus MON-26 over errors "
            "actually raised by a table of failing API calls.")
    ASSUMPTIONS = ["codes computed at run time that no string constant in the same function reaches are "
                   "covered only by the runtime monitor"]

    def run(self, tier, seed, rec):
        harness.boot()
        import vtlengine.Exceptions as X
        from vtlengine.Exceptions.messages import centralised_messages as CAT
        src = os.path.join(harness.REPO, "src", "vtlengine")
        all_sites = harness.seeded_order(sites(src), seed)
        dyn = 0
        for s in all_sites:
            cls = getattr(X, s["cls"])
            where = "%s:%d" % (s["file"], s["line"])
            if s["code_expr"] is None:
                rec.case(("uncoded", s["cls"]), "uncoded", nontrivial=False)
                continue
            codes, complete = ({s["code_expr"].value}, True) if isinstance(s["code_expr"], ast.Constant) and isinstance(
                s["code_expr"].value, str) else (_Resolver(s["fn"]).values(s["code_expr"]) if s["fn"] is not None else (set(), False))
            if not codes:
                dyn += 1
                rec.count("dynamic_only_sites")
                rec.note("dynamic-only site %s (%s)" % (where, ast.unparse(s["code_expr"])[:60]))
                rec.case(("dynamic", s["cls"], where), "dynamic", nontrivial=False)
                continue
            if not complete:
                rec.count("partially_resolved_sites")
            for code in sorted(codes):
                key = (s["cls"], code, tuple(sorted(s["kw"])))
                sample = {"site": where, "class": s["cls"], "code": code, "kwargs": s["kw"]}
                if code not in CAT:
                    rec.case(key, "uncatalogued", sample=sample)
                    rec.violation("C26:site:%s:%s:uncatalogued-code" % (s["file"], code),
                                  "%s raises %s(%r) but the code is not in centralised_messages" % (where, s["cls"], code),
                                  {"kind": "site", "file": s["file"], "line": s["line"], "cls": s["cls"], "code": code, "kw": s["kw"]})
                    continue
                need = placeholders(CAT[code]["message"])
                missing = sorted(need - set(s["kw"]))
                if s["star"]:
                    missing = []  # **kwargs forwarded: cannot be decided statically, executed by the monitor
                    rec.count("star_kwargs_sites")
                ok, err = True, None
                # the message is rendered with data the engine does not control: argument values and the name of the output
                # dataset of the running statement (appended to the message) may contain braces or percent signs
                for dsname in (None, "DS_r", "r{x}", "{op}_out", "r{"):
                    for val in ("x", "{x}", "{", "%s %d"):
                        try:
                            _set_output(X, dsname)
                            kwargs = {k: val for k in s["kw"]}
                            if s["star"]:
                                kwargs.update({k: val for k in need})
                            exc = cls(code=code, **kwargs) if s["cls"] == "InputValidationException" else cls(code, **kwargs)
                            rec.count("instantiations")
                            if dsname and s["cls"] != "InputValidationException" and dsname not in str(exc.args[0]):
                                ok, err = False, "output dataset name %r is not rendered verbatim in %r" % (dsname, str(exc.args[0])[:120])
                        except Exception as e:  # noqa: BLE001
                            ok, err = False, "%s: %s (output dataset %r, argument value %r)" % (type(e).__name__, e, dsname, val)
                        finally:
                            _set_output(X, None)
                        if not ok:
                            break
                    if not ok:
                        break
                if ok and not missing:
                    rec.case(key, "renders", sample=sample)
                elif not missing:
                    rec.case(key, "fails-to-render", sample=sample)
                    rec.violation("C26:class:%s:message-rendering-depends-on-data" % s["cls"],
                                  "%s: constructing %s(%r) fails or garbles the message for some data: %s" % (where, s["cls"], code, err),
                                  {"kind": "site", "file": s["file"], "line": s["line"], "cls": s["cls"], "code": code, "kw": s["kw"], "data": True})
                else:
                    rec.case(key, "fails-to-render", sample=sample)
                    rec.violation("C26:site:%s:%s:missing-placeholder:%s" % (s["file"], code, ",".join(missing) or "?"),
                                  "%s raises %s(%r) with keywords %s; message needs %s -> constructing it fails (%s)" % (
                                      where, s["cls"], code, s["kw"], sorted(need), err),
                                  {"kind": "site", "file": s["file"], "line": s["line"], "cls": s["cls"], "code": code, "kw": s["kw"]})
        # error mappers: driven through every message class they distinguish (decides **kwargs sites dynamically)
        raw_sites = sites(src)
        for file, fname, params, kws in mapper_functions(raw_sites):
            drive_mapper(rec, file, fname, params, kws)
        # catalogue self-consistency: every message formats with its own placeholders
        for code, entry in CAT.items():
            try:
                entry["message"].format(**{p: "x" for p in placeholders(entry["message"]) if p != "<positional>"})
                rec.case(("catalogue", code), "catalogue-ok", nontrivial=False)
            except Exception as e:  # noqa: BLE001
                rec.case(("catalogue", code), "catalogue-bad")
                rec.violation("C26:catalogue:%s:unformattable" % code, "message of %s cannot be formatted: %s" % (code, e),
                              {"kind": "catalogue", "code": code})
        # MON-26 on errors actually raised
        from vtlmc.monitors import failing_calls, mon26
        for label, thunk in failing_calls(tier):
            out = harness.call(thunk)
            if out[0] == "err":
                bad = mon26(out)
                rec.case(("raised", out[2], out[3]), "raised-" + out[1], sample=None)
                if bad:
                    rec.violation("C26:raised:%s:%s" % (label, bad), "call %s raised %s" % (label, out[1:]), {"kind": "raised", "label": label})
            else:
                rec.case(("raised", label, "ok"), "no-error", nontrivial=False)
        return {"exhaustive": dyn == 0, "sites": len(all_sites), "catalogue_entries": len(CAT)}

    def replay(self, data):
        harness.boot()
        import vtlengine.Exceptions as X
        from vtlengine.Exceptions.messages import centralised_messages as CAT
        if data["kind"] == "mapper":
            r2 = harness.Recorder()
            src = os.path.join(harness.REPO, "src", "vtlengine")
            for file, fname, params, kws in mapper_functions(sites(src)):
                if file == data["file"] and fname == data["fn"]:
                    drive_mapper(r2, file, fname, params, kws)
            return bool(r2.violations)
        if data["kind"] == "site":
            cls = getattr(X, data["cls"])
            try:
                for dsname in ((None,) if not data.get("data") else (None, "DS_r", "r{x}", "{op}_out", "r{")):
                    for val in (("x",) if not data.get("data") else ("x", "{x}", "{", "%s %d")):
                        _set_output(X, dsname)
                        kwargs = {k: val for k in data["kw"]}
                        exc = cls(code=data["code"], **kwargs) if data["cls"] == "InputValidationException" else cls(data["code"], **kwargs)
                        if dsname and data["cls"] != "InputValidationException" and dsname not in str(exc.args[0]):
                            return True
                return data["code"] not in CAT
            except Exception:
                return True
            finally:
                _set_output(X, None)
        return False

"""C28 — viral attributes propagate according to the declared rule.

Explorer E1 (program x input enumeration, packed) + oracle O4 (vtlmc/ref_c28.py, a plain-Python model written from
the property statement; calibrated on tests/ViralAttributes before use).

Programs: every rule of a bounded rule space (enumerated rules of <= 2 clauses built from one-value / two-value
conditions over {A, B, C, null} with results in {A, M, null}, default absent / present, plus a few special shapes;
the aggregate rules min / max / sum / avg) x a fixed battery of operator contexts (dataset-dataset binary, nested
binary, nvl, if / case, unary, dataset-scalar, joins of 2-3 operands incl. outer joins with unmatched datapoints,
cross join, aggregation standalone / aggr clause / no grouping, analytic partitions, hierarchy, clauses, plain
assignment, set operators, unpivot, check, check_datapoint, check_hierarchy).  One engine run executes one rule on
one data layout with ALL statements of the layout (statement-level packing); the data layouts pack every pair /
triple of viral values from {null, A, B, C} (+ "no datapoint" for joins / set operators) through the extra
identifier C_id, and every physical row permutation of every group of <= 3 rows.

Oracles: (1) every viral value of every result datapoint must be in the model's acceptable set; (2) the value of
a group / partition / hierarchy node must not depend on the physical order of the input rows (a packed
disagreement is confirmed by running the single group alone in the two orders); (3) each statement without a rule
for its viral attribute must be rejected by semantic_analysis (and run) with SemanticError 1-3-3-6.
"""
import ast
import itertools
import json
import os
import random
import re

from vtlmc import harness, refbase
from vtlmc import ref_c28 as M
from vtlmc.refbase import DS, ID, ME, AT, VAT

ABSENT = M.ABSENT
Rule = M.Rule
DOM_S = [None, "A", "B", "C"]
DOM_N = [None, 1.0, 2.0, 4.0]
TESTS = os.path.join(harness.REPO, "tests", "ViralAttributes")

DPR = ('define datapoint ruleset DPR (variable Me_1) is r1: Me_1 > 3 errorcode "e1"; r2: Me_1 < 100 errorcode "e2" '
       'end datapoint ruleset;\n')
HR1 = "define hierarchical ruleset HR1 (valuedomain rule Id_2) is T = X1 + X2 + X3 end hierarchical ruleset;\n"
HR2 = "define hierarchical ruleset HR2 (valuedomain rule Id_2) is N = X1 + X2; T = N + X3 end hierarchical ruleset;\n"
HRK = "define hierarchical ruleset HRK (valuedomain rule Id_2) is h1: T = X1 + X2 end hierarchical ruleset;\n"


# ---------------------------------------------------------------------------------------------------------
# rule space
# ---------------------------------------------------------------------------------------------------------

def rule_configs(tier):
    """-> list of configs {"id", "rules": [rule spec], "vtypes": {viral variable: type}}"""
    cfgs = []

    def enum(clauses, default=None, has_default=False, labels=False, tag="E"):
        r = Rule("VAt_1", clauses, default, has_default, labels=labels)
        cfgs.append({"id": "%s:%s" % (tag, r.vtl()[r.vtl().index(" is ") + 4: r.vtl().index(" end viral")]),
                     "rules": [r.spec()], "vtypes": {"VAt_1": "String"}})

    if tier == "quick":
        conds = [("A",), (None,), ("A", "B"), (None, "A")]
        r1s, r2s = ["M"], ["A"]
    else:
        conds = [("A",), ("B",), (None,), ("A", "B"), ("B", "C"), (None, "A")]
        r1s, r2s = ["A", "M", None], ["A", "M"]
    defaults = [(None, False), ("Z", True)]
    for c in conds:
        for r in r1s:
            for d, hd in defaults:
                enum([(c, r)], d, hd)
    for c1, c2 in itertools.permutations(conds, 2):
        for r1 in r1s:
            for r2 in r2s:
                for d, hd in defaults:
                    enum([(c1, r1), (c2, r2)], d, hd)
    # special shapes (both tiers)
    enum([(("A",), None)], "Z", True, tag="S")                                  # null-valued result
    enum([(("A",), "M")], None, True, tag="S")                                  # else null
    enum([(("A", "B"), "M")], "A", True, tag="S")                               # default inside the alphabet
    enum([(("B", "A"), "M"), (("A",), "A")], "Z", True, labels=True, tag="S")   # labelled clauses, reversed pair
    enum([(("A",), "B"), (("B",), "A")], None, False, tag="S")                  # swap
    enum([(("A", "B"), "M"), (("A",), "A"), (("B",), "B")], "Z", True, tag="S")  # three clauses
    enum([(("A", "B"), "C"), (("B", "C"), "A")], "B", True, tag="S")            # strongly non-associative
    for fn, vt in (("min", "String"), ("max", "String"), ("min", "Number"), ("max", "Number"), ("sum", "Number"), ("avg", "Number")):
        cfgs.append({"id": "G:%s/%s" % (fn, vt), "rules": [Rule("VAt_1", fn=fn).spec()], "vtypes": {"VAt_1": vt}})
    # two viral attributes with independent rules
    two = [([(("A", "B"), "M"), (("A",), "A")], "Z", "max"), ([(("A",), "M")], None, "sum")]
    for clauses, d, fn in two:
        cfgs.append({"id": "2:%s+%s" % (len(clauses), fn),
                     "rules": [Rule("VAt_1", clauses, d, d is not None).spec(), Rule("VAt_2", fn=fn).spec()],
                     "vtypes": {"VAt_1": "String", "VAt_2": "Number"}})
    return cfgs


def rules_of(cfg):
    return {s["var"]: Rule.from_spec(s) for s in cfg["rules"]}


def dom_of(cfg, var="VAt_1"):
    return DOM_S if cfg["vtypes"][var] == "String" else DOM_N


# ---------------------------------------------------------------------------------------------------------
# data layouts (datasets) and statement batteries
# ---------------------------------------------------------------------------------------------------------

def _order(rows, seed, salt):
    rows = list(rows)
    if not seed:
        return rows[::-1] if salt % 2 else rows
    random.Random(seed * 131 + salt).shuffle(rows)
    return rows


def _second(cfg, cid, k):
    return DOM_N[(cid * 3 + k) % 4]


def _comps(cfg, ids, measures):
    return [(n, t, ID) for n, t in ids] + [(n, t, ME) for n, t in measures] + [(v, t, VAT) for v, t in sorted(cfg["vtypes"].items())]


def _vrow(cfg, v1, cid, k):
    r = {"VAt_1": v1}
    if "VAt_2" in cfg["vtypes"]:
        r["VAt_2"] = _second(cfg, cid, k)
    return r


def layout_pairs(cfg, tier, seed):
    """L1: one datapoint per C_id and operand; C_id enumerates every (v1, v2, v3) in (domain + no-datapoint)^3"""
    dom = dom_of(cfg)
    cases = [c for c in itertools.product(dom + [ABSENT], repeat=3) if any(v is not ABSENT for v in c)]
    dss = []

    def mk(name, k, me="Me_1", mtype="Number", mval=float, salt=0):
        rows = []
        for i, c in enumerate(cases):
            if c[k] is ABSENT:
                continue
            r = {"C_id": i + 1, me: mval(i + 1)}
            r.update(_vrow(cfg, c[k], i + 1, k))
            rows.append(r)
        dss.append(DS(name, _comps(cfg, [("C_id", "Integer")], [(me, mtype)]), _order(rows, seed, salt)))

    mk("DS_1", 0, salt=0)
    mk("DS_2", 1, salt=1)
    mk("DS_3", 2, salt=2)
    mk("J_2", 1, me="Me_2", salt=3)
    mk("J_3", 2, me="Me_3", salt=4)
    dss.append(DS("DS_c", [("C_id", "Integer", ID), ("Me_b", "Boolean", ME)],
                  _order([{"C_id": i + 1, "Me_b": [True, False, None][i % 3]} for i in range(len(cases))], seed, 5)))
    # cross join operands: different identifiers, every value once
    for name, idn, me, k in (("X_1", "C_a", "Me_1", 0), ("X_2", "C_b", "Me_2", 1)):
        rows = []
        for i, v in enumerate(dom):
            r = {idn: i + 1, me: float(i + 1)}
            r.update(_vrow(cfg, v, i + 1, k))
            rows.append(r)
        dss.append(DS(name, _comps(cfg, [(idn, "Integer")], [(me, "Number")]), _order(rows, seed, 6 + k)))
    if tier == "thorough":
        mk("B_1", 0, mtype="Boolean", mval=lambda c: c % 2 == 0, salt=8)
        mk("B_2", 1, mtype="Boolean", mval=lambda c: c % 3 == 0, salt=9)
        mk("S_1", 0, mtype="String", mval=lambda c: "s%d" % c, salt=10)
        mk("S_2", 1, mtype="String", mval=lambda c: "t%d" % c, salt=11)
    S = []

    def add(text, ctx, ops, op, t="q", **kw):
        if t == "q" or tier == "thorough":
            S.append(dict(text=text, ctx=ctx, ops=ops, op=op, **kw))

    P12 = ["DS_1", "DS_2"]
    add("DS_1 + DS_2", "pair", P12, "binary")
    add("DS_2 - DS_1", "pair", ["DS_2", "DS_1"], "binary")
    add("DS_1 = DS_2", "pair", P12, "binary")
    add("DS_1 * DS_2", "pair", P12, "binary", "t")
    add("DS_1 / DS_2", "pair", P12, "binary", "t")
    add("DS_1 <> DS_2", "pair", P12, "binary", "t")
    add("DS_1 > DS_2", "pair", P12, "binary", "t")
    add("DS_1 <= DS_2", "pair", P12, "binary", "t")
    add("mod(DS_1, DS_2)", "pair", P12, "binary", "t")
    add("B_1 and B_2", "pair", ["B_1", "B_2"], "binary", "t")
    add("B_1 or B_2", "pair", ["B_1", "B_2"], "binary", "t")
    add("B_1 xor B_2", "pair", ["B_1", "B_2"], "binary", "t")
    add("S_1 || S_2", "pair", ["S_1", "S_2"], "binary", "t")
    add("DS_1 + DS_2 + DS_3", "pair", [["DS_1", "DS_2"], "DS_3"], "nested-binary")
    add("DS_1 * (DS_2 - DS_3)", "pair", ["DS_1", ["DS_2", "DS_3"]], "nested-binary")
    add("nvl(DS_1, DS_2)", "pair", P12, "nvl")
    add("nvl(DS_1 + DS_2, DS_3)", "pair", [["DS_1", "DS_2"], "DS_3"], "nested-binary", "t")
    add("abs(DS_1 + DS_2)", "row", [["DS_1", "DS_2"]], "nested-unary")
    add("(DS_1 - DS_2) * 2", "row", [["DS_1", "DS_2"]], "nested-unary", "t")
    # (a plain dataset name as condition -- if DS_c then ... -- makes the engine emit invalid SQL: outside C28, see C32)
    add("if DS_c#Me_b then DS_1 else DS_2", "if", ["DS_c", "DS_1", "DS_2"], "if")
    add("case when DS_c#Me_b then DS_1 else DS_2", "if", ["DS_c", "DS_1", "DS_2"], "if", "t")
    # row-preserving
    add("abs(DS_1)", "row", ["DS_1"], "unary")
    add("isnull(DS_1)", "row", ["DS_1"], "unary")
    add("- DS_1", "row", ["DS_1"], "unary", "t")
    add("ceil(DS_1)", "row", ["DS_1"], "unary", "t")
    add("floor(DS_1)", "row", ["DS_1"], "unary", "t")
    add("sqrt(DS_1)", "row", ["DS_1"], "unary", "t")
    add("ln(DS_1)", "row", ["DS_1"], "unary", "t")
    add("not B_1", "row", ["B_1"], "unary", "t")
    add("upper(S_1)", "row", ["S_1"], "unary", "t")
    add("length(S_1)", "row", ["S_1"], "unary", "t")
    add("DS_1 + 1", "row", ["DS_1"], "ds-scalar")
    add("2 * DS_1", "row", ["DS_1"], "ds-scalar")
    add("DS_1 > 3", "row", ["DS_1"], "ds-scalar")
    add("round(DS_1, 1)", "row", ["DS_1"], "ds-scalar")
    add("nvl(DS_1, 0)", "row", ["DS_1"], "ds-scalar")
    add("DS_1 in {1, 2}", "row", ["DS_1"], "ds-scalar", "t")
    add("between(DS_1, 2, 5)", "row", ["DS_1"], "ds-scalar", "t")
    add("DS_1 = 1", "row", ["DS_1"], "ds-scalar", "t")
    add("substr(S_1, 1, 1)", "row", ["S_1"], "ds-scalar", "t")
    add('S_1 || "x"', "row", ["S_1"], "ds-scalar", "t")
    add("DS_1[unpivot Id_m, Me_v]", "unpivot", ["DS_1"], "unpivot", measures=["Me_1"], new_id="Id_m")
    add("DS_1[calc Me_2 := Me_1 + 1][unpivot Id_m, Me_v]", "unpivot", ["DS_1"], "unpivot", measures=["Me_1", "Me_2"], new_id="Id_m")
    add("check_datapoint(DS_1, DPR all)", "check_dp", ["DS_1"], "check_datapoint", rule_ids=["r1", "r2"], output="all")
    add("check_datapoint(DS_1, DPR)", "check_dp", ["DS_1"], "check_datapoint", "t", rule_ids=["r1", "r2"], output="invalid")
    add("check_datapoint(DS_1, DPR all_measures)", "check_dp", ["DS_1"], "check_datapoint", "t", rule_ids=["r1", "r2"],
        output="all_measures")
    add("check(DS_1 >= DS_2)", "check", P12, "check")
    add("check(DS_1 > DS_2 invalid)", "check", P12, "check", "t", invalid=True)
    # unchanged
    add("DS_1", "same", ["DS_1"], "assignment")
    add("DS_1[filter Me_1 > 3]", "same", ["DS_1"], "clause", filter=["Me_1", ">", 3])
    add("DS_1[calc Me_9 := Me_1 * 2]", "same", ["DS_1"], "clause")
    add("DS_1[keep Me_1]", "same", ["DS_1"], "clause")
    add("DS_1[rename Me_1 to Me_7]", "same", ["DS_1"], "clause")
    add("DS_1[calc Me_9 := Me_1][drop Me_9]", "same", ["DS_1"], "clause", "t")
    add('DS_1[calc attribute At_9 := "x"]', "same", ["DS_1"], "clause", "t")
    add("DS_1[filter Me_1 > 3][calc Me_9 := Me_1 + 1]", "same", ["DS_1"], "clause", "t", filter=["Me_1", ">", 3])
    add("DS_1[calc Me_9 := sum(Me_1 over (partition by C_id))]", "same", ["DS_1"], "clause", "t")
    add("union(DS_1, DS_2)", "union", P12, "set-operator")
    add("union(DS_2, DS_1, DS_3)", "union", ["DS_2", "DS_1", "DS_3"], "set-operator")
    add("intersect(DS_1, DS_2)", "intersect", P12, "set-operator")
    add("setdiff(DS_1, DS_2)", "setdiff", P12, "set-operator")
    add("symdiff(DS_1, DS_2)", "symdiff", P12, "set-operator")
    # joins
    J12, J123 = ["DS_1", "J_2"], ["DS_1", "J_2", "J_3"]
    add("inner_join(DS_1, J_2)", "join", J12, "join-2", kind="inner")
    add("left_join(DS_1, J_2)", "join", J12, "join-2", kind="left")
    add("full_join(DS_1, J_2)", "join", J12, "join-2", kind="full")
    add("inner_join(DS_1, J_2, J_3)", "join", J123, "join-3", kind="inner")
    add("left_join(DS_1, J_2, J_3)", "join", J123, "join-3", kind="left")
    add("full_join(DS_1, J_2, J_3)", "join", J123, "join-3", kind="full")
    add("inner_join(J_3, DS_1, J_2)", "join", ["J_3", "DS_1", "J_2"], "join-3", kind="inner")
    add("cross_join(X_1, X_2)", "join", ["X_1", "X_2"], "join-2", kind="cross")
    add("inner_join(DS_1 as a, J_2 as b filter Me_1 > 3)", "join", J12, "join-2", "t", kind="inner", filter=["Me_1", ">", 3])
    add("inner_join(DS_1, J_2 calc Me_9 := Me_1 + Me_2)", "join", J12, "join-2", "t", kind="inner")
    add("inner_join(DS_1, J_2 keep Me_1)", "join", J12, "join-2", "t", kind="inner")
    add("inner_join(DS_1, J_2 using C_id)", "join", J12, "join-2", "t", kind="inner")
    add("left_join(J_2, DS_1)", "join", ["J_2", "DS_1"], "join-2", "t", kind="left")
    return dss, S, DPR, {}


def _groups(dom, sizes=(1, 2, 3)):
    """every tuple of values (one per Id_2 = 1..n) x every physical permutation of its rows"""
    out = []
    for n in sizes:
        for vals in itertools.product(dom, repeat=n):
            for perm in itertools.permutations(range(n)):
                out.append((vals, perm))
    return out


def layout_groups(cfg, tier, seed):
    """L2: DS_G(C_id, Id_2): one group per C_id"""
    dom = dom_of(cfg)
    groups = _groups(dom)
    blocks, meta = [], {}
    gidx = {}
    for g, (vals, perm) in enumerate(groups):
        cid = g + 1
        meta[cid] = (vals, perm)
        block = []
        for j in perm:
            r = {"C_id": cid, "Id_2": j + 1, "Me_1": float(j + 1)}
            r.update(_vrow(cfg, vals[j], gidx.setdefault(vals, len(gidx)), j))    # same values in every permutation of a group
            block.append(r)
        blocks.append(block)
    blocks = _order(blocks, seed, 20)          # the seed moves whole groups, never the order inside a group
    rows = [r for b in blocks for r in b]
    dss = [DS("DS_G", _comps(cfg, [("C_id", "Integer"), ("Id_2", "Integer")], [("Me_1", "Number")]), rows)]
    S = []

    def add(text, ctx, op, t="q", by=("C_id",)):
        if t == "q" or tier == "thorough":
            S.append(dict(text=text, ctx=ctx, ops=["DS_G"], op=op, by=list(by)))

    add("sum(DS_G group by C_id)", "group", "aggregation")
    add("count(DS_G group by C_id)", "group", "aggregation")
    add("max(DS_G group except Id_2)", "group", "aggregation")
    add("min(DS_G group by C_id)", "group", "aggregation", "t")
    add("avg(DS_G group by C_id)", "group", "aggregation", "t")
    add("median(DS_G group by C_id)", "group", "aggregation", "t")
    add("DS_G[aggr Me_2 := sum(Me_1) group by C_id]", "group", "aggr-clause")
    add("DS_G[aggr Me_2 := max(Me_1), Me_3 := count() group by C_id having count() > 0]", "group", "aggr-clause", "t")
    add("DS_G[aggr Me_2 := avg(Me_1) group except Id_2]", "group", "aggr-clause", "t")
    add("sum(DS_G over (partition by C_id))", "analytic", "analytic")
    add("max(DS_G over (partition by C_id))", "analytic", "analytic", "t")
    add("count(DS_G over (partition by C_id))", "analytic", "analytic", "t")
    add("sum(DS_G over (partition by C_id order by Id_2 data points between unbounded preceding and unbounded following))",
        "analytic", "analytic", "t")
    return dss, S, "", {"cid": meta, "gid": "C_id"}


def layout_whole(cfg, tier, seed):
    """L3: many small datasets W_k (1-3 rows, every tuple of values): aggregation without grouping; for aggregate rules
    the whole-operand contexts (row-preserving operators, unpivot over two measures, check_datapoint with two rules)"""
    dom = dom_of(cfg)
    agg = bool(rules_of(cfg)["VAt_1"].fn)
    tuples = [t for n in (1, 2, 3) for t in itertools.product(dom, repeat=n)]
    dss, S = [], []
    for k, vals in enumerate(tuples):
        rows = []
        for j, v in enumerate(vals):
            r = {"Id_2": j + 1, "Me_1": float(j + 1), "Me_2": float(j + 5)}
            r.update(_vrow(cfg, v, k, j))
            rows.append(r)
        name = "W_%d" % k
        dss.append(DS(name, _comps(cfg, [("Id_2", "Integer")], [("Me_1", "Number"), ("Me_2", "Number")]), rows))   # physical order = tuple order
        S.append(dict(text="sum(%s)" % name, ctx="group", ops=[name], op="aggregation-no-group", by=[]))
        if agg:
            S.append(dict(text="abs(%s)" % name, ctx="row", ops=[name], op="unary"))
            S.append(dict(text="%s + 1" % name, ctx="row", ops=[name], op="ds-scalar"))
            S.append(dict(text="%s[unpivot Id_m, Me_v]" % name, ctx="unpivot", ops=[name], op="unpivot", measures=["Me_1", "Me_2"], new_id="Id_m"))
            S.append(dict(text="check_datapoint(%s, DPR all)" % name, ctx="check_dp", ops=[name], op="check_datapoint",
                          rule_ids=["r1", "r2"], output="all"))
    return dss, S, DPR, {}


def layout_hier(cfg, tier, seed):
    """L4: DS_H(C_id, Id_2 in X1 X2 X3): hierarchy nodes over 2-3 children, every row permutation; DS_K for check_hierarchy"""
    dom = dom_of(cfg)
    codes = ["X1", "X2", "X3"]
    blocks, meta, cid = [], {}, 0
    for gi, vals in enumerate(itertools.product(dom + [ABSENT], repeat=3)):
        present = [j for j in range(3) if vals[j] is not ABSENT]
        if len(present) < 2:
            continue
        for perm in itertools.permutations(present):
            cid += 1
            meta[cid] = (vals, perm)
            block = []
            for j in perm:
                r = {"C_id": cid, "Id_2": codes[j], "Me_1": float(j + 1)}
                r.update(_vrow(cfg, vals[j], gi, j))
                block.append(r)
            blocks.append(block)
    rows = [r for b in _order(blocks, seed, 30) for r in b]
    comps = _comps(cfg, [("C_id", "Integer"), ("Id_2", "String")], [("Me_1", "Number")])
    dss = [DS("DS_H", comps, rows)]
    krows = []
    for i, vals in enumerate(itertools.product(dom, repeat=3)):
        for j, (code, me) in enumerate((("T", 3.0), ("X1", 1.0), ("X2", 2.0))):
            r = {"C_id": i + 1, "Id_2": code, "Me_1": me}
            r.update(_vrow(cfg, vals[j], i + 1, j))
            krows.append(r)
    dss.append(DS("DS_K", comps, _order(krows, seed, 31)))
    r1 = [["T", ["X1", "X2", "X3"]]]
    r2 = [["N", ["X1", "X2"]], ["T", ["N", "X3"]]]
    S = [dict(text="hierarchy(DS_H, HR1 rule Id_2 non_null)", ctx="hier", ops=["DS_H"], op="hierarchy", comp="Id_2", rules=r1),
         dict(text="hierarchy(DS_H, HR2 rule Id_2 non_null)", ctx="hier", ops=["DS_H"], op="hierarchy", comp="Id_2", rules=r2),
         dict(text="check_hierarchy(DS_K, HRK rule Id_2 all)", ctx="check_hier", ops=["DS_K"], op="check_hierarchy", comp="Id_2",
              rules=[["T", ["X1", "X2"]]], rule_ids=["h1"])]
    if tier == "thorough":
        S.append(dict(text="hierarchy(DS_H, HR1 rule Id_2 always_zero all)", ctx="hier", ops=["DS_H"], op="hierarchy", comp="Id_2",
                      rules=r1, output="all"))
        S.append(dict(text="hierarchy(DS_H, HR2 rule Id_2 partial_null)", ctx="hier", ops=["DS_H"], op="hierarchy", comp="Id_2", rules=r2))
    return dss, S, HR1 + HR2 + HRK, {"cid": meta, "gid": "C_id"}


LAYOUTS = {"pairs": layout_pairs, "groups": layout_groups, "whole": layout_whole, "hier": layout_hier}


# ---------------------------------------------------------------------------------------------------------
# executing a script and judging one statement's result
# ---------------------------------------------------------------------------------------------------------

def canon(v):
    return harness.canon_value(v)


def member(x, acc):
    return any(refbase.val_eq(canon(x), canon(a)) for a in acc)


def flat_ops(ops):
    out = []
    for o in ops:
        out += flat_ops(o) if isinstance(o, list) else [o]
    return out


def rules_text(cfg):
    return "".join(Rule.from_spec(s).vtl() + "\n" for s in cfg["rules"])


def judge(stmt, result, rules, data):
    """-> (problems, stats).  problem = dict(kind, key, var, got, acc, inputs); stats = {(op, eqclass, outcome): n}"""
    exp = M.expect(stmt, rules, data)
    problems, stats, values = [], {}, {}
    if result is None or getattr(result, "data", None) is None:
        return [dict(kind="no-data", key=None, var=None, got=None, acc=None, inputs=[])], stats, values, exp
    rows = refbase.result_rows(result) or []
    cols = list(result.data.columns)
    got, dups = {}, set()
    for r in rows:
        k = tuple(canon(r.get(i)) for i in exp.ids)
        if k in got:
            dups.add(k)
        got[k] = r
    expk = {tuple(canon(x) for x in k): v for k, v in exp.rows.items()}
    for k in sorted(dups, key=repr):
        any_acc = next(iter(expk.get(k, {}).values()), None)
        problems.append(dict(kind="duplicate-datapoint", key=k, var=None, got=None, acc=None,
                             inputs=any_acc.inputs if any_acc is not None else []))
        del got[k]                              # the value comparison would only restate the duplicate
    if exp.exact:
        for k in expk:
            if k not in got and k not in dups:
                any_acc = next(iter(expk[k].values()), None)
                problems.append(dict(kind="missing-datapoint", key=k, var=None, got=None, acc=None,
                                     inputs=any_acc.inputs if any_acc is not None else []))
    for k in got:
        if k not in expk:
            problems.append(dict(kind="extra-datapoint", key=k, var=None, got=None, acc=None, inputs=[]))
    for k, r in got.items():
        if k not in expk:
            continue
        for var, acc in expk[k].items():
            rule = rules.get(var)
            cls = M.eq_class(rule, acc.inputs)
            if var not in cols:
                problems.append(dict(kind="missing-viral-column", key=k, var=var, got=None, acc=acc, inputs=acc.inputs))
                outcome = "missing-viral-column"
            elif not member(r.get(var), acc):
                problems.append(dict(kind="wrong-value", key=k, var=var, got=r.get(var), acc=acc, inputs=acc.inputs))
                outcome = "wrong-value"
            else:
                outcome = "ok"
                values[(k, var)] = canon(r.get(var))
            sk = (rule.shape() if rule else "-", stmt["op"], cls, outcome)
            stats[sk] = stats.get(sk, 0) + 1
    return problems, stats, values, exp


FINDING_OP = {"aggr-clause": "aggregation", "aggregation-no-group": "aggregation"}    # one SQL helper behind the three


def finding_class(rule, kind, inputs, ctx=None):
    """coarse class of the failing input for the finding key (one root cause = one key)"""
    present = [v for v in inputs if v is not ABSENT]
    if len(present) != len(inputs):
        return "unmatched-operand"
    if kind in ("missing-viral-column", "extra-datapoint", "no-data") or not inputs:
        return "any"
    if rule is not None and rule.fn and ctx in ("row", "unpivot", "check_dp", "check", "check_hier"):
        return "whole-operand"
    s = "%d-value%s" % (len(present), "" if len(present) == 1 else "s")
    if rule is not None and rule.fn in ("sum", "avg") and any(v is None for v in present) and ctx in ("join", "group", "analytic", "hier"):
        s += ":with-null"
    return s


def finding_key(rule, stmt, prob):
    kind = prob["kind"]
    rk = rule.kind_key() if rule is not None and kind in ("wrong-value",) else "any-rule"
    cls = finding_class(rule, kind, prob["inputs"], stmt["ctx"])
    if cls == "whole-operand" and rk != "any-rule":
        rk = "aggregate"              # which aggregate functions expose a whole-operand defect depends on the data, not on the defect
    key = "C28:%s:%s:%s:%s" % (rk, FINDING_OP.get(stmt["op"], stmt["op"]), cls, kind)
    if kind == "wrong-value" and rule is not None and rule.fn == "avg" and stmt["ctx"] == "join":
        # which wrong value: the pairwise fold of the operands from the left (the engine's vp_reduce_refs), from the
        # right, or something else -- part of the finding's identity, so that another wrong value is another finding
        vs = [v for v in prob["inputs"] if v is not ABSENT and v is not None]
        if len(vs) >= 3 and isinstance(prob.get("got"), (int, float)):
            left = vs[0]
            for v in vs[1:]:
                left = (left + v) / 2.0
            right = vs[-1]
            for v in reversed(vs[:-1]):
                right = (v + right) / 2.0
            got = float(prob["got"])
            if abs(got - left) < 1e-9:
                key += ":pairwise-left-fold"        # (also when the data cannot tell the two folds apart)
            elif abs(got - right) < 1e-9:
                key += ":pairwise-right-fold"
    return key


def candidate(rec, key, rank, payload):
    """workers only collect small candidate descriptions (a set, merged by union); the parent turns the best candidate
    of every finding key into one minimised, re-executed violation (emit)"""
    rec.add("candidates", [(key, repr(rank), json.dumps(payload, sort_keys=True, default=str))])


def ds_json(d):
    return {"name": d.name, "comps": [list(c) for c in d.comps], "rows": d.rows}


def ds_from(j):
    return DS(j["name"], [tuple(c) for c in j["comps"]], j["rows"])


def used_defs(defs, stmt):
    """only the ruleset definitions the statement names (keeps single-statement replays small)"""
    keep = []
    for d in [x for x in defs.split("\n") if x.strip()]:
        m = re.match(r"define (?:datapoint|hierarchical) ruleset (\w+)", d)
        if m and re.search(r"\b%s\b" % m.group(1), stmt["text"]):
            keep.append(d + "\n")
    return "".join(keep)


def single_script(cfg, defs, stmt):
    return rules_text(cfg) + used_defs(defs, stmt) + "DS_r <- %s;\n" % stmt["text"]


def op_names(stmt):
    return list(dict.fromkeys(flat_ops(stmt["ops"])))


def slice_cid(data, names, gid, cid):
    out = []
    for n in names:
        d = data[n]
        if gid not in [c[0] for c in d.comps]:
            return None
        out.append(DS(d.name, d.comps, [r for r in d.rows if r.get(gid) == cid]))
    return out


def run_item(item, rec):
    """one (rule configuration, layout) pair: one packed engine run with every statement of the layout"""
    cfg, lname, tier, seed = item
    harness.boot()
    rules = rules_of(cfg)
    dss, stmts, defs, meta = LAYOUTS[lname](cfg, tier, seed)
    data = {d.name: d for d in dss}
    script = rules_text(cfg) + defs + "".join("R_%d <- %s;\n" % (i, s["text"]) for i, s in enumerate(stmts))
    out = refbase.run(script, dss)
    rec.count("engine_runs")
    results = {}
    ref = {"cfg": cfg, "layout": lname, "tier": tier, "seed": seed}
    if out[0] == "ok":
        results = {i: out[1].get("R_%d" % i) for i in range(len(stmts))}
    else:
        rec.count("packed_run_failed")
        for i, s in enumerate(stmts):               # isolate the failing statement(s)
            o = refbase.run(single_script(cfg, defs, s), [data[n] for n in op_names(s)])
            rec.count("engine_runs")
            if o[0] == "ok":
                results[i] = o[1].get("DS_r")
            else:
                dev = "raw-error:%s" % o[2] if o[1] == "raw" else "unexpected-error:%s" % (o[3] or o[2])
                rec.case((rules["VAt_1"].shape(), s["op"], "any", dev), dev)
                candidate(rec, "C28:any-rule:%s:any:%s" % (FINDING_OP.get(s["op"], s["op"]), dev), (0, s["text"]),
                          dict(ref, type="error", stmt=s, error=[o[2], o[3], o[4][:300]]))
    for i, s in enumerate(stmts):
        if i not in results:
            continue
        problems, stats, values, exp = judge(s, results[i], rules, data)
        for sk, n in stats.items():
            rec.case(sk, sk[3], nontrivial=sk[2] != "1-value:all-null", n=n,
                     sample={"rule": cfg["id"], "statement": s["text"], "class": sk[2], "outcome": sk[3]} if sk[3] == "ok" else None)
        rec.add("contexts", [s["op"]])
        best = {}
        for p in problems:
            rec.count("problem:" + p["kind"])
            rule = rules.get(p["var"]) if p["var"] else rules.get("VAt_1")
            fk = finding_key(rule, s, p)
            rank = (len(cfg["rules"]), sum(1 for v in p["inputs"] if v is None or v is ABSENT), len(p["inputs"]), len(rules_text(cfg)),
                    len(s["text"]), s["text"], repr(p["key"]))
            if fk not in best or rank < best[fk][0]:
                best[fk] = (rank, p)
        for fk, (rank, p) in best.items():
            candidate(rec, fk, rank, dict(ref, type="value", stmt=s, key=list(p["key"]) if p["key"] is not None else None,
                                          problem=p["kind"], var=p["var"]))
        if "cid" in meta and s["ctx"] in ("group", "analytic", "hier"):
            check_row_order(rec, ref, s, values, exp, meta, rules)


def check_row_order(rec, ref, stmt, values, exp, meta, rules):
    """equal groups whose rows arrive in different physical orders must get the same viral value (packed screening; the
    parent confirms a disagreement on the single group alone, see materialise_order)"""
    gid = meta["gid"]
    if gid not in exp.ids:
        return
    gpos = exp.ids.index(gid)
    by_vals = {}
    for (k, var), val in values.items():
        vals, perm = meta["cid"][k[gpos]]
        rest = k[:gpos] + k[gpos + 1:]
        by_vals.setdefault((vals, rest, var), {})[perm] = (val, k)
    best = {}
    for (vals, rest, var), perms in by_vals.items():
        distinct = {}
        for perm, (val, k) in sorted(perms.items()):
            distinct.setdefault(repr(val), (perm, val, k))
        rule = rules[var]
        present = [v for v in vals if v is not ABSENT]
        sens = rule.order_sensitive(present)
        sk = (rule.shape(), stmt["op"], "row-order:" + M.eq_class(rule, present), "same" if len(distinct) == 1 else "differs")
        rec.case(sk, "row-order-" + sk[3], nontrivial=len(perms) > 1)
        if len(distinct) < 2:
            continue
        key = "C28:%s:%s:%s:row-order-dependent" % (rule.kind_key(), FINDING_OP.get(stmt["op"], stmt["op"]),
                                                    "order-sensitive-rule" if sens else "order-insensitive-rule")
        (p1, v1, k1), (p2, v2, k2) = list(distinct.values())[:2]
        rank = (len(ref["cfg"]["rules"]), sum(1 for v in present if v is None), len(present), len(rules_text(ref["cfg"])),
                len(stmt["text"]), stmt["text"], repr(vals))
        if key not in best or rank < best[key][0]:
            best[key] = (rank, dict(ref, type="order", stmt=stmt, cid_a=k1[gpos], cid_b=k2[gpos], var=var))
    for key, (rank, payload) in best.items():
        candidate(rec, key, rank, payload)


# ---------------------------------------------------------------------------------------------------------
# parent side: one minimised, re-executed violation per finding key
# ---------------------------------------------------------------------------------------------------------

def _regen(pl):
    cfg = pl["cfg"]
    dss, stmts, defs, meta = LAYOUTS[pl["layout"]](cfg, pl["tier"], pl["seed"])
    return cfg, rules_of(cfg), {d.name: d for d in dss}, defs, meta


def _describe(stmt, cfg, ids, prob, use, minimal):
    return ("%s  with %s: result datapoint %s has %s = %r; the rule applied to the combined values %r allows %s (%s)%s" % (
        stmt["text"], " ".join(Rule.from_spec(s).vtl() for s in cfg["rules"]), dict(zip(ids, prob["key"] or ())), prob["var"], prob["got"],
        [("<no datapoint>" if v is ABSENT else v) for v in prob["inputs"]],
        sorted(prob["acc"], key=repr) if prob["acc"] is not None else "-", prob["kind"],
        "; minimal input: " + "; ".join("%s=%s" % (d.name, d.rows) for d in use) if minimal else ""))


def materialise_value(pl, rec):
    """-> (what, replay) or None when the problem does not show when the statement runs alone"""
    cfg, rules, data, defs, _ = _regen(pl)
    stmt = pl["stmt"]
    names = op_names(stmt)
    script = single_script(cfg, defs, stmt)
    rule = rules.get(pl["var"]) if pl["var"] else rules.get("VAt_1")
    attempts = []
    sliceable = not (stmt["ctx"] in ("row", "unpivot", "check_dp", "check", "check_hier") and rule is not None and rule.fn)
    if sliceable and pl["key"] is not None:
        ids = M.expect(stmt, rules, data).ids
        if "C_id" in ids:
            sl = slice_cid(data, names, "C_id", pl["key"][ids.index("C_id")])
            if sl is not None:
                attempts.append((sl, True))
    attempts.append(([data[n] for n in names], False))
    for use, minimal in attempts:
        out = refbase.run(script, use)
        rec.count("engine_runs")
        if out[0] != "ok":
            continue
        d2 = {d.name: d for d in use}
        probs, _, _, exp = judge(stmt, out[1].get("DS_r"), rules, d2)
        same = [p for p in probs if p["kind"] == pl["problem"]]
        if same:
            same.sort(key=lambda p: (sum(1 for v in p["inputs"] if v is None or v is ABSENT), repr(p["key"])))
            return (_describe(stmt, cfg, exp.ids, same[0], use, minimal),
                    {"kind": "value", "script": script, "datasets": [ds_json(d) for d in use], "stmt": stmt, "rules": cfg["rules"],
                     "problem": pl["problem"]})
    return None


def materialise_order(pl, rec):
    cfg, rules, data, defs, meta = _regen(pl)
    stmt, gid, var = pl["stmt"], meta["gid"], pl["var"]
    name = stmt["ops"][0]
    base = [r for r in data[name].rows if r.get(gid) == pl["cid_a"]]
    other = [r for r in data[name].rows if r.get(gid) == pl["cid_b"]]
    idn = [c[0] for c in data[name].comps if c[2] == ID and c[0] != gid]
    pos = {tuple(r.get(i) for i in idn): n for n, r in enumerate(other)}
    reordered = sorted(base, key=lambda r: pos[tuple(r.get(i) for i in idn)])
    da, db = DS(name, data[name].comps, base), DS(name, data[name].comps, reordered)
    script = single_script(cfg, defs, stmt)
    oa, ob = refbase.run(script, [da]), refbase.run(script, [db])
    rec.count("engine_runs", 2)
    if oa[0] != "ok" or ob[0] != "ok":
        return None
    if harness.results_equal(harness.canon_results(oa[1]), harness.canon_results(ob[1])):
        return None
    ra = sorted({canon(r.get(var)) for r in refbase.result_rows(oa[1]["DS_r"])}, key=repr)
    rb = sorted({canon(r.get(var)) for r in refbase.result_rows(ob[1]["DS_r"])}, key=repr)
    what = ("%s  with %s: the group with viral values %r gives %s = %r when its rows arrive in the order %s and %r in the order %s "
            "(identical datapoints, only the physical row order differs)" % (
                stmt["text"], rules[var].vtl(), [r.get(var) for r in base], var, ra, [tuple(r.get(i) for i in idn) for r in base],
                rb, [tuple(r.get(i) for i in idn) for r in reordered]))
    return what, {"kind": "order", "script": script, "a": [ds_json(da)], "b": [ds_json(db)]}


def materialise_error(pl, rec):
    cfg, rules, data, defs, _ = _regen(pl)
    stmt = pl["stmt"]
    script = single_script(cfg, defs, stmt)
    use = [DS(d.name, d.comps, d.rows[:8]) for d in (data[n] for n in op_names(stmt))]
    out = refbase.run(script, use)
    rec.count("engine_runs")
    if out[0] == "ok":
        use = [data[n] for n in op_names(stmt)]
    return ("%s raises %s on a valid script: %s" % (script.replace("\n", " "), pl["error"][0], pl["error"][2]),
            {"kind": "error", "script": script, "datasets": [ds_json(d) for d in use]})


def materialise_norule(pl, rec):
    script, use, stmt = _norule_case(pl["variant"], pl["cfg"], pl["layout"], pl["tier"], pl["seed"], pl["stmt"])
    small = [DS(d.name, d.comps, d.rows[:6]) for d in use]
    out = refbase.semantic(script, small) if pl["api"] == "semantic_analysis" else refbase.run(script, small)
    if out[0] == "err" and out[1] == "vtl" and out[3] == "1-3-3-6":
        return None
    return ("%s(%s) with a viral attribute that has no propagation rule: expected SemanticError 1-3-3-6, got %s" % (
        pl["api"], script.replace("\n", " "), "a result" if out[0] == "ok" else list(out[2:4])),
        {"kind": "norule", "api": pl["api"], "script": script, "datasets": [ds_json(d) for d in small]})


MATERIALISE = {"value": materialise_value, "order": materialise_order, "error": materialise_error, "norule": materialise_norule}


def emit(rec):
    """one violation per finding key; rule kinds are merged when every rule kind fails in the same way"""
    cands = rec.sets.pop("candidates", set())
    kinds = {"enumerated", "aggregate-min", "aggregate-max", "aggregate-sum", "aggregate-avg"}
    groups = {}
    for key, _, _ in cands:
        parts = key.split(":")
        if parts[1] in kinds:
            groups.setdefault(tuple(parts[2:]), set()).add(parts[1])
    final = {}
    for key, rank, pj in cands:
        parts = key.split(":")
        if parts[1] in kinds:
            failing = groups[tuple(parts[2:])]
            if failing == kinds:
                parts[1] = "any-rule"
            elif failing == kinds - {"enumerated"}:
                parts[1] = "aggregate"
        final.setdefault(":".join(parts), []).append((ast.literal_eval(rank), pj))
    for key in sorted(final):
        done = False
        for rank, pj in sorted(final[key])[:6]:
            pl = json.loads(pj)
            res = MATERIALISE[pl["type"]](pl, rec)
            if res is not None:
                rec.violation(key, res[0], res[1])
                done = True
                break
        if not done:
            rec.count("candidates_not_reproduced_alone")
            rec.note("finding candidate %s was seen in a packed run but did not reproduce when the statement ran alone "
                     "(first 6 candidates tried)" % key)


# ---------------------------------------------------------------------------------------------------------
# a viral attribute without a rule => SemanticError 1-3-3-6 in every position
# ---------------------------------------------------------------------------------------------------------

def norule_items(tier, seed):
    base = {"id": "norule", "rules": [Rule("VAt_1", [(("A",), "A")]).spec()], "vtypes": {"VAt_1": "String"}}
    two = {"id": "norule2", "rules": [Rule("VAt_1", [(("A",), "A")]).spec()], "vtypes": {"VAt_1": "String", "VAt_2": "Number"}}
    items = []
    for lname in ("pairs", "groups", "whole", "hier"):
        items.append(("none", base, lname, tier, seed))
        items.append(("other-variable", base, lname, tier, seed))
        items.append(("partial", two, lname, tier, seed))
    return items


def _norule_stmts(cfg, lname, tier, seed):
    dss, stmts, defs, _ = LAYOUTS[lname](cfg, tier, seed)
    if lname == "whole":                      # one statement per operator is enough: the datasets only differ in data
        seen, keep = set(), []
        for s in stmts:
            if s["op"] not in seen:
                seen.add(s["op"])
                keep.append(s)
        stmts = keep
    return {d.name: d for d in dss}, stmts, defs


def _norule_case(variant, cfg, lname, tier, seed, stmt, cache=None):
    data, _, defs = cache or _norule_stmts(cfg, lname, tier, seed)
    if variant == "none":
        prefix = ""
    elif variant == "other-variable":
        prefix = Rule("VAt_9", [(("A",), "A")]).vtl() + "\n"
    else:
        prefix = rules_text(cfg)              # rule for VAt_1 only, VAt_2 has none
    script = prefix + used_defs(defs, stmt) + "DS_r <- %s;\n" % stmt["text"]
    return script, [data[n] for n in op_names(stmt)], stmt


def run_norule(item, rec):
    variant, cfg, lname, tier, seed = item
    harness.boot()
    cache = _norule_stmts(cfg, lname, tier, seed)
    for s in cache[1]:
        script, use, _ = _norule_case(variant, cfg, lname, tier, seed, s, cache)
        if not any(M.virals_of(d) for d in use):
            continue
        small = [DS(d.name, d.comps, d.rows[:6]) for d in use]
        calls = [("semantic_analysis", refbase.semantic(script, small))]
        if tier == "thorough" or s["op"] in ("binary", "aggregation", "join-2", "assignment", "unary"):
            calls.append(("run", refbase.run(script, small)))
            rec.count("engine_runs")
        for api, out in calls:
            ok = out[0] == "err" and out[1] == "vtl" and out[3] == "1-3-3-6"
            outcome = "rejected-1-3-3-6" if ok else ("accepted" if out[0] == "ok" else "other-error:%s" % (out[3] or out[2]))
            rec.case(("no-rule", variant, s["op"], api, outcome), "norule-" + outcome)
            if not ok:
                dev = "no-semantic-error" if out[0] == "ok" else ("raw-error:%s" % out[2] if out[1] == "raw" else "other-error:%s" % (out[3] or out[2]))
                candidate(rec, "C28:no-rule:%s:%s:%s" % (FINDING_OP.get(s["op"], s["op"]), variant, dev), (0, api, s["text"]),
                          {"type": "norule", "variant": variant, "cfg": cfg, "layout": lname, "tier": tier, "seed": seed, "stmt": s, "api": api})


# ---------------------------------------------------------------------------------------------------------
# calibration gate: the model must reproduce the expectations stored in tests/ViralAttributes
# ---------------------------------------------------------------------------------------------------------

def _codes(source, listname):
    m = re.search(r"%s\s*=\s*\[(.*?)\n\]" % listname, source, re.S)
    return re.findall(r'\(\s*"([\d-]+)"\s*,\s*(\d+)', m.group(1)) if m else []


def recognise(text):
    """final statement of a stored test script -> statement descriptor of the model, or None (outside the subset)"""
    t = re.sub(r"\s+", " ", text.strip()).rstrip(";").strip()
    m = re.match(r"DS_r <- (.*)$", t)
    if not m or ";" in t:
        return None
    e = m.group(1).strip()
    D = r"(DS_\d)"
    if re.fullmatch(D, e):
        return dict(ctx="same", ops=[e])
    m = re.fullmatch(D + r" ?(\+|-|\*|/) ?" + D, e)
    if m:
        return dict(ctx="pair", ops=[m.group(1), m.group(3)])
    m = re.fullmatch(r"nvl\(" + D + ", " + D + r"\)", e)
    if m:
        return dict(ctx="pair", ops=[m.group(1), m.group(2)])
    m = re.fullmatch(r"(?:sum|max|min|avg|count)\(" + D + r" group by (\w+)\)", e)
    if m:
        return dict(ctx="group", ops=[m.group(1)], by=[m.group(2)])
    m = re.fullmatch(D + r"\[aggr \w+ := \w+\(\w+\) group by (\w+)\]", e)
    if m:
        return dict(ctx="group", ops=[m.group(1)], by=[m.group(2)])
    m = re.fullmatch(r"(?:sum|max|min|avg|count)\(" + D + r" over \(partition by (\w+)\)\)", e)
    if m:
        return dict(ctx="analytic", ops=[m.group(1)], by=[m.group(2)])
    m = re.fullmatch(r"(inner|left|full|cross)_join\(" + D + ", " + D + r"( keep [\w#, ]+)?\)", e)
    if m:
        return dict(ctx="join", kind=m.group(1), ops=[m.group(2), m.group(3)])
    m = re.fullmatch(r"(?:abs|round|substr|ceil|floor)\(" + D + r"(?:, ?[\d, ]+)?\)", e)
    if m:
        return dict(ctx="row", ops=[m.group(1)])
    m = re.fullmatch(D + r" ?(?:\+|-|\*|/) ?\d+", e) or re.fullmatch(D + r" in \{[\d, ]+\}", e)
    if m:
        return dict(ctx="row", ops=[m.group(1)])
    m = re.fullmatch(D + r"\[keep [\w, ]+\]", e)
    if m:
        return dict(ctx="same", ops=[m.group(1)])
    m = re.fullmatch(r"(?:if|case when) .+? then " + D + " else " + D, e)
    if m:
        return dict(ctx="if", ops=[m.group(1), m.group(1), m.group(2)])
    m = re.fullmatch(r"check_datapoint\(" + D + r", (\w+)(?: (invalid|all|all_measures))?\)", e)
    if m:
        return dict(ctx="check_dp", ops=[m.group(1)], ruleset=m.group(2), output=m.group(3) or "invalid")
    return None


def _model_vs_expected(stmt, rules, data, exp_rows):
    """-> None if the model reproduces the stored rows, else a description"""
    exp = M.expect(stmt, rules, data)
    model = {tuple(canon(x) for x in k): v for k, v in exp.rows.items()}
    seen = set()
    for r in exp_rows:
        k = tuple(canon(r.get(i)) for i in exp.ids)
        if k not in model:
            return "stored datapoint %r not produced by the model" % (k,)
        seen.add(k)
        for var, acc in model[k].items():
            if var in r and not member(r.get(var), acc):
                return "datapoint %r: stored %s=%r, model allows %r" % (k, var, r.get(var), sorted(acc, key=repr))
    if exp.exact and seen != set(model):
        return "model produces datapoints the stored output lacks: %r" % (sorted(set(model) - seen, key=repr)[:3],)
    return None


def _inline_cases():
    """expectations asserted inline by tests/ViralAttributes/test_viral_rule_execution.py, transcribed (the gate
    checks that the named tests still exist in that file)"""
    ident = [Rule("VAt_1", [(("A",), "A"), (("B",), "B")])]
    mx = [Rule("VAt_1", fn="max")]

    def ds(vt, rows, extra=()):
        comps = [("Id_1", "Integer", ID)] + [(n, t, ID) for n, t in extra] + [("Me_1", "Number", ME)]
        if rows and "Me_2" in rows[0]:
            comps.append(("Me_2", "Number", ME))
        return DS("DS_1", comps + [("VAt_1", vt, VAT)], rows)
    up = [{"Id_1": 1, "Me_1": 10.0, "Me_2": 100.0, "VAt_1": "A"}, {"Id_1": 2, "Me_1": 20.0, "Me_2": 200.0, "VAt_1": "B"}]
    upn = [dict(r, VAt_1=v) for r, v in zip(up, (1.0, 2.0))]
    unp = dict(ctx="unpivot", ops=["DS_1"], measures=["Me_1", "Me_2"], new_id="Id_2")
    three = [{"Id_1": i + 1, "Me_1": float(i + 1), "VAt_1": v} for i, v in enumerate((100.0, 200.0, 300.0))]
    dp3 = [{"Id_1": i + 1, "Me_1": m, "VAt_1": v} for i, (m, v) in enumerate(((10.0, 100.0), (20.0, 200.0), (30.0, 300.0)))]
    hrows = [{"Id_1": 1, "Id_2": c, "Me_1": 1.0, "VAt_1": v} for c, v in (("B", 100.0), ("C", 200.0), ("D", 50.0))]
    chrows = [{"Id_1": 1, "Id_2": c, "Me_1": m, "VAt_1": v} for c, m, v in (("A", 3.0, 100.0), ("B", 1.0, 200.0), ("C", 2.0, 50.0))]
    cases = [
        ("test_unpivot_replicates_viral_attrs", ident, unp, ds("String", up),
         [dict(Id_1=i, Id_2=m, VAt_1=v) for i, v in ((1, "A"), (2, "B")) for m in ("Me_1", "Me_2")]),
        ("test_unpivot_executes_aggregate_rule", mx, unp, ds("Number", upn),
         [dict(Id_1=i, Id_2=m, VAt_1=2.0) for i in (1, 2) for m in ("Me_1", "Me_2")]),
        ("test_check_datapoint_reattaches_viral", ident, dict(ctx="check_dp", ops=["DS_1"], rule_ids=["r1"], output="all"),
         ds("String", [{"Id_1": 1, "Me_1": 10.0, "VAt_1": "A"}, {"Id_1": 2, "Me_1": 20.0, "VAt_1": "B"}]),
         [dict(Id_1=1, ruleid="r1", VAt_1="A"), dict(Id_1=2, ruleid="r1", VAt_1="B")]),
        ("test_check_datapoint_executes_aggregate_rule", mx, dict(ctx="check_dp", ops=["DS_1"], rule_ids=["r1"], output="all"),
         ds("Number", dp3), [dict(Id_1=i, ruleid="r1", VAt_1=300.0) for i in (1, 2, 3)]),
        ("test_aggregate_rule_is_dataset_wide", mx, dict(ctx="row", ops=["DS_1"]), ds("Number", three),
         [dict(Id_1=i, VAt_1=300.0) for i in (1, 2, 3)]),
        ("test_enumerated_rule_is_per_row", [Rule("VAt_1", [(("A",), "Z")], "D", True)], dict(ctx="row", ops=["DS_1"]),
         ds("String", [{"Id_1": 1, "Me_1": 1.0, "VAt_1": "A"}, {"Id_1": 2, "Me_1": 2.0, "VAt_1": "B"}]),
         [dict(Id_1=1, VAt_1="Z"), dict(Id_1=2, VAt_1="D")]),
        ("test_hierarchy_combines_child_viral", mx,
         dict(ctx="hier", ops=["DS_1"], comp="Id_2", rules=[["A", ["B", "C"]], ["T", ["A", "D"]]]),
         ds("Number", hrows, extra=[("Id_2", "String")]), [dict(Id_1=1, Id_2="A", VAt_1=200.0), dict(Id_1=1, Id_2="T", VAt_1=200.0)]),
        ("test_check_hierarchy_propagates_viral", mx,
         dict(ctx="check_hier", ops=["DS_1"], comp="Id_2", rules=[["A", ["B", "C"]]], rule_ids=["1"]),
         ds("Number", chrows, extra=[("Id_2", "String")]), [dict(Id_1=1, Id_2="A", ruleid="1", VAt_1=100.0)]),
    ]
    return cases


def calibrate():
    """-> (number of stored expectations reproduced, [mismatch descriptions], [codes outside the modelled subset])"""
    src = open(os.path.join(TESTS, "test_viral_attributes.py"), encoding="utf-8").read()
    ok, bad, outside = 0, [], []
    base = os.path.join(TESTS, "data")

    def load(code, n):
        dss = []
        for i in range(1, n + 1):
            tag = "%s-%d" % (code, i)
            for d in refbase._load_ds(os.path.join(base, "DataStructure", "input", tag + ".json"),
                                      os.path.join(base, "DataSet", "input", tag + ".csv")):
                dss.append(refbase.typed(d))
        return {d.name: d for d in dss}

    for code, n in _codes(src, "execution_codes"):
        script = open(os.path.join(base, "vtl", code + ".vtl"), encoding="utf-8").read()
        rules, rest = M.parse_rules(script)
        dprs = re.findall(r"define datapoint ruleset (\w+).*?end datapoint ruleset;", rest, re.S)
        dpr_ids = re.findall(r"(\w+)\s*:\s*(?:when|\w+\s*[<>=])", " ".join(re.findall(r"define datapoint ruleset.*?end datapoint ruleset;", rest, re.S)))
        rest = re.sub(r"define datapoint ruleset.*?end datapoint ruleset;", "", rest, flags=re.S)
        stmt = recognise(rest)
        if stmt is None:
            outside.append(code)
            continue
        if stmt["ctx"] == "check_dp":
            if not dprs or not dpr_ids:
                outside.append(code)
                continue
            stmt["rule_ids"] = dpr_ids
        data = load(code, int(n))
        outs = refbase._load_ds(os.path.join(base, "DataStructure", "output", code + "-DS_r.json"),
                                os.path.join(base, "DataSet", "output", code + "-DS_r.csv"))
        exp_rows = refbase.typed(outs[0]).rows
        try:
            why = _model_vs_expected(stmt, rules, data, exp_rows)
        except Exception as e:  # noqa: BLE001
            why = "model crashed: %s: %s" % (type(e).__name__, e)
        if why is None:
            ok += 1
        else:
            bad.append("tests/ViralAttributes %s: %s" % (code, why))
    # stored "must raise 1-3-3-6" cases: the model predicts the error when a viral attribute of an operand has no rule
    for code, n in _codes(src, "combine_no_rule_codes"):
        script = open(os.path.join(base, "vtl", code + ".vtl"), encoding="utf-8").read()
        rules, _ = M.parse_rules(script)
        data = load(code, int(n))
        unruled = [v for d in data.values() for v in M.virals_of(d) if v not in rules]
        if unruled:
            ok += 1
        else:
            bad.append("tests/ViralAttributes %s: stored expectation is SemanticError 1-3-3-6 but every viral attribute has a rule" % code)
    src2 = open(os.path.join(TESTS, "test_viral_rule_execution.py"), encoding="utf-8").read()
    for name, rl, stmt, d, exp_rows in _inline_cases():
        if "def %s(" % name not in src2:
            bad.append("inline expectation %s no longer exists in test_viral_rule_execution.py" % name)
            continue
        try:
            why = _model_vs_expected(stmt, {r.var: r for r in rl}, {d.name: d}, exp_rows)
        except Exception as e:  # noqa: BLE001
            why = "model crashed: %s: %s" % (type(e).__name__, e)
        if why is None:
            ok += 1
        else:
            bad.append("%s: %s" % (name, why))
    return ok, bad, outside


# ---------------------------------------------------------------------------------------------------------

class Check:
    ID = "C28"
    LEVEL = "exploration"
    RULE = ("rule space (enumerated rules of <= 2 clauses over one-/two-value conditions on {A,B,C,null} with results {A,M,null}, "
            "default absent/present, 7 special shapes incl. labelled / 3-clause / null-valued; aggregate min/max/sum/avg on String / "
            "Number attributes; 2 configurations with two viral attributes) x 4 data layouts (every triple of values incl. 'no "
            "datapoint' packed by C_id; groups of 1-3 rows x every physical row permutation; every dataset of 1-3 rows; hierarchy "
            "children x every permutation) x the statement battery of the layout (all statements of a layout in ONE engine run; "
            "statement-level + C_id packing). A case = one viral value of one result datapoint of one statement checked against "
            "the model's acceptable set; plus one case per (statement, group values) for row-order independence; plus one per "
            "(statement, variant, API) for the missing-rule error. distinct = (rule shape, operator context, class of the combined "
            "values [count, nulls, unmatched operand, order-sensitive rule], outcome); non-trivial = a viral value was compared and "
            "the datapoint is not a lone null. Violations are collected per finding key, the simplest candidate of each key is "
            "re-executed alone on its minimal slice (row-order findings: the single group in two physical orders) before it is reported.")
    ASSUMPTIONS = [
        "two-value clauses are tried before one-value clauses (engine convention pinned by tests 1-2, 4-7); when a rule declares a "
        "one-value clause before a two-value clause the declaration-order reading is accepted as well",
        "a group / partition / hierarchy node / join datapoint built from a single input datapoint may carry the raw value or the "
        "per-datapoint mapping of the enumerated rule",
        "an outer-join operand without a matching datapoint may count as null or be left out of the combination",
        "aggregate sum/avg: two combined values -> null if either is null (pinned by test 1-8); more than two values or an "
        "aggregation group with some null -> the null-ignoring aggregate or null; min/max ignore nulls (tests 1-7, 4-12)",
        "a non-associative enumerated rule over >= 3 values may be folded in any order, but the result must not depend on the "
        "physical order of the input rows",
        "if/case: the then- and else-datapoints are combined with the pair rule whatever the condition; check(): the pair-combined "
        "value, optionally mapped once more; check_hierarchy / hierarchy leaves under 'all': raw or mapped value",
        "analytic invocations are only exercised with the whole partition as window; Integer viral attributes, value-domain rules, "
        "pivot, time operators, dataset-scalar if/case, viral attributes present in only one operand of a dataset-dataset operator "
        "and binary clauses whose two values are equal are not modelled",
        "nested dataset expressions are evaluated inside-out: the value computed for the inner expression is what the outer operator combines",
    ]

    def run(self, tier, seed, rec):
        harness.boot()
        ok, bad, outside = calibrate()
        if bad:
            for b in bad:
                rec.tool_error("oracle not calibrated: " + b)
            return {"exhaustive": False, "traces_validated_against_impl": ok}
        if ok < 30:
            rec.tool_error("calibration corpus shrank: only %d stored expectations fall in the modelled subset" % ok)
        cfgs = rule_configs(tier)
        items = [(cfg, lname, tier, seed) for cfg in cfgs for lname in ("pairs", "groups", "whole", "hier")]
        items = harness.seeded_order(items, seed)
        harness.pmap(run_item, items, rec)
        harness.pmap(run_norule, harness.seeded_order(norule_items(tier, seed), seed), rec)
        emit(rec)
        # non-vacuity
        ctxs = rec.sets.get("contexts", set())
        need = {"binary", "nested-binary", "nvl", "if", "unary", "ds-scalar", "join-2", "join-3", "aggregation", "aggr-clause",
                "aggregation-no-group", "analytic", "hierarchy", "clause", "assignment", "set-operator", "unpivot", "check",
                "check_datapoint", "check_hierarchy"}
        if need - ctxs:
            rec.tool_error("operator contexts never judged: %s" % sorted(need - ctxs))
        if not any(k[2].endswith("order-sensitive-rule") for k in rec.keys if len(k) > 2 and isinstance(k[2], str)):
            rec.tool_error("no order-sensitive (non-associative) rule / group combination was exercised")
        if not any(o.startswith("norule-rejected") for o in rec.outcomes):
            rec.tool_error("the missing-rule error was never observed")
        return {"exhaustive": True, "traces_validated_against_impl": ok, "calibration_outside_subset": outside,
                "rule_configurations": len(cfgs), "engine_runs": rec.counters.get("engine_runs", 0)}

    def replay(self, data):
        harness.boot()
        kind = data["kind"]
        if kind == "value":
            dss = [ds_from(j) for j in data["datasets"]]
            out = refbase.run(data["script"], dss)
            if out[0] != "ok":
                return True
            rules = {s["var"]: Rule.from_spec(s) for s in data["rules"]}
            problems, _, _, _ = judge(data["stmt"], out[1].get("DS_r"), rules, {d.name: d for d in dss})
            return any(p["kind"] == data.get("problem", p["kind"]) for p in problems)
        if kind == "order":
            oa = refbase.run(data["script"], [ds_from(j) for j in data["a"]])
            ob = refbase.run(data["script"], [ds_from(j) for j in data["b"]])
            if oa[0] != "ok" or ob[0] != "ok":
                return True
            return not harness.results_equal(harness.canon_results(oa[1]), harness.canon_results(ob[1]))
        if kind == "norule":
            dss = [ds_from(j) for j in data["datasets"]]
            out = refbase.semantic(data["script"], dss) if data["api"] == "semantic_analysis" else refbase.run(data["script"], dss)
            return not (out[0] == "err" and out[1] == "vtl" and out[3] == "1-3-3-6")
        if kind == "error":
            out = refbase.run(data["script"], [ds_from(j) for j in data["datasets"]])
            return out[0] != "ok"
        return False

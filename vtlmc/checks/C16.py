"""C16 — run() releases its session resources at every failure point.

Explorer E4 (fault-point enumeration through the connection proxy) + E2 (histories of failing runs):
for every subject script, every event index of its fault-free proxy trace x a fault alphabet, under both
VTL_USE_IN_MEMORY_DB settings; configuration failures; all sequences of <= 3 failing runs followed by a
probe run.  Oracle after every faulted run: an exception was raised; VTL_TEMP_DIRECTORY holds no
duckdb_tmp_* entry and no database file; the real connection behind the proxy is closed; the process's
open-fd count is back to its baseline; a probe run returns what it returns in a fresh process.
"""
import itertools
import os
import pickle

from vtlmc import faults, harness

PHASE = {"create": "load", "register": "load", "describe": "load", "insert": "load", "unregister": "load",
         "select-other": "load-validate", "count": "load-validate", "update": "load", "alter": "load",
         "exec": "statement", "drop": "release", "select": "fetch", "copy": "write", "macros": "init",
         "set": "init", "table": "load", "other": "other"}


def subjects(tier):
    """name -> callable(scratch) -> thunk"""
    import pandas as pd
    import vtlengine as V
    H = harness
    two = H.structures(H.structure("DS_1", [H.comp("Id_1", "Integer", "Identifier"), H.comp("Me_1", "Number", "Measure")]),
                       H.structure("DS_2", [H.comp("Id_1", "Integer", "Identifier"), H.comp("Me_1", "Number", "Measure")]))
    tp = H.structures(H.structure("DS_T", [H.comp("Id_1", "Integer", "Identifier"), H.comp("Me_1", "Time_Period", "Measure"),
                                           H.comp("Me_2", "Date", "Measure")]))
    df1 = lambda: pd.DataFrame({"Id_1": [1, 2, 3], "Me_1": [1.0, 2.0, None]})
    df2 = lambda: pd.DataFrame({"Id_1": [1, 2], "Me_1": [10.0, 20.0]})
    dft = lambda: pd.DataFrame({"Id_1": [1, 2], "Me_1": ["2020Q1", "2021M03"], "Me_2": ["2020-01-01", "2021-03-05"]})
    S4 = "A := DS_1 + DS_2; B := A * 2; C <- B + DS_1; D <- A[filter Me_1 > 1];"

    def files(scr):
        d = os.path.join(scr, "c16in")
        os.makedirs(d, exist_ok=True)
        p1, p2 = os.path.join(d, "DS_1.csv"), os.path.join(d, "DS_2.csv")
        if not os.path.exists(p1):
            df1().to_csv(p1, index=False)
            df2().to_csv(p2, index=False)
            df1().to_parquet(os.path.join(d, "DS_1.parquet"), index=False)
        return d

    def out(scr, name):
        d = os.path.join(scr, "c16out", name)
        return d

    from pathlib import Path
    subs = {
        "df-1stmt": lambda scr: (lambda: V.run("DS_r <- DS_1 * 2;", two, {"DS_1": df1()})),
        "df-4stmt": lambda scr: (lambda: V.run(S4, two, {"DS_1": df1(), "DS_2": df2()})),
        "csv-4stmt": lambda scr: (lambda: V.run(S4, two, {"DS_1": Path(files(scr)) / "DS_1.csv", "DS_2": Path(files(scr)) / "DS_2.csv"})),
        "parquet-1stmt": lambda scr: (lambda: V.run("DS_r <- DS_1 + 1;", two, {"DS_1": Path(files(scr)) / "DS_1.parquet"})),
        "missing-data": lambda scr: (lambda: V.run("DS_r <- DS_1 + DS_2;", two, {"DS_1": df1()})),
        "scalar-result": lambda scr: (lambda: V.run("x <- 1 + 2; DS_r <- DS_1 * 3;", two, {"DS_1": df1()})),
        "out-csv": lambda scr: (lambda: V.run(S4, two, {"DS_1": df1(), "DS_2": df2()}, output_folder=out(scr, "csv"))),
        "out-parquet": lambda scr: (lambda: V.run("x <- 1 + 2; C <- DS_1 + DS_2;", two, {"DS_1": df1(), "DS_2": df2()},
                                                  output_folder=out(scr, "pq"), output_format="parquet", return_only_persistent=False)),
        "time-period-gregorian": lambda scr: (lambda: V.run("DS_r <- DS_T;", tp, {"DS_T": dft()}, time_period_output_format="natural")),
    }
    return subs


def probe_thunk():
    import pandas as pd
    import vtlengine as V
    H = harness
    two = H.structures(H.structure("DS_1", [H.comp("Id_1", "Integer", "Identifier"), H.comp("Me_1", "Number", "Measure"),
                                            H.comp("Me_2", "Time_Period", "Measure")]))
    return lambda: V.run("DS_p <- DS_1[calc Me_3 := Me_1 / 3];", two,
                         {"DS_1": pd.DataFrame({"Id_1": [1, 2], "Me_1": [1.0, 2.0], "Me_2": ["2020Q1", "2020M02"]})})


def probe_err_thunk():
    """a failing probe: its error message must not mention anything from an earlier run"""
    import pandas as pd
    import vtlengine as V
    H = harness
    two = H.structures(H.structure("DS_1", [H.comp("Id_1", "Integer", "Identifier"), H.comp("Me_1", "Number", "Measure")]))
    return lambda: V.run("DS_p <- DS_1;", two, {"DS_1": pd.DataFrame({"Id_1": [1, 1], "Me_1": [1.0, 2.0]})})


def outcome(out):
    if out[0] == "err":
        return ("err",) + tuple(out[1:])
    return ("ok", harness.canon_results(out[1]))


def same(a, b):
    if a[0] != b[0]:
        return False
    if a[0] == "err":
        return a == b
    return harness.results_equal(a[1], b[1])


def fresh(thunk_factory):
    r, w = os.pipe()
    pid = os.fork()
    if pid == 0:
        try:
            os.close(r)
            from frontend import fe
            fe._State.proc = None
            o = outcome(harness.call(thunk_factory()))
            with os.fdopen(w, "wb") as f:
                pickle.dump(o, f)
            fe.shutdown()
        finally:
            os._exit(0)
    os.close(w)
    with os.fdopen(r, "rb") as f:
        data = f.read()
    os.waitpid(pid, 0)
    return pickle.loads(data)


class Residue:
    """measures what a run leaves behind"""

    def __init__(self):
        self.tdir = os.environ["VTL_TEMP_DIRECTORY"]
        self.base_files = set(faults.tempdir_residue(self.tdir))
        self.base_fd = faults.fd_count()

    def after(self, session):
        res = []
        left = [f for f in faults.tempdir_residue(self.tdir) if f not in self.base_files]
        if any(f.startswith("duckdb_tmp_") for f in left):
            sub = []
            for f in left:
                try:
                    sub += os.listdir(os.path.join(self.tdir, f))
                except OSError:
                    pass
            res.append("residue-dbfile" if any(x.endswith(".duckdb") for x in sub) else "residue-tempdir")
        elif left:
            res.append("residue-tempfile")
        if session is not None and not faults.connection_closed(session.real):
            res.append("connection-open")
            try:
                session.real.close()
            except Exception:
                pass
        fd = faults.fd_count()
        if fd > self.base_fd:
            res.append("fd-leak")
        # clean so that the next case starts from the same baseline
        import shutil
        for f in left:
            shutil.rmtree(os.path.join(self.tdir, f), ignore_errors=True)
        self.base_fd = min(fd, self.base_fd) if not res else faults.fd_count()
        return res


def fault_subject(item, rec):
    name, tier, inmem, probe_ok, probe_err, seed = item
    harness.boot()
    os.environ["VTL_USE_IN_MEMORY_DB"] = "1" if inmem else "0"
    scr = harness.scratch()
    thunk = subjects(tier)[name](scr)
    faults.install()
    out0, s0 = faults.run_traced(thunk)          # warm-up (lazy imports open fds once)
    out0, s0 = faults.run_traced(thunk)
    if out0[0] != "ok":
        rec.tool_error("subject %s does not run fault-free: %s" % (name, out0[1:]))
        return
    n = len(s0.events)
    rec.count("fault_points", n)
    res = Residue()
    mode = "mem" if inmem else "file"
    r0 = res.after(s0)
    if r0:
        rec.violation("C16:success:%s:%s" % (mode, "+".join(r0)), "fault-free run of %s leaves %s" % (name, r0),
                      {"subject": name, "inmem": inmem, "fault_at": None})
    alpha = faults.fault_alphabet(tier)
    order = harness.seeded_order(list(itertools.product(range(n), range(len(alpha)))), seed)
    for k, fi in order:
        fname, fmk = alpha[fi]
        kind = s0.events[k][2]
        phase = PHASE.get(kind, kind)
        out, s = faults.run_traced(thunk, fault_at=k, fault=fmk)
        replay = {"subject": name, "inmem": inmem, "fault_at": k, "fault": fname, "tier": tier}
        if not s.fired:
            rec.tool_error("fault %d of %s did not fire (trace not deterministic?)" % (k, name))
            continue
        problems = []
        if out[0] == "ok":
            # a fault in a best-effort step may be legitimately absorbed only if nothing is lost; the property says
            # "raises an error" for every failure point, so report it
            problems.append("no-exception")
        problems += res.after(s)
        p1 = outcome(harness.call(probe_thunk()))
        if not same(probe_ok, p1):
            problems.append("next-run-differs")
        p2 = outcome(harness.call(probe_err_thunk()))
        if not same(probe_err, p2):
            problems.append("next-error-differs")
        res.after(None)
        rec.case((name, mode, phase, kind, fname, tuple(problems)), "clean" if not problems else "+".join(problems),
                 sample={"subject": name, "mode": mode, "event": list(s0.events[k]), "fault": fname, "raised": out[1:4] if out[0] == "err" else None})
        for p in problems:
            rec.violation("C16:fault:%s:%s:%s" % (phase, mode if p == "residue-dbfile" else "any", p),
                          "subject %s (%s), %s injected at event %d %s -> %s (run outcome %s)" % (
                              name, mode, fname, k, s0.events[k], p, str(out[:4])[:200]), replay)


CONFIG_MENU = [
    ("scale-out-of-range", {"OUTPUT_NUMBER_SIGNIFICANT_DIGITS": "3"}),
    ("scale-not-integer", {"OUTPUT_NUMBER_SIGNIFICANT_DIGITS": "abc"}),
    ("width-out-of-range", {"VTL_DUCKDB_DECIMAL_WIDTH": "2"}),
    ("threads-unparsable", {"VTL_THREADS": "many"}),
    ("memory-limit-unparsable", {"VTL_MEMORY_LIMIT": "lots"}),
]


def config_case(item, rec):
    """configuration failures: each from a fresh process (fork), then unset and probe"""
    label, env, inmem, probe_ok, probe_err = item
    harness.boot()
    os.environ["VTL_USE_IN_MEMORY_DB"] = "1" if inmem else "0"
    faults.install()
    thunk = subjects("quick")["df-1stmt"](harness.scratch())
    faults.run_traced(thunk)
    res = Residue()
    saved = {k: os.environ.get(k) for k in env}
    os.environ.update(env)
    out, s = faults.run_traced(thunk)
    for k, v in saved.items():
        if v is None:
            os.environ.pop(k, None)
        else:
            os.environ[k] = v
    problems = []
    if out[0] == "ok":
        problems.append("accepted")   # not C16's business (C30 decides validity); nothing to clean up then
    else:
        problems += res.after(s if s.real is not None else None)
        # the connection is created before the proxy sees it: look for connections still open via the temp dir + fds
        p1 = outcome(harness.call(probe_thunk()))
        if not same(probe_ok, p1):
            problems.append("next-run-differs")
    mode = "mem" if inmem else "file"
    rec.case(("config", label, mode, tuple(problems)), "+".join(problems) or "clean",
             sample={"config": env, "mode": mode, "raised": out[1:4] if out[0] == "err" else None})
    for p in problems:
        if p == "accepted":
            continue
        rec.violation("C16:config-error:%s:%s:%s" % (label, mode if p == "residue-dbfile" else "any", p),
                      "run() with %s (%s) fails with %s and leaves: %s" % (env, mode, str(out[1:4]), p),
                      {"config": env, "inmem": inmem, "label": label})


HISTORY_MENU = [("load", "df-4stmt", "insert"), ("statement", "df-4stmt", "exec"), ("fetch", "df-4stmt", "select"),
                ("write", "out-csv", "copy"), ("release", "df-4stmt", "drop")]


def history_case(item, rec):
    hist, probe_ok, probe_err = item
    harness.boot()
    faults.install()
    import duckdb
    scr = harness.scratch()
    subs = subjects("quick")
    res = None
    for label, subj, kind in hist:
        thunk = subs[subj](scr)
        out0, s0 = faults.run_traced(thunk)
        if res is None:
            res = Residue()
        ks = [e[0] for e in s0.events if e[2] == kind]
        if not ks:
            rec.tool_error("history menu: subject %s has no %s event" % (subj, kind))
            return
        out, s = faults.run_traced(thunk, fault_at=ks[len(ks) // 2], fault=lambda: duckdb.IOException("injected"))
        if out[0] == "ok":
            rec.note("history fault %s absorbed" % label)
    problems = res.after(None)
    p1 = outcome(harness.call(probe_thunk()))
    if not same(probe_ok, p1):
        problems.append("next-run-differs")
    p2 = outcome(harness.call(probe_err_thunk()))
    if not same(probe_err, p2):
        problems.append("next-error-differs")
    labels = [h[0] for h in hist]
    rec.case(("history", tuple(labels), tuple(problems)), "+".join(problems) or "clean", nontrivial=True,
             sample={"history": labels, "problems": problems} if len(labels) == 3 else None)
    for p in problems:
        rec.violation("C16:history:%s:%s" % ("-".join(sorted(set(labels))), p),
                      "after failing runs %s a probe shows %s" % (labels, p), {"history": [list(h) for h in hist]})


class Check:
    ID = "C16"
    LEVEL = "fault_enumeration"
    RULE = ("for each subject script every event index of its fault-free connection-proxy trace x fault alphabet x "
            "{in-memory, file-backed} is one faulted run; plus configuration failures and all sequences of <= 3 failing "
            "runs over a 5-phase menu. distinct key = (subject, mode, phase, event kind, fault, residues); non-trivial = "
            "the fault fired")
    ASSUMPTIONS = ["faults are injected at DuckDB connection calls (execute/sql/register/unregister/table); Python-side "
                   "file I/O outside the connection is covered only through the COPY statements"]

    def run(self, tier, seed, rec):
        harness.boot()
        probe_ok = fresh(probe_thunk)
        probe_err = fresh(probe_err_thunk)
        if probe_ok[0] != "ok" or probe_err[0] != "err":
            rec.tool_error("probes not calibrated: %s %s" % (probe_ok[0], probe_err[0]))
        names = sorted(subjects(tier))
        items = [(n, tier, m, probe_ok, probe_err, seed) for n in names for m in (True, False)]
        harness.pmap(fault_subject, harness.seeded_order(items, seed), rec)
        citems = [(l, e, m, probe_ok, probe_err) for l, e in CONFIG_MENU for m in (True, False)]
        harness.pmap(config_case, citems, rec)
        menu = HISTORY_MENU
        hists = [h for n in (1, 2, 3) for h in itertools.product(menu, repeat=n)]
        harness.pmap(history_case, [(h, probe_ok, probe_err) for h in hists], rec)
        if rec.counters.get("fault_points", 0) == 0:
            rec.tool_error("no fault point enumerated")
        return {"exhaustive": True, "subjects": len(names), "histories": len(hists), "config_cases": len(citems)}

    def replay(self, data):
        harness.boot()
        faults.install()
        probe_ok = fresh(probe_thunk)
        probe_err = fresh(probe_err_thunk)
        rec = harness.Recorder()
        if "subject" in data:
            tier = data.get("tier", "quick")
            if data["fault_at"] is None:
                return False
            os.environ["VTL_USE_IN_MEMORY_DB"] = "1" if data["inmem"] else "0"
            thunk = subjects(tier)[data["subject"]](harness.scratch())
            faults.run_traced(thunk)
            res = Residue()
            fmk = dict(faults.fault_alphabet("thorough"))[data["fault"]]
            out, s = faults.run_traced(thunk, fault_at=data["fault_at"], fault=fmk)
            bad = out[0] == "ok" or bool(res.after(s))
            bad = bad or not same(probe_ok, outcome(harness.call(probe_thunk())))
            return bad or not same(probe_err, outcome(harness.call(probe_err_thunk())))
        if "config" in data:
            config_case((data["label"], data["config"], data["inmem"], probe_ok, probe_err), rec)
        else:
            history_case((tuple(tuple(h) for h in data["history"]), probe_ok, probe_err), rec)
        return bool(rec.violations)

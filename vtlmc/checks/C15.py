"""C15 — results are deterministic and independent of engine configuration.

The complete knob lattice VTL_THREADS x VTL_USE_IN_MEMORY_DB x VTL_MEMORY_LIMIT x VTL_TEMP_DIRECTORY (32 points) is
enumerated for every program of the shared alphabet on small inputs, and for a list of order/plan-sensitive scripts
on inputs large enough for DuckDB to parallelise (>= 2 row groups per thread), twice each; oracle O1 against the
default configuration (datapoints as sets).  DuckDB's internal scheduling is repeated, not enumerated (DESIGN §7).
"""
import itertools
import os

from vtlmc import harness, programs, refbase
from vtlmc.refbase import DS, ID, ME

KNOBS = {
    "VTL_THREADS": ["1", "2", "4", "16"],
    "VTL_USE_IN_MEMORY_DB": ["1", "0"],
    "VTL_MEMORY_LIMIT": [None, "64MB"],
    "VTL_TEMP_DIRECTORY": [None, "fresh"],
}


def lattice():
    keys = list(KNOBS)
    for combo in itertools.product(*[KNOBS[k] for k in keys]):
        yield dict(zip(keys, combo))


class Env:
    def __init__(self, point):
        self.point = point
        self.saved = {}

    def __enter__(self):
        for k, v in self.point.items():
            self.saved[k] = os.environ.get(k)
            if v is None:
                if k == "VTL_TEMP_DIRECTORY":
                    continue   # "unset" for the harness = its own per-worker default directory
                os.environ.pop(k, None)
            elif v == "fresh":
                d = os.path.join(harness.scratch(), "c15tmp-%d" % os.getpid())
                os.makedirs(d, exist_ok=True)
                os.environ[k] = d
            else:
                os.environ[k] = v

    def __exit__(self, *a):
        for k, v in self.saved.items():
            if v is None:
                os.environ.pop(k, None)
            else:
                os.environ[k] = v


def label(point):
    return "threads=%s,mem=%s,limit=%s,tmp=%s" % (point["VTL_THREADS"], point["VTL_USE_IN_MEMORY_DB"], point["VTL_MEMORY_LIMIT"] or "-",
                                                   point["VTL_TEMP_DIRECTORY"] or "-")


def small_item(item, rec):
    V = harness.boot()
    for name, script, dss, tags in item:
        base = refbase.run(script, dss)
        if base[0] != "ok":
            rec.tool_error("program %s does not run under the default configuration" % name)
            continue
        cb = harness.canon_results(base[1])
        for point in lattice():
            with Env(point):
                out = refbase.run(script, dss)
            if out[0] != "ok":
                if point["VTL_MEMORY_LIMIT"] and "memory" in out[4].lower():
                    rec.case((name, "small", label(point), "oom"), "did-not-complete", nontrivial=False)
                    continue
                same = False
            else:
                same = harness.results_equal(cb, harness.canon_results(out[1]))
            rec.case((name, "small", label(point), same), "same" if same else "differs",
                     sample={"program": name, "config": point} if point["VTL_THREADS"] == "16" and point["VTL_USE_IN_MEMORY_DB"] == "0" else None)
            if not same:
                knob = [k for k, v in point.items() if v not in (None, "1")] or ["default"]
                rec.violation("C15:small:%s:%s:%s" % (sorted(tags)[0], name, "error:%s" % out[2] if out[0] != "ok" else "differs"),
                              "program %s under %s: %s" % (name, label(point), str(out[1:5])[:200] if out[0] != "ok" else "different datapoints"),
                              {"kind": "small", "program": name, "point": point})


def big_inputs(n):
    import numpy as np
    import pandas as pd
    i = np.arange(n, dtype="int64")
    def mk(name, off, shift):
        df = pd.DataFrame({"Id_1": (i + shift) // 1000, "Id_2": (i + shift) % 1000, "Me_1": ((i * 7 + off) % 1013).astype("float64"),
                           "At_1": np.where(i % 3 == 0, "A", np.where(i % 3 == 1, "B", "C"))})
        ds = DS(name, [("Id_1", "Integer", ID), ("Id_2", "Integer", ID), ("Me_1", "Number", ME), ("At_1", "String", "Attribute")], [])
        return ds, df
    return [mk("DS_1", 0, 0), mk("DS_2", 500, n // 3), mk("DS_3", 900, 2 * n // 3)]


BIG_SCRIPTS = [
    ("union-3-overlapping", "DS_r <- union(DS_1, DS_2, DS_3);"),
    ("intersect", "DS_r <- intersect(DS_1, DS_2);"),
    ("setdiff", "DS_r <- setdiff(DS_1, DS_2);"),
    ("symdiff", "DS_r <- symdiff(DS_1, DS_3);"),
    ("aggr-sum-count", "DS_r <- DS_1[aggr S := sum(Me_1), C := count(), M := median(Me_1) group by Id_1];"),
    ("analytic-first-lag-rank", "DS_r <- DS_1[calc F := first_value(Me_1 over (partition by Id_1 order by Id_2)), L := lag(Me_1, 1 over (partition by Id_1 order by Id_2)), R := rank(over (partition by Id_1 order by Id_2 desc))];"),
    ("join-3", "DS_r <- inner_join(DS_1 as a, DS_2 as b, DS_3 as c calc S := a#Me_1 + b#Me_1 + c#Me_1 keep S);"),
    ("binary", "DS_r <- DS_1 + DS_2 * 2;"),
]


def digest(res):
    """order-independent digest of a large result: per dataset (row count, sorted-hash of rows)"""
    import pandas as pd
    out = {}
    for k, v in res.items():
        df = v.data
        if df is None:
            out[k] = None
            continue
        h = pd.util.hash_pandas_object(df.round(6) if len(df.select_dtypes("float").columns) else df, index=False)
        out[k] = (len(df), int(h.sum() % (2 ** 61)), tuple(df.columns))
    return out


def big_item(item, rec):
    name, script, n, points = item
    V = harness.boot()
    inputs = big_inputs(n)
    structs = {"datasets": [d.structure() for d, _ in inputs]}
    dps = lambda: {d.name: df for d, df in inputs}
    base = harness.call(V.run, script, structs, dps())
    if base[0] != "ok":
        rec.tool_error("big script %s fails under the default configuration: %s" % (name, base[1:4]))
        return
    db = digest(base[1])
    for point in points:
        for rep in (1, 2):
            with Env(point):
                out = harness.call(V.run, script, structs, dps())
            if out[0] != "ok":
                if point["VTL_MEMORY_LIMIT"]:
                    rec.case((name, n, label(point), "did-not-complete"), "did-not-complete", nontrivial=False)
                    continue
                same = False
            else:
                same = digest(out[1]) == db
            rec.case((name, n, label(point), same), "same" if same else "differs", sample={"script": script, "rows": n, "config": point} if rep == 2 else None)
            if not same:
                rec.violation("C15:large:%s:%s" % (name, "error:%s" % out[2] if out[0] != "ok" else "differs"),
                              "script %s on %d rows under %s (repetition %d): %s" % (name, n, label(point), rep, str(out[1:5])[:200] if out[0] != "ok" else "different datapoints"),
                              {"kind": "big", "script": name, "n": n, "point": point})


class Check:
    ID = "C15"
    LEVEL = "exploration"
    RULE = ("the full 32-point lattice VTL_THREADS{1,2,4,16} x VTL_USE_IN_MEMORY_DB{1,0} x VTL_MEMORY_LIMIT{unset,64MB} x "
            "VTL_TEMP_DIRECTORY{default,fresh} for every program of vtlmc/programs.py (small inputs), plus 8 plan-sensitive scripts on "
            "2.5e5-row inputs at threads {1,4,16} x {in-memory, file-backed} (quick) / 1e6-row inputs at all 32 points (thorough), 2 repetitions each; oracle = "
            "same set of datapoints as the default configuration; runs that do not complete under 64MB are recorded, not judged. "
            "distinct key = (program, size, lattice point, verdict)")
    ASSUMPTIONS = ["DuckDB's internal parallel scheduling is repeated (2x), not enumerated"]

    def run(self, tier, seed, rec):
        harness.boot()
        P = programs.programs()
        harness.pmap(small_item, [[p] for p in harness.seeded_order(P, seed)], rec)
        n = 250000 if tier == "quick" else 1000000
        pts = [p for p in lattice() if p["VTL_MEMORY_LIMIT"] is None]
        if tier == "thorough":
            pts = list(lattice())
        else:   # quick: thread counts {1,4,16} x {in-memory, file-backed}, default temp directory
            pts = [p for p in pts if p["VTL_THREADS"] != "2" and p["VTL_TEMP_DIRECTORY"] is None]
        items = [(name, script, n, pts[i::2]) for name, script in BIG_SCRIPTS for i in (0, 1)]
        harness.pmap(big_item, items, rec, workers=min(8, int(os.environ.get("VTLMC_WORKERS", "16"))))
        return {"exhaustive": True, "lattice_points": 32, "large_rows": n}

    def replay(self, data):
        rec = harness.Recorder()
        if data["kind"] == "small":
            V = harness.boot()
            for p in programs.programs():
                if p[0] == data["program"]:
                    base = refbase.run(p[1], p[2])
                    with Env(data["point"]):
                        out = refbase.run(p[1], p[2])
                    return not (out[0] == "ok" and harness.results_equal(harness.canon_results(base[1]), harness.canon_results(out[1])))
        big_item((data["script"], dict(BIG_SCRIPTS)[data["script"]], data["n"], [data["point"]]), rec)
        return bool(rec.violations)

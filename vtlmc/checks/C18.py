"""C18 — CSV, DataFrame and Parquet inputs with the same content behave identically.

For every component type x role/nullability x cell text of the pool (canonical valid, boundary valid, invalid)
the one-data-row table and the two-row table (with a valid companion row) are materialised in every input
form that can hold the same content (CSV; DataFrame of python str in object / "str" / "string" dtype; DataFrame of
the native dtype when the text parses to it without loss; Parquet with a string column; Parquet with a native
column) and ``run("DS_r <- DS_1;")`` is executed on each.  Oracle O1 (differential, no expected values): every
form is rejected with a VTL input error, or every form is accepted and the returned datapoints are equal.
"""
from vtlmc import harness
from vtlmc import c18_pools as P

FORMS = P.FORMS_ALL
_TEXT = ("df-object", "df-str", "df-string")


def _canon_rows(rows):
    return sorted((tuple(sorted(r.items(), key=lambda kv: kv[0])) for r in rows), key=repr)


def _rows_equal(a, b):
    """harness.rows_equal, but two integers must be exactly equal (its relative tolerance would hide 2^53 + 1 -> 2^53)"""
    if not harness.rows_equal(a, b):
        return False
    for ra, rb in zip(a, b):
        for (_, va), (_, vb) in zip(ra, rb):
            if isinstance(va, int) and isinstance(vb, int) and not isinstance(va, bool) and va != vb:
                return False
    return True


def evaluate(V, type_, role, c, tworow, FORMS=FORMS):
    """run one table in every form -> (per-form outcomes, deviation string or None, groups)"""
    spec = P.cells_table(type_, role, [c], companion_row=tworow)
    outcomes = {}
    for form in FORMS:
        o = P.run_table(V, spec, form)
        if o is not None:
            outcomes[form] = o
    groups = []                      # [class, canonical rows or None, [forms]]
    for form in FORMS:
        if form not in outcomes:
            continue
        o = outcomes[form]
        if o[0] == "ok":
            rows = _canon_rows(o[1])
            for g in groups:
                if g[0] == "accept" and _rows_equal(g[1], rows):
                    g[2].append(form)
                    break
            else:
                groups.append(["accept", rows, [form]])
        else:
            cls = {"reject": "reject", "other": "raise-non-input-error", "raw": "raise-raw-error"}[o[0]]
            for g in groups:
                if g[0] == cls:
                    g[2].append(form)
                    break
            else:
                groups.append([cls, None, [form]])
    if len(groups) == 1:
        dev = None if groups[0][0] in ("accept", "reject") else "all-forms-" + groups[0][0]
        return outcomes, dev, groups
    parts, n_accept = [], 0
    order = {"reject": 0, "raise-non-input-error": 1, "raise-raw-error": 2, "accept": 3}
    for g in sorted(groups, key=lambda g: (order[g[0]], g[2])):
        names = [f for f in g[2] if "@" not in f or f.partition("@")[0] not in g[2]]   # a variant agreeing with its base form is not named
        if all(f in names for f in _TEXT if f in outcomes):
            names = [f for f in names if f not in _TEXT] + ["df-text"]
        names = [P.FAMILY.get(f, f) if f not in _TEXT else f for f in names]
        names.sort()
        verb = g[0]
        if verb == "accept":
            n_accept += 1
            if n_accept > 1:
                verb = "accept-a-different-value"
        parts.append("+".join(names) + "-" + verb)
    return outcomes, ",".join(parts), groups


def _brief(outcomes):
    out = []
    for f in FORMS + P.FORMS_EXTRA:
        if f in outcomes:
            o = outcomes[f]
            if o[0] == "ok":
                out.append("%s: accepted -> %s" % (f, [tuple(r.values()) for r in o[1]]))
            else:
                out.append("%s: %s %s(%s) %s" % (f, o[0], o[1], o[2], str(o[3])[:110].replace("\n", " ")))
    return "; ".join(out)


def work(item, rec):
    V = harness.boot()
    type_, role, c, forms = item
    for tworow in (False, True, "first"):
        outcomes, dev, groups = evaluate(V, type_, role, c, tworow, forms)
        classes = sorted({g[0] for g in groups})
        rec.case((type_, role, c["cls"], {False: "one-row", True: "two-rows", "first": "two-rows-companion-first"}[tworow], dev or "+".join(classes)),
                 "deviation" if dev else "all-" + classes[0], nontrivial=len(outcomes) >= 2,
                 sample={"type": type_, "role": role, "cell": c["t"], "class": c["cls"], "rows": 2 if tworow else 1,
                         "forms": sorted(outcomes), "outcome": dev or classes[0]})
        rec.count("runs", len(outcomes))
        for f in outcomes:
            rec.count("form:" + f)
        if any(g[0] == "accept" for g in groups):
            rec.count("tables_with_an_accepting_form")
        if any(g[0] == "reject" for g in groups):
            rec.count("tables_with_a_rejecting_form")
        if dev:
            rec.violation("C18:%s:%s:%s" % (type_, c["cls"], dev),
                          "%s component (%s), cell %r in a %s table: %s  [expected: all forms reject with a VTL input "
                          "error, or all accept with equal datapoints]" % (
                              type_, "identifier" if role == "id" else ("nullable measure" if role == "nm" else "non-nullable measure"),
                              c["t"], {False: "one-row", True: "two-row", "first": "two-row (valid companion row first)"}[tworow], _brief(outcomes)),
                          {"type": type_, "role": role, "cell": {"t": c["t"], "cls": c["cls"]}, "tworow": tworow, "deviation": dev,
                           "forms": list(forms)})


class Check:
    ID = "C18"
    LEVEL = "exploration"
    RULE = ("exhaustive over 8 component types x 3 roles (identifier, nullable measure, non-nullable measure) x the pool of "
            "cell texts of the type x {one-row table, two-row table with a valid companion after / before the cell} ; each table is run in every "
            "input form that can hold the same content (<= 7; thorough: + CSV with a BOM header and CSV / DataFrame / Parquet "
            "with reversed column order). A case is one table; distinct = (type, role, value class, "
            "table shape, partition of the forms by outcome); non-trivial = at least two forms were executed.")
    ASSUMPTIONS = [
        "a null is written as an empty unquoted CSV field and as a null of the column dtype elsewhere; an empty string "
        "is written as a quoted empty CSV field (\"\") and as '' elsewhere",
        "helper columns (the Integer row number, the Integer measure of identifier tables) are native int64 in every "
        "DataFrame / Parquet form so that only the column under test varies",
        "a native form exists only when the text parses to the native value without loss (int64, float64, bool, "
        "datetime64 incl. tz-aware; 'NaN' has no native form because float NaN is pandas' null)",
        "column order and a BOM header are varied in the thorough tier only (one extra form each, text columns)",
    ]

    def run(self, tier, seed, rec):
        harness.boot()
        try:
            docs = P.parse_docs()
        except Exception as e:  # noqa: BLE001
            rec.tool_error("docs/data_types.rst could not be parsed: %s" % e)
            return {"exhaustive": False}
        items = []
        forms = FORMS + (P.FORMS_EXTRA if tier == "thorough" else ())
        for type_ in P.TYPES:
            for role in P.ROLES:
                for c in P.c18_pool(type_, docs):
                    items.append((type_, role, c, forms))
        items = harness.seeded_order(items, seed)
        harness.pmap(work, items, rec)
        for name in ("form:csv", "form:df-native", "form:pq-str", "form:pq-native", "tables_with_an_accepting_form",
                     "tables_with_a_rejecting_form"):
            if not rec.counters.get(name):
                rec.tool_error("non-vacuity: counter %s is zero" % name)
        return {"exhaustive": True, "tables": 3 * len(items), "pool_sizes": {t: len(P.c18_pool(t, docs)) for t in P.TYPES},
                "forms": list(forms)}

    def replay(self, data):
        V = harness.boot()
        outcomes, dev, _ = evaluate(V, data["type"], data["role"], data["cell"], data["tworow"],
                                    tuple(data.get("forms") or FORMS))
        print("   " + _brief(outcomes))
        print("   deviation now: %s (recorded: %s)" % (dev, data.get("deviation")))
        return dev is not None

"""C20 — validate_dataset agrees with run() on which inputs are valid.

Same generated input space as C19 (structural violations alone and in pairs, every documented spelling of every
type, the C18 pools), in DataFrame and CSV form.  Oracle O1 (differential): validate_dataset(structures,
datapoints) raises if and only if run("DS_r <- DS_1;", structures, datapoints) raises a VTL input error.  Two
independent implementations (pandas ``_validate_pandas`` vs the SQL loader) are played against each other; no
expectation about which of them is right is used (the C19 expectation only decides how cells are packed).
"""
from vtlmc import harness
from vtlmc import c18_pools as P


def compare(v, r):
    """validate outcome, run outcome -> deviation or None"""
    v_ok, r_ok = v[0] == "ok", r[0] == "ok"
    if v_ok and r_ok:
        return None
    if v_ok:
        return {"reject": "validate-accepts-run-rejects", "other": "validate-accepts-run-fails-with-non-input-error",
                "raw": "validate-accepts-run-fails-with-raw-error"}[r[0]]
    if r_ok:
        return "validate-rejects-run-accepts"
    return None          # both refuse the input (a run() failure that is not an input error is C19's finding)


def _show(o):
    if o[0] == "ok":
        return "accepts" + (" -> %r" % (o[1],) if len(o) > 1 and o[1] is not None else "")
    return "raises %s(%s): %s" % (o[1], o[2], str(o[3])[:140].replace("\n", " "))


def keyed(prefix, devs):
    d = {f: v for f, v in devs.items() if v}
    if not d:
        return []
    if len(d) == len(devs) and len(set(d.values())) == 1:
        return [("%s:%s" % (prefix, next(iter(d.values()))), sorted(d))]
    return [("%s:%s:%s-only" % (prefix, v, P.FORM_NAME[f]), [f]) for f, v in sorted(d.items())]


def both_single(V, type_, role, c, f):
    return (P.single_cell(V, type_, role, c, f, P.validate_table), P.single_cell(V, type_, role, c, f, P.run_table))


def work_cells(item, rec):
    V = harness.boot()
    kind, type_, role, cells = item
    val, run, packed = {}, {}, {}
    for f in P.FORMS_2:
        val[f], pv, n1 = P.outcomes_of(V, kind, type_, role, cells, f, P.validate_table)
        run[f], pr, n2 = P.outcomes_of(V, kind, type_, role, cells, f, P.run_table)
        packed[f] = [a or b for a, b in zip(pv, pr)]
        rec.count("validate_calls", n1)
        rec.count("run_calls", n2)
    seen = set()
    for k, c in enumerate(cells):
        devs, outs = {}, {}
        for f in P.FORMS_2:
            v, r = val[f][k], run[f][k]
            dev = compare(v, r)
            if dev and packed[f][k]:           # verdicts only from one-cell tables
                v, r = both_single(V, type_, role, c, f)
                dev = compare(v, r)
            devs[f], outs[f] = dev, (v, r)
        cls = P.cell_class(c, role)
        oc = "/".join("%s~%s" % ("ok" if outs[f][0][0] == "ok" else "raise", outs[f][1][0]) for f in P.FORMS_2)
        rec.case((type_, role, cls, c.get("fmt"), oc), oc, n=2,
                 sample={"type": type_, "role": role, "cell": c["t"], "class": cls,
                         "dataframe": "validate %s | run %s" % (_show(outs["df"][0])[:60], _show(outs["df"][1])[:60]),
                         "csv": "validate %s | run %s" % (_show(outs["csv"][0])[:60], _show(outs["csv"][1])[:60])})
        for f in P.FORMS_2:
            v, r = outs[f]
            rec.count("both_accept" if v[0] == "ok" and r[0] == "ok" else ("both_refuse" if v[0] != "ok" and r[0] != "ok" else "disagree"))
            if v[0] != "ok" and r[0] in ("other", "raw"):
                rec.count("both_refuse_but_run_error_is_not_an_input_error")
            if v[0] == "raw":
                rec.count("validate_raised_a_raw_exception")
        for key, forms in keyed(P.key_prefix("C20", type_, c, role), devs):
            if key in seen:
                continue
            seen.add(key)
            rec.violation(key, "%s %s, cell %r (%s): %s" % (
                type_, P.ROLE_NAME[role], c["t"], cls,
                "; ".join("%s: validate_dataset %s BUT run %s" % (P.FORM_NAME[f], _show(outs[f][0]), _show(outs[f][1])) for f in forms)),
                {"kind": "cell", "type": type_, "role": role, "cell": c})


def run_structural(V, case):
    outs, devs = {}, {}
    for f in P.FORMS_2:
        v = P.validate_table(V, case["spec"], f)
        r = P.run_table(V, case["spec"], f)
        outs[f] = (v, r)
        devs[f] = compare(v, r)
    return outs, devs


def attributed_name(V, case, devs):
    """a pair of violations that deviates exactly like one of its members alone is the member's finding (one root
    cause = one key); otherwise the pair is named"""
    if len(case["viol"]) == 2 and any(devs.values()):
        singles = {c["name"]: c for c in P.structural_cases() if len(c["viol"]) == 1}
        for m in case["viol"]:
            if m in singles and run_structural(V, singles[m])[1] == devs:
                return m
    return case["name"]


def work_structural(case, rec):
    V = harness.boot()
    outs, devs = run_structural(V, case)
    rec.count("validate_calls", 2)
    rec.count("run_calls", 2)
    oc = "/".join("%s~%s" % ("ok" if outs[f][0][0] == "ok" else "raise", outs[f][1][0]) for f in P.FORMS_2)
    rec.case(("structure", case["name"], oc), oc, n=2, sample={"structure": case["name"], "outcome": oc})
    for f in P.FORMS_2:
        v, r = outs[f]
        rec.count("both_accept" if v[0] == "ok" and r[0] == "ok" else ("both_refuse" if v[0] != "ok" and r[0] != "ok" else "disagree"))
    for key, forms in keyed("C20:%s" % attributed_name(V, case, devs), devs):
        rec.violation(key, "table with %s (columns %s, first rows %s): %s" % (
            case["name"], case["spec"]["cols"], case["spec"]["rows"][:3],
            "; ".join("%s: validate_dataset %s BUT run %s" % (P.FORM_NAME[f], _show(outs[f][0]), _show((outs[f][1][0],) + (() if outs[f][1][0] == "ok" else tuple(outs[f][1][1:])))) for f in forms)),
            {"kind": "structure", "name": case["name"]})


def work(item, rec):
    if item[0] == "structure":
        work_structural(item[1], rec)
    else:
        work_cells(item, rec)


class Check:
    ID = "C20"
    LEVEL = "exploration"
    RULE = ("the C19 input space (structural violations alone and in pairs; per type the C18 pool in three roles and every "
            "spelling generated from docs/data_types.rst x period numbers 0..max+1 x boundary years), each table given to "
            "validate_dataset() and to run() in DataFrame and in CSV form. A case = one cell (or structural table) in one "
            "form; distinct = (type, role, value class, documented format, validate outcome ~ run outcome per form).")
    ASSUMPTIONS = [
        "a packed table accepted by validate_dataset() / run() settles each of its rows; every disagreement is "
        "re-examined and reported on a one-cell table only",
        "run() 'rejects' = raises DataLoadError / InputValidationException; when validate_dataset raises and run() fails "
        "with another error class the two agree on invalidity (the wrong class is C19's finding) - counted, not reported",
        "validate_dataset is given a pathlib.Path for CSV files and a fresh DataFrame per call",
    ]

    def run(self, tier, seed, rec):
        harness.boot()
        try:
            docs = P.parse_docs()
        except Exception as e:  # noqa: BLE001
            rec.tool_error("docs/data_types.rst could not be parsed: %s" % e)
            return {"exhaustive": False}
        items = [("structure", c) for c in P.structural_cases()]
        n_struct = len(items)
        cell_items = P.cell_items(docs, tier)
        items += cell_items
        items = harness.seeded_order(items, seed)
        harness.pmap(work, items, rec)
        for name in ("both_accept", "both_refuse"):
            if not rec.counters.get(name):
                rec.tool_error("non-vacuity: counter %s is zero" % name)
        return {"exhaustive": True, "structural_tables": n_struct, "cells": sum(len(i[3]) for i in cell_items),
                "forms": list(P.FORMS_2)}

    def replay(self, data):
        V = harness.boot()
        if data["kind"] == "structure":
            case = next(c for c in P.structural_cases() if c["name"] == data["name"])
            outs, devs = run_structural(V, case)
        else:
            outs, devs = {}, {}
            for f in P.FORMS_2:
                outs[f] = both_single(V, data["type"], data["role"], data["cell"], f)
                devs[f] = compare(*outs[f])
        for f in P.FORMS_2:
            print("   %s: validate_dataset %s | run %s -> %s" % (P.FORM_NAME[f], _show(outs[f][0]), _show(outs[f][1]), devs[f]))
        return any(devs.values())
